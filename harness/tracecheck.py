"""Model-independent oracles over recorded traces of real runs (exact rational arithmetic).

Each oracle states one of the history properties (C07, C08, C09, C11, C12, C13 run part, C17) directly on
what the tracer recorded; none of them uses the Coq model.  They return a list of failure dicts
{"leg": n, "msg": ...} (empty = property held on this trace)."""
import math
from fractions import Fraction as Fr

from common import b2f

INF_BITS = 0x7FF0000000000000


def fr(bits):
    return Fr(b2f(bits))


def tval(ts):
    """exact value of a Time (quotient, remainder) given as bit patterns; None for infinite"""
    q, r = b2f(ts[0]), b2f(ts[1])
    if math.isinf(q) or math.isinf(r) or math.isnan(q) or math.isnan(r):
        return None
    return Fr(q) + Fr(r)


def ulp(x):
    """ulp of the binary64 binade containing |x| (x rational); ulp(0) = 2^-1074"""
    x = abs(Fr(x))
    if x == 0:
        return Fr(1, 2 ** 1074)
    e = (x.numerator.bit_length() - x.denominator.bit_length())
    # 2^e <= x*2 roughly; fix up
    while Fr(2) ** e > x:
        e -= 1
    while Fr(2) ** (e + 1) <= x:
        e += 1
    return Fr(2) ** max(e - 52, -1074)


def circ_dist(a, b, L):
    d = (a - b) % L
    return min(d, L - d)


class State:
    """Global state reconstructed from init_state + deltas."""

    def __init__(self, trace):
        self.meta = trace["meta"]
        self.L = [fr(x) for x in self.meta["system_lengths"]]
        self.dim = self.meta["dimension"]
        self.units = {tuple(u["id"]): u for u in trace["init_state"]}
        self.weights = {tuple(u["id"]): fr(u["w"]) for u in trace["init_state"]}
        self.roots = [k for k in self.units if len(k) == 1]
        self.children = {}
        for k in self.units:
            if len(k) > 1:
                self.children.setdefault(k[:-1], []).append(k)
        for k in self.children:
            self.children[k].sort()
        self.leaves = [k for k in self.units if k not in self.children]

    def apply(self, delta):
        for u in delta or []:
            self.units[tuple(u["id"])] = u

    def pos_at(self, u, T):
        """exact position of unit record u advanced to time T (no wrapping)"""
        p = [fr(x) for x in u["pos"]]
        if u["vel"] is None:
            return p
        ts = tval(u["ts"])
        return [p[d] + fr(u["vel"][d]) * (T - ts) for d in range(len(p))]


def slice_tol(u, T, L, d):
    """Rounding bound of pos + vel*(T - ts) % L as computed in floats (see DESIGN C07 time_slice_error):
    4 * ( |v| * ulp(max(1,|dt|)) + ulp(max(|pos + v*dt|, L)) )"""
    if u["vel"] is None:
        return Fr(0)
    v = abs(fr(u["vel"][d]))
    dt = abs(T - tval(u["ts"]))
    m = abs(fr(u["pos"][d]) + fr(u["vel"][d]) * (T - tval(u["ts"])))
    return 4 * (v * ulp(max(Fr(1), dt)) + ulp(max(m, L)))


HANDLER_KIND_BASES = [
    ("start_of_run", "StartOfRunEventHandler"), ("end_of_run", "EndOfRunEventHandler"),
    ("sampling", "SamplingEventHandler"), ("dumping", "DumpingEventHandler"),
    ("end_of_chain", "EndOfChainEventHandler"), ("switcher", "RootLeafUnitActiveSwitcher"),
    ("cell_boundary", "CellBoundaryEventHandler"), ("cell_veto", "CellVetoEventHandler"),
]


def handler_kind(meta, hi):
    bases = meta["taggers"][meta["handlers"][hi]["tagger"]]["handler_bases"]
    for kind, base in HANDLER_KIND_BASES:
        if base in bases:
            return kind
    return "interaction"


IDENTITY_TAGGERS = ("FactorTypeMapInStateTagger", "CellVetoTagger", "CellBoundingPotentialTagger",
                    "ExcludedCellsTagger", "SurplusCellsTagger", "CellBoundaryTagger")
COUNT_TAGGERS = ("NoInStateTagger", "ActiveGlobalStateInStateTagger", "ActiveRootUnitInStateTagger")


def tagger_base(meta, ti):
    c = meta["taggers"][ti]["class"]
    if "(" in c:
        c = c[c.index("(") + 1:c.index(")")]
    return c


# ------------------------------------------------------------------------------------------------
def check_all(trace, props=("C07", "C08", "C09", "C11", "C12", "C13", "C17")):
    """Run the oracles over one trace.  Returns {prop: [failures]} and statistics."""
    fails = {p: [] for p in props}
    if trace.get("error") and trace.get("meta") is None:
        for p in props:
            fails[p].append({"leg": 0, "msg": "run raised %s before the first leg: %s"
                             % (trace["error"]["exc"], trace["error"]["msg"])})
        return fails, {"legs": 0, "commits": 0, "kinds": {}}
    meta = trace["meta"]
    st = State(trace)
    stats = {"legs": 0, "commits": 0, "kinds": {}, "max_moving": 0, "samples": 0, "cell_crossings": 0,
             "liftings": 0, "c08_checked": 0, "c09_compared": 0, "c11_units": 0, "c12_objects": 0}
    if trace.get("error"):
        for p in props:
            fails[p].append({"leg": len(trace["legs"]), "msg": "run raised %s: %s" % (trace["error"]["exc"],
                                                                                     trace["error"]["msg"])})
        return fails, stats
    if "C07" in props:
        # the initial configuration (random creators, input files): every position lies in the box
        for k, u in st.units.items():
            for d in range(st.dim):
                x = fr(u["pos"][d])
                if not (0 <= x < st.L[d]):
                    fails["C07"].append({"leg": 0, "msg": "initial position of %r outside the box: %r (direction %d)"
                                         % (k, float(x), d)})
    if "C12" in props and st.children:
        # the randomly generated initial molecules
        for root in st.roots:
            if root in st.children:
                stats["c12_objects"] += 1
                m = check_composite(st, root, Fr(0), 0)
                if m:
                    fails["C12"].append({"leg": 0, "msg": "initial composite object %r: %s" % (root, m)})
    pending_instates = {}
    now = Fr(0)
    speed0 = None
    started = False
    sample_times = {}
    prev_leg = None
    charges0 = {k: u.get("charge") for k, u in st.units.items()}
    start_tagger_done = False
    mode_activation = {}
    for n, leg in enumerate(trace["legs"]):
        stats["legs"] += 1
        # ---------------- C09: pending == fresh (evaluated at the start of the leg, after creation)
        if "C09" in props and "fresh" in leg and n >= 1:
            for ti_s, fresh in leg["fresh"].items():
                ti = int(ti_s)
                base = tagger_base(meta, ti)
                pend = leg["pending"][ti_s]
                hcls = meta["taggers"][ti]["handler_bases"]
                if "StartOfRunEventHandler" in hcls:
                    continue      # one-shot tagger
                if isinstance(fresh, str):
                    fails["C09"].append({"leg": n, "msg": "tagger %s raised %s on fresh generation"
                                         % (meta["taggers"][ti]["tag"], fresh)})
                    continue
                stats["c09_compared"] += 1
                if len(fresh) > meta["taggers"][ti]["n_handlers"]:
                    fails["C09"].append({"leg": n, "msg": "tagger %s demands %d handlers but owns %d"
                                         % (meta["taggers"][ti]["tag"], len(fresh), meta["taggers"][ti]["n_handlers"])})
                if base in IDENTITY_TAGGERS:
                    if len(set(canon_ids(x) for x in fresh)) != len(fresh):
                        dup = sorted(canon_ids(x) for x in fresh)
                        dup = [x for i, x in enumerate(dup) if i and dup[i - 1] == x]
                        fails["C09"].append({"leg": n, "msg": "tagger %s generates a factor twice: %r"
                                             % (meta["taggers"][ti]["tag"], dup[:3])})
                    a = sorted(canon_ids(x) for x in fresh)
                    b = sorted(canon_ids(x) for x in pend)
                    if a != b:
                        fails["C09"].append({"leg": n, "msg": "tagger %s: pending in-states %r != fresh %r"
                                             % (meta["taggers"][ti]["tag"], b[:6], a[:6])})
                else:
                    if len(fresh) != len(pend):
                        fails["C09"].append({"leg": n, "msg": "tagger %s: %d pending events, fresh start creates %d"
                                             % (meta["taggers"][ti]["tag"], len(pend), len(fresh))})
        # ---------------- C09: the set of activated taggers is the one of a fresh start in the same mode of motion
        # (a single point mass moves / a whole composite object moves): a tagger that a mode switch leaves
        # deactivated has no pending events AND generates none when asked, so only this comparison sees that its
        # factors are missing
        if "C09" in props and leg.get("activated") is not None and n >= 1:
            nmov = len([k for k in st.leaves if st.units[k]["vel"] is not None])
            mode = "composite object" if nmov > 1 else "point mass"
            act = tuple(sorted(int(t) for t, b in leg["activated"].items() if b
                               and "StartOfRunEventHandler" not in meta["taggers"][int(t)]["handler_bases"]))
            if mode not in mode_activation:
                mode_activation[mode] = (n, act)
            elif mode_activation[mode][1] != act:
                n0, act0 = mode_activation[mode]
                diff = sorted(set(act0) ^ set(act))
                fails["C09"].append({"leg": n, "msg": "activated taggers differ from those at leg %d in the same mode (%s "
                                     "moves): %r" % (n0, mode, [meta["taggers"][t]["tag"] for t in diff])})
        # ---------------- C11: occupancy mirrors positions (start of leg, after update)
        if "C11" in props and leg.get("occ") and started:
            for si, occ in enumerate(leg["occ"]):
                if occ is None:
                    continue
                msgs = check_occupancy(st, meta, si, occ, leg, prev_leg, stats)
                fails["C11"] += [{"leg": n, "msg": m} for m in msgs]
        if leg.get("pick") is None or leg.get("out") is None:
            continue     # trace cut in the middle of a leg
        stats["commits"] += 1
        kind = handler_kind(meta, leg["pick"])
        stats["kinds"][kind] = stats["kinds"].get(kind, 0) + 1
        T = tval(leg["time"]) if leg.get("time") else None
        # ---------------- C13 (run part): nothing changed between commits
        if "C13" in props and leg.get("pre_delta"):
            fails["C13"].append({"leg": n, "msg": "global state changed between commits: %r"
                                 % [u["id"] for u in leg["pre_delta"]][:5]})
        # ---------------- C07 (a): times never decrease, scheduler picked the minimum candidate
        if "C07" in props:
            if T is None:
                fails["C07"].append({"leg": n, "msg": "committed event has infinite/NaN time"})
                T = now
            if T < now:
                fails["C07"].append({"leg": n, "msg": "event time decreased: %s < %s" % (float(T), float(now))})
            for hi, cb in leg["cands"]:
                cv = tval(cb)
                if cv is not None and cv < now:
                    fails["C07"].append({"leg": n, "msg": "candidate of handler %d lies in the past" % hi})
        # ---------------- C08: committed event computed from the still-current trajectory
        if "C08" in props and kind in ("interaction", "cell_veto") and leg.get("pick_instate"):
            stats["c08_checked"] += 1
            for iu in leg["pick_instate"]:
                gu = st.units[tuple(iu["id"])]
                m = same_trajectory(st, gu, iu, T)
                if m:
                    fails["C08"].append({"leg": n, "msg": "stale in-state of %s for unit %r: %s"
                                         % (meta["handlers"][leg["pick"]]["class"], iu["id"], m)})
        old_units = dict(st.units)
        st.apply(leg["delta"])
        if kind == "start_of_run":
            started = True
        if "C08" in props:
            # pending in-states: registered when a handler is started, dropped when it is trashed; after the commit
            # every SURVIVING interaction / cell-veto event must still see its units on an unchanged trajectory
            for hs, units in (leg.get("instates") or {}).items():
                if units is not None and handler_kind(meta, int(hs)) in ("interaction", "cell_veto"):
                    pending_instates[int(hs)] = units
            for h in leg.get("trash") or []:
                pending_instates.pop(h, None)
            changed = {tuple(u["id"]) for u in leg["delta"] or []}
            for h, units in pending_instates.items():
                for iu in units:
                    if tuple(iu["id"]) in changed:
                        m = same_trajectory(st, st.units[tuple(iu["id"])], iu, T)
                        if m:
                            fails["C08"].append({"leg": n, "msg": "candidate of %s survives in the scheduler although "
                                                 "the %s event changed the motion of its unit %r: %s"
                                                 % (meta["handlers"][h]["class"], kind, iu["id"], m)})
        # ---------------- C07 (b): continuity of every changed unit; inactive units do not move
        if "C07" in props:
            for u in leg["delta"] or []:
                k = tuple(u["id"])
                o = old_units[k]
                if u.get("charge") != charges0[k]:
                    fails["C07"].append({"leg": n, "msg": "charge of %r changed" % (k,)})
                if o["vel"] is None and o["pos"] != u["pos"] and kind != "cell_boundary":
                    fails["C07"].append({"leg": n, "msg": "inactive unit %r moved" % (k,)})
                    continue
                po = st.pos_at(o, T)
                pn = st.pos_at(u, T)
                for d in range(st.dim):
                    tol = slice_tol(o, T, st.L[d], d) + slice_tol(u, T, st.L[d], d)
                    if kind == "cell_boundary":
                        tol += 4 * ulp(st.L[d])    # position is set to the boundary value itself
                    if circ_dist(po[d], pn[d], st.L[d]) > tol:
                        fails["C07"].append({"leg": n, "msg": "unit %r jumps by %.3e in direction %d at a %s event"
                                             % (k, float(circ_dist(po[d], pn[d], st.L[d])), d, kind)})
                for d in range(st.dim):
                    x = fr(u["pos"][d])
                    if not (0 <= x < st.L[d]):
                        fails["C07"].append({"leg": n, "msg": "position of %r outside the box: %r" % (k, float(x))})
            if set(st.units) != set(old_units):
                fails["C07"].append({"leg": n, "msg": "identities changed"})
            # single chain
            if kind == "start_of_run":
                started = True
            moving = [k for k in st.leaves if st.units[k]["vel"] is not None]
            stats["max_moving"] = max(stats["max_moving"], len(moving))
            if started:
                if not moving:
                    fails["C07"].append({"leg": n, "msg": "no moving point mass after event"})
                else:
                    vels = {tuple(st.units[k]["vel"]) for k in moving}
                    if len(vels) != 1:
                        fails["C07"].append({"leg": n, "msg": "moving point masses have different velocities"})
                    root = moving[0][:1]
                    allleaves = [k for k in st.leaves if k[:1] == root]
                    if not (len(moving) == 1 or sorted(moving) == sorted(allleaves)):
                        fails["C07"].append({"leg": n, "msg": "moving set %r is neither one point mass nor a whole "
                                                               "composite object" % (moving,)})
                    v = [fr(x) for x in st.units[moving[0]]["vel"]]
                    sp2 = sum(x * x for x in v)
                    if speed0 is None:
                        speed0 = sp2
                    elif abs(sp2 - speed0) > speed0 * Fr(stats["commits"] + 4, 2 ** 48):
                        fails["C07"].append({"leg": n, "msg": "speed changed: |v|^2 %r -> %r"
                                             % (float(speed0), float(sp2))})
                if prev_moving_ids(prev_leg) != sorted(moving):
                    stats["liftings"] += 1
        # ---------------- C12: composite objects consistent
        if "C12" in props and started and st.children:
            for root in st.roots:
                if root not in st.children:
                    continue
                stats["c12_objects"] += 1
                m = check_composite(st, root, T, stats["commits"])
                if m:
                    fails["C12"].append({"leg": n, "msg": "composite object %r: %s" % (root, m)})
        # ---------------- C17: samples at nominal times on a fully time-sliced state
        if "C17" in props:
            if kind in ("sampling", "end_of_run", "dumping"):
                h = meta["handlers"][leg["pick"]]
                cnt = sample_times.setdefault(leg["pick"], [])
                cnt.append(T)
                if kind == "sampling":
                    stats["samples"] += 1
                    dlt = fr(h["sampling_interval"])
                    k = len(cnt)
                    first_zero = first_sample_zero(h)
                    nominal = dlt * (k - 1 if first_zero else k)
                    bound = (k + 1) * ulp(1 + dlt)
                    if abs(T - nominal) > bound:
                        fails["C17"].append({"leg": n, "msg": "sample %d at %r, nominal %r" % (k, float(T), float(nominal))})
                    if leg.get("write") is None:
                        fails["C17"].append({"leg": n, "msg": "sampling event did not write"})
                if leg.get("write") is not None and isinstance(h.get("output_handler"), str) \
                        and leg["write"] != h["output_handler"]:
                    fails["C17"].append({"leg": n, "msg": "event of %s written to output handler %r, its configured "
                                         "output handler is %r" % (h["class"], leg["write"], h["output_handler"])})
                if kind == "end_of_run" and trace.get("end_of_run_time") is not None:
                    te = fr(trace["end_of_run_time"])
                    if T != te:
                        fails["C17"].append({"leg": n, "msg": "run ended at %r instead of %r" % (float(T), float(te))})
                if kind in ("sampling", "end_of_run") and leg.get("wstate") is not None:
                    for wu in leg["wstate"]:
                        gu = st.units[tuple(wu["id"])]
                        if any(wu[f] != gu[f] for f in ("pos", "vel", "ts", "charge")):
                            fails["C17"].append({"leg": n, "msg": "written state differs from the committed state for %r"
                                                 % wu["id"]})
                        if wu["vel"] is not None and tval(wu["ts"]) != T:
                            fails["C17"].append({"leg": n, "msg": "unit %r written with time stamp %r at sample time %r"
                                                 % (wu["id"], float(tval(wu["ts"])), float(T))})
        if T is not None and T > now:
            now = T
        prev_leg = leg
    # end of run: number of samples == number of sampling times before the end
    if "C17" in props and trace.get("ended") == "end_of_run":
        te = fr(trace["end_of_run_time"]) if trace.get("end_of_run_time") is not None else None
        for hi, times in sample_times.items():
            h = meta["handlers"][hi]
            if "sampling_interval" in h and te is not None and handler_kind(meta, hi) == "sampling":
                dlt = fr(h["sampling_interval"])
                first_zero = first_sample_zero(h)
                k = 0 if first_zero else 1
                expected = 0
                while dlt * k < te - (k + 2) * ulp(1 + dlt) - ulp(te):
                    expected += 1
                    k += 1
                near_tie = abs(dlt * k - te) <= (k + 2) * ulp(1 + dlt) + ulp(te)
                if len(times) != expected and not (near_tie and len(times) == expected + 1):
                    fails["C17"].append({"leg": len(trace["legs"]), "msg": "%d samples written, %d sampling times "
                                         "before the end time" % (len(times), expected)})
    return fails, stats


def first_sample_zero(h):
    it = h.get("initial_event_time")
    return it is not None and b2f(it[0]) < 0


def canon_ids(x):
    return None if x is None else tuple(tuple(i) for i in x)


def prev_moving_ids(prev_leg):
    if prev_leg is None:
        return None
    return None


def same_trajectory(st, gu, iu, T):
    """gu: unit in the global state right before the commit; iu: the unit as it was when the candidate
    was computed.  Same velocity (bits) and same straight line."""
    if gu["vel"] != iu["vel"]:
        return "velocity changed since the candidate was computed"
    if iu["vel"] is None:
        return None if gu["pos"] == iu["pos"] else "inactive unit moved since the candidate was computed"
    pg = st.pos_at(gu, T)
    pi = st.pos_at(iu, T)
    for d in range(st.dim):
        tol = slice_tol(gu, T, st.L[d], d) + slice_tol(iu, T, st.L[d], d) + 8 * ulp(st.L[d])
        if circ_dist(pg[d], pi[d], st.L[d]) > tol:
            return "trajectory differs by %.3e in direction %d" % (float(circ_dist(pg[d], pi[d], st.L[d])), d)
    return None


def check_composite(st, root, T, ncommits):
    ru = st.units[root]
    kids = st.children[root]
    ws = [st.weights[k] for k in kids]
    kv = [st.units[k]["vel"] for k in kids]
    # velocity: weighted sum, absent iff none moves
    if all(v is None for v in kv):
        if ru["vel"] is not None:
            return "root has a velocity but no point mass moves"
    else:
        if ru["vel"] is None:
            return "point masses move but the root has no velocity"
        for d in range(st.dim):
            s = sum(w * fr(v[d]) for w, v in zip(ws, kv) if v is not None)
            if abs(s - fr(ru["vel"][d])) > Fr(ncommits + 8, 2 ** 44) * max(Fr(1), abs(s)):
                return "root velocity %r != weighted sum %r in direction %d" % (b2f(ru["vel"][d]), float(s), d)
    # position: barycentre of the point masses (nearest images of each other, unwrapped around the first one)
    rp = st.pos_at(ru, T)
    k0 = st.pos_at(st.units[kids[0]], T)
    for d in range(st.dim):
        L = st.L[d]
        bary = k0[d]
        for w, k in zip(ws, kids):
            kp = st.pos_at(st.units[k], T)[d]
            bary += w * ((kp - k0[d] + L / 2) % L - L / 2)
        tol = Fr(ncommits + 16, 2 ** 40) * L
        off = circ_dist(bary, rp[d], L)
        if off > tol:
            return "root position off the barycentre by %.3e in direction %d" % (float(off), d)
    return None


def cell_of(st, meta, si, pos_bits):
    ist = meta["internal_states"][si]
    cps = ist["cells_per_side"]
    out = []
    for d in range(st.dim):
        L = b2f(meta["system_lengths"][d])
        n = cps[d]
        side = L / n
        out.append(min(int(b2f(pos_bits[d]) / side), n - 1))
    return out


def check_occupancy(st, meta, si, occ, leg, prev_leg, stats):
    msgs = []
    ist = meta["internal_states"][si]
    level = ist["cell_level"]
    seen = {}
    for cell, ids in list(occ["occupants"].items()) + list(occ["surplus"].items()):
        for i in ids:
            seen.setdefault(tuple(i), []).append(cell)
    for cell, ids in occ["occupants"].items():
        if not ist["occupants_not_bounded"] and len(ids) > ist["max_occupants"]:
            msgs.append("cell %s lists %d occupants, limit %d" % (cell, len(ids), ist["max_occupants"]))
    for cell, ids in occ["surplus"].items():
        if not ids:
            msgs.append("empty surplus list stored for cell %s" % cell)
    active = tuple(occ["active_id"]) if occ["active_id"] is not None else None
    cname = ist.get("charge_name")
    if ist.get("charge_known"):
        # the relevant units, determined independently of the implementation's filter
        expect = sorted(k for k, u in st.units.items() if len(k) == level and
                        (cname is None or ((u.get("charge") or {}).get(cname, 0) & 0x7FFFFFFFFFFFFFFF) != 0))
        got = sorted(tuple(r) for r in occ["relevant"])
        if expect != got:
            msgs.append("charge filter: relevant units %r but units with non-zero %s are %r" % (got[:6], cname, expect[:6]))
    for rid in occ["relevant"]:
        k = tuple(rid)
        stats["c11_units"] += 1
        u = st.units[k]
        if k == active:
            if k in seen:
                msgs.append("active unit %r also recorded as occupant/surplus" % (k,))
            continue
        # the moving unit on cell level that is NOT the recorded active one can only be the recorded active unit
        cells = seen.get(k, [])
        if len(cells) != 1:
            msgs.append("unit %r recorded %d times" % (k, len(cells)))
            continue
        true_cell = ",".join(map(str, cell_of(st, meta, si, u["pos"])))
        if u["vel"] is None and cells[0] != true_cell:
            msgs.append("unit %r recorded in cell %s but its position is in cell %s" % (k, cells[0], true_cell))
    for k in seen:
        if list(k) not in occ["relevant"]:
            msgs.append("irrelevant/unknown unit %r recorded" % (k,))
    # active unit: recorded cell == cell of its current position
    if active is not None:
        au = None
        for u in leg["active"]:
            if tuple(u["id"]) == active:
                au = u
        if au is None:
            msgs.append("recorded active unit %r is not in the active global state" % (active,))
        else:
            tc = cell_of(st, meta, si, au["pos"])
            if tc != occ["active_cell"]:
                msgs.append("active unit %r recorded in cell %r but is in cell %r" % (active, occ["active_cell"], tc))
        if prev_leg is not None and prev_leg.get("occ") and prev_leg["occ"][si] is not None:
            pocc = prev_leg["occ"][si]
            if pocc["active_id"] == occ["active_id"] and pocc["active_cell"] != occ["active_cell"]:
                stats["cell_crossings"] += 1
                pk = handler_kind(meta, prev_leg["pick"]) if prev_leg.get("pick") is not None else None
                if pk != "cell_boundary":
                    msgs.append("active unit changed cell %r -> %r without a cell-boundary event (event kind %s)"
                                % (pocc["active_cell"], occ["active_cell"], pk))
                else:
                    cps = ist["cells_per_side"]
                    diff = [(a - b) % n for a, b, n in zip(occ["active_cell"], pocc["active_cell"], cps)]
                    nz = [(d, x) for d, x in enumerate(diff) if x != 0]
                    if len(nz) != 1 or nz[0][1] not in (1, cps[nz[0][0]] - 1):
                        msgs.append("after a cell-boundary event the active unit is in %r, not a neighbour of %r"
                                    % (occ["active_cell"], pocc["active_cell"]))
    return msgs
