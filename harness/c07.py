"""C07 — continuous motion, single chain, conservation (DESIGN.md section 5, C07)."""
import common as C
import hist

TRUSTED = [
    "hand-written model coq/Model/Kinematics.v (global state, commit = override, pending candidate times, local "
    "contract of out-states) evaluated on exact rationals obtained from the recorded bit patterns",
    "monkeypatching tracer harness/drivers/tracer.py",
]
ASSUME = [
    "tie to the code: every leg of the traced real runs must be accepted by leg_ok inside Coq and the model's state "
    "after each commit must equal the real global state (after_ok); a model-independent oracle (exact rationals) "
    "states C07 directly on the recorded states",
    "rounding bound of one time-slice: relative 2^-50 of |v|*max(1,|dt|) + max(|x|, L) (slice_tol)",
]


def encoders():
    # check_kcase_and_hocase = check_kcase && check_hocase: the kinematics replay and, per leg, the LOCAL hand-over
    # contract from which Props/C07chain.v derives the chain condition (one parse of the case term for both)
    return [("c07_kin", hist.KIN_HEADER + "\nRequire Import JF.Model.Handover JF.Model.HandoverCases.",
             "check_kcase_and_hocase", "kcase", lambda tr, n: hist.encode_kcase(tr, n))]


def creator_batches(ctx):
    """many randomly generated initial molecules (no event is run: max_legs = 0): molecules placed across the periodic
    boundary are rare (1-2 %), and every point mass has to be folded back into the box"""
    n = ctx.n(300, 2000)
    base = "config_files/2018_JCP_149_064113/"
    return [([(base + "dipoles/dipole_motion.ini", {"RandomInputHandler": {"number_of_root_nodes": n}}),
              (base + "water/single_molecule.ini", {"RandomInputHandler": {"number_of_root_nodes": n}}),
              ("config_files/hard_disk_dipoles/single_hard_disk_dipole.ini",
               {"RandomInputHandler": {"number_of_root_nodes": min(n, 40)}})], 0, (ctx.seed, ctx.seed + 1))]


def run(ctx, replay_jobs=None):
    hist.run_history_check(
        ctx, "C07", ("C07",), encoders(), TRUSTED, ASSUME,
        "Props/C07.v re-checked; every traced run replayed through Model/Kinematics.v in Coq (leg_ok: candidates in "
        "the future, pick is a minimum of the pending events, out-state contract, coverage of the moving chain, "
        "model state == real state); oracle: times never decrease, per-unit continuity within the rounding bound, "
        "inactive units do not move, one chain with conserved speed, positions in the box, identities/charges fixed",
        replay_jobs=replay_jobs, extra_batches=() if replay_jobs else creator_batches(ctx))


def replay(ctx, path):
    run(ctx, replay_jobs=hist.replay_payloads(path))
