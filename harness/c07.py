"""C07 — continuous motion, single chain, conservation (DESIGN.md section 5, C07)."""
import common as C
import hist

TRUSTED = [
    "hand-written model coq/Model/Kinematics.v (global state, commit = override, pending candidate times, local "
    "contract of out-states) evaluated on exact rationals obtained from the recorded bit patterns",
    "monkeypatching tracer harness/drivers/tracer.py",
]
ASSUME = [
    "tie to the code: every leg of the traced real runs must be accepted by leg_ok inside Coq and the model's state "
    "after each commit must equal the real global state (after_ok); a model-independent oracle (exact rationals) "
    "states C07 directly on the recorded states",
    "rounding bound of one time-slice: relative 2^-50 of |v|*max(1,|dt|) + max(|x|, L) (slice_tol)",
]


def encoders():
    # check_kcase_and_hocase = check_kcase && check_hocase: the kinematics replay and, per leg, the LOCAL hand-over
    # contract from which Props/C07chain.v derives the chain condition (one parse of the case term for both)
    return [("c07_kin", hist.KIN_HEADER + "\nRequire Import JF.Model.Handover JF.Model.HandoverCases.",
             "check_kcase_and_hocase", "kcase", lambda tr, n: hist.encode_kcase(tr, n))]


def creator_batches(ctx):
    """many randomly generated initial molecules (no event is run: max_legs = 0): molecules placed across the periodic
    boundary are rare (1-2 %), and every point mass has to be folded back into the box"""
    n = ctx.n(300, 2000)
    base = "config_files/2018_JCP_149_064113/"
    return [([(base + "dipoles/dipole_motion.ini", {"RandomInputHandler": {"number_of_root_nodes": n}}),
              (base + "water/single_molecule.ini", {"RandomInputHandler": {"number_of_root_nodes": n}}),
              ("config_files/hard_disk_dipoles/single_hard_disk_dipole.ini",
               {"RandomInputHandler": {"number_of_root_nodes": min(n, 40)}})], 0, (ctx.seed, ctx.seed + 1))]


# ------------------------------------------------------------------------------------------------------------------
# handler level: the end-of-chain event handlers against Model/EndOfChain.v (bit for bit) and a direct oracle
def _f2b(x):
    import struct
    return struct.unpack("<Q", struct.pack("<d", float(x)))[0]


def _b2f(b):
    import struct
    return struct.unpack("<d", struct.pack("<Q", int(b)))[0]


def _norm_time(q, r):
    import math
    f = math.floor(r)
    return [_f2b(q + f), _f2b(r - f)]


def eoc_cases(ctx, n):
    import math
    rng = ctx.rng
    cases = []
    for _ in range(n):
        seq = rng.random() < 0.35
        dim = 2 if seq else rng.choice([1, 2, 3, 3])
        L = rng.choice([1.0, 2.5, 7.3, 0.8, 17.0])
        chain = rng.choice([0.78965, 0.5, 1.0, 3.7, rng.uniform(0.05, 6.0), 1.0 / 3.0])
        q = float(rng.choice([0, 1, 7, 123, 10 ** 6, 2 ** 40, rng.randrange(0, 5000)]))
        r = rng.choice([0.0, 0.5, rng.random(), rng.random(), 1.0 - 2.0 ** -53])
        last = [_f2b(q), _f2b(r)]
        u = rng.random()
        malformed = None
        if u < 0.55:
            cur = list(last)
        elif u < 0.9:
            cur = _norm_time(q, r + rng.choice([rng.uniform(0.0, chain), chain * 0.999, 2.0 ** -40]))
        elif u < 0.95:
            cur = _norm_time(q, r + chain * rng.choice([1.5, 1.0001, 7.0]))
            malformed = "behind"
        else:
            cur = _norm_time(q, r - rng.choice([1e-9, 0.25, 3.0]))
            malformed = "before"
        speed = rng.choice([1.0, 1.0, -1.0, 2.0, rng.uniform(0.1, 3.0), 1e-14, 5e-14, 1.0e-13, 2e-13])
        if seq:
            phi = rng.uniform(0, 2 * math.pi)
            vel = rng.choice([[speed, 0.0], [0.0, speed], [speed * math.cos(phi), speed * math.sin(phi)]])
        else:
            vel = [0.0] * dim
            vel[rng.randrange(dim)] = speed
            if rng.random() < 0.04 and dim > 1:
                vel = [speed] * dim
                malformed = "two directions"
            elif rng.random() < 0.03:
                vel = [-0.0 if rng.random() < 0.5 else 0.0] * dim
                vel[rng.randrange(dim)] = speed        # negative zeros are zeros
        per_root = rng.choice([2, 3])
        kind = rng.choice(["single", "root", "leaf", "leaf", "root"])
        same = rng.random() < 0.3

        def pos():
            return [_f2b(rng.uniform(0, L) if rng.random() < 0.9 else 0.0) for _ in range(dim)]

        def earlier(t):
            if rng.random() < 0.5:
                return list(t)
            tr = _b2f(t[1])
            return [t[0], _f2b(tr * rng.random())]

        def unit(ident, v, ts, w=1.0):
            return {"id": ident, "pos": pos(), "vel": None if v is None else [_f2b(x) for x in v],
                    "ts": ts, "w": _f2b(w), "children": []}

        i = rng.randrange(5)
        j = i if same else (i + 1 + rng.randrange(4)) % 5
        if kind == "single":
            old = unit([i], vel, cur)
            new = dict(old, children=[]) if j == i else unit([j], None, None)
        elif kind == "root":
            w = 1.0 / per_root
            old = unit([i], vel, cur)
            old["children"] = [unit([i, a], vel, earlier(cur), w) for a in range(per_root)]
            if j == i:
                new = dict(old, children=[dict(ch) for ch in old["children"]])
            else:
                new = unit([j], None, None)
                new["children"] = [unit([j, a], None, None, w) for a in range(per_root)]
        else:
            w = 1.0 / per_root
            a = rng.randrange(per_root)
            b = a if rng.random() < 0.3 else (a + 1) % per_root
            old = unit([i], [x * w for x in vel], cur)
            old["children"] = [unit([i, a], vel, earlier(cur), w)]
            if j == i:
                new = dict(old, children=[dict(old["children"][0]) if b == a else unit([i, b], None, None, w)])
            else:
                new = unit([j], None, None)
                new["children"] = [unit([j, b], None, None, w)]
        if rng.random() < 0.03:
            # the unit that should become active already moves: the handler has to refuse
            tgt = new["children"][0] if new["children"] else new
            if tgt["vel"] is None:
                tgt["vel"] = [_f2b(x) for x in vel]
                tgt["ts"] = list(cur)
                malformed = "target moves"
        cases.append({"dim": dim, "L": _f2b(L), "chain": _f2b(chain), "delta_phi": _f2b(rng.choice([10.0, 45.0, 33.3, 90.0, 271.0])) if seq else None,
                      "last": last, "levels": 1 if kind == "single" else 2, "per_root": per_root, "old": old, "new": new,
                      "kind": kind + ("/seq" if seq else "/per") + ("/same" if j == i else "/other"),
                      "malformed": malformed})
    return cases


def _flat_eb(branch, parent, acc):
    k = len(acc)
    acc.append((branch, parent))
    for ch in branch.get("children", []):
        _flat_eb(ch, k, acc)
    return acc


def _eb(u, parent, w=None):
    zl = lambda l: C.coq_list(["%d%%Z" % x for x in l])
    return "(mkEB %s %s %s %s %s %d%%Z)" % (
        zl(u["id"]), zl(u["pos"]), "None" if u["vel"] is None else "(Some %s)" % zl(u["vel"]),
        "None" if u["ts"] is None else "(Some (%d%%Z, %d%%Z))" % tuple(u["ts"]),
        "None" if parent is None else "(Some %d%%nat)" % parent, u.get("w", _f2b(1.0)) if w is None else w)


def eoc_oracle(c, o):
    """C07 in its own terms on the real out-state (exact rationals): None or a message"""
    from fractions import Fraction as Fr
    if o.get("T") is None or o.get("out") is None:
        return None
    fr = lambda b: Fr(_b2f(b))
    T = fr(o["T"][0]) + fr(o["T"][1])
    last = fr(c["last"][0]) + fr(c["last"][1])
    chain = fr(c["chain"])
    if abs(T - (last + chain)) > max(Fr(1), chain) / 2 ** 49:
        return "end of chain not at last committed event time + chain time (off by %.3e)" % float(T - last - chain)
    if o["last_after"] != o["T"]:
        return "the handler's last committed event time after the event is not the event time"
    ids_old = [tuple(u["id"]) for u, _ in _flat_eb(c["old"], None, []) if not u["children"]]
    new_leaves = [tuple(u["id"]) for u, _ in _flat_eb(c["new"], None, []) if not u["children"]]
    v_old = [fr(x) for x in (c["old"]["children"][0] if c["old"]["children"] else c["old"])["vel"]]
    sp_old = sum(x * x for x in v_old)
    leaves_out = [u for u in o["out"] if len(u["id"]) == (1 if c["levels"] == 1 else 2)]
    moving = [u for u in leaves_out if u["vel"] is not None]
    if sp_old < Fr(1, 10 ** 25):
        return None
    if sorted(set(tuple(u["id"]) for u in moving)) != sorted(set(new_leaves)):
        return "moving point masses after the event %r are not the point masses of the new active unit %r" % (
            sorted(set(tuple(u["id"]) for u in moving)), sorted(set(new_leaves)))
    for u in moving:
        if u["vel"] != moving[0]["vel"]:
            return "moving point masses do not share one velocity"
        if u["ts"] != o["T"]:
            return "a moving point mass is not stamped with the event time"
    sp_new = sum(fr(x) ** 2 for x in moving[0]["vel"])
    if c["delta_phi"] is None:
        if sp_new != sp_old or sum(1 for x in moving[0]["vel"] if fr(x) != 0) != 1:
            return "speed changed at the end of a chain (periodic direction)"
        d_old = [k for k, x in enumerate(v_old) if x != 0][0]
        d_new = [k for k, x in enumerate(moving[0]["vel"]) if fr(x) != 0][0]
        if d_new != (d_old + 1) % c["dim"]:
            return "direction of motion %d follows %d in %d dimensions" % (d_new, d_old, c["dim"])
    elif abs(sp_new - sp_old) > sp_old / 2 ** 48:
        return "speed changed at the end of a chain beyond rounding (sequential direction)"
    for u in leaves_out:
        if u["vel"] is None and u["ts"] is not None:
            return "a point mass at rest keeps a time stamp"
    # continuity: every unit of the old branch sits at its time-sliced position
    L = fr(c["L"])
    before = {}
    for u, _ in _flat_eb(c["old"], None, []) + _flat_eb(c["new"], None, []):
        before.setdefault(tuple(u["id"]), u)
    for u in o["out"]:
        b = before[tuple(u["id"])]
        for d in range(c["dim"]):
            y = fr(b["pos"][d])
            if b["vel"] is not None:
                t0 = fr(b["ts"][0]) + fr(b["ts"][1])
                y += fr(b["vel"][d]) * (T - t0)
                tol = (abs(fr(b["vel"][d])) * max(Fr(1), abs(T - t0)) + max(abs(y), L)) / 2 ** 49
            else:
                tol = 0
            dist = (fr(u["pos"][d]) - y) % L
            if min(dist, L - dist) > tol:
                return "unit %r jumped at the end of a chain (off by %.3e)" % (u["id"], float(min(dist, L - dist)))
    return None


def handler_level(ctx, cases=None):
    cases = cases if cases is not None else eoc_cases(ctx, ctx.n(1500, 12000))
    chunks = [cases[i:i + 250] for i in range(0, len(cases), 250)]
    outs = []
    for o in C.run_driver_parallel(ctx, "c07_eoc", [{"cases": ch} for ch in chunks]):
        outs += o["out"]
    fails, terms, kinds, raised = [], [], {}, {"send_event_time": 0, "send_out_state": 0}
    for c, o in zip(cases, outs):
        kinds[c["kind"]] = kinds.get(c["kind"], 0) + 1
        if "exc" in o:
            fails.append((c, "driver could not set the case up: %s %s" % (o["exc"], o["msg"])))
            continue
        if o["T"] is None:
            raised["send_event_time"] += 1
        elif o["out"] is None:
            raised["send_out_state"] += 1
        if c["malformed"] is None and (o["T"] is None or o["out"] is None):
            fails.append((c, "the handler raised on a well-formed end of chain: %s" % (o.get("exc_T") or o.get("exc_out"))))
            continue
        m = eoc_oracle(c, o)
        if m:
            fails.append((c, m))
        old = C.coq_list([_eb(u, p) for u, p in _flat_eb(c["old"], None, [])])
        new = C.coq_list([_eb(u, p) for u, p in _flat_eb(c["new"], None, [])])
        if o.get("out") is not None:
            # parents / weights are not compared: positional encoding only
            ro = "(Some %s)" % C.coq_list([_eb(u, None, _f2b(1.0)) for u in o["out"]])
        else:
            ro = "None"
        kind = "None" if c["delta_phi"] is None else "(Some (%d%%Z, %d%%Z))" % tuple(o["cs"])
        la = o.get("last_after", [0, 0])
        terms.append("mkEC %d%%Z %d%%nat %s %d%%Z (%d%%Z, %d%%Z) %s %s %s %s (%d%%Z, %d%%Z)" % (
            c["L"], c["dim"], kind, c["chain"], c["last"][0], c["last"][1], old, new,
            "None" if o["T"] is None else "(Some (%d%%Z, %d%%Z))" % tuple(o["T"]), ro, la[0], la[1]))
    bad, err, neval = [], "", 0
    if terms:
        neval, bad, nf, nok, err = C.eval_cases(
            ctx, "c07_eoc", "Require Import JF.Base.F64 JF.Model.EndOfChain JF.Model.EndOfChainCases.\n"
            "From Coq Require Import ZArith.", terms, "check_eoccase", "eoccase", per_file=150)
    if fails:
        c, m = fails[0]
        C.violation(ctx, "eoc-handler", {"kind": "c07-eoc", "case": c, "message": m, "n_failing": len(fails)},
                    "C07 fails on the implementation (end-of-chain handler): " + m)
    elif bad or err:
        good = [c for c in cases]
        C.violation(ctx, "eoc-correspondence",
                    {"kind": "c07-eoc", "case": good[bad[0]] if bad else None,
                     "message": "the real end-of-chain handler differs from Model/EndOfChain.v in %d cases; the "
                                "correspondence JF.Model.EndOfChainCases.check_eoccase no longer checks. %s"
                                % (len(bad), err[-300:])},
                    "end-of-chain model and handler disagree", nofail=True)
    ctx.notes.append("end-of-chain handler level: %d constructed cases %r; handler raised (malformed stream): %r; "
                     "%d oracle failures, %d cases evaluated in Coq, %d bit-level mismatches with Model/EndOfChain.v"
                     % (len(cases), kinds, raised, len(fails), neval, len(bad)))
    if neval != len(terms) and not err:
        C.violation(ctx, "eoc-correspondence", {"kind": "c07-eoc", "message": "only %d of %d end-of-chain cases were "
                    "evaluated in Coq" % (neval, len(terms))}, "end-of-chain case files incomplete", nofail=True)


def run(ctx, replay_jobs=None, eoc_override=None):
    C.build_scratch(ctx, exts=("heap", "mic", "ipc"))
    if replay_jobs is None:
        handler_level(ctx, cases=eoc_override)
    hist.run_history_check(
        ctx, "C07", ("C07",), encoders(), TRUSTED, ASSUME,
        "Props/C07.v re-checked; every traced run replayed through Model/Kinematics.v in Coq (leg_ok: candidates in "
        "the future, pick is a minimum of the pending events, out-state contract, coverage of the moving chain, "
        "model state == real state); oracle: times never decrease, per-unit continuity within the rounding bound, "
        "inactive units do not move, one chain with conserved speed, positions in the box, identities/charges fixed",
        replay_jobs=replay_jobs, extra_batches=() if replay_jobs else creator_batches(ctx), prebuilt=True)


def replay(ctx, path):
    import json
    data = json.load(open(path))
    if data.get("kind") == "c07-eoc":
        # the failing end-of-chain case first, then the ordinary check (which writes the verdict and the evidence)
        run(ctx, eoc_override=[data["case"]] if data.get("case") else None)
        return
    run(ctx, replay_jobs=hist.replay_payloads(path))
