"""C02 — candidate event distance inverts the cumulative uphill energy (DESIGN.md section 5, C02).

Also hosts the machinery shared with C03 (harness/c03.py imports it):
  * float mirror of coq/Model/PotentialsR.v (only to find the branch taken, to estimate the condition
    number of a case by perturbation, and to stratify the generator; it never decides pass/fail),
  * writer/compiler of the kernel-checked numerical correspondence (one Lemma per case, proved with Coq-Interval),
  * generators stratified over the case tree.
"""
import json
import math
import os
import re
import time
from concurrent.futures import ThreadPoolExecutor
from fractions import Fraction as Fr

import common as C
from common import f2b, b2f

INF = math.inf
HEADER = ("From Coq Require Import Reals Lra.\nFrom Interval Require Import Tactic.\n"
          "Require Import JF.Model.PotentialsR JF.Model.PotentialsRCases JF.Model.CoulombBoundR.\n"
          "Open Scope R_scope.\n")
REL = 2.0 ** -40
NEAR = 2.0 ** -30


# ------------------------------------------------------------------------------------------------
# exact rationals -> Coq R terms
def rq(x):
    fr = x if isinstance(x, Fr) else Fr(x)
    n, d = fr.numerator, fr.denominator
    if d == 1:
        return "(%d)" % n
    return "(%d / %d)" % (n, d)


def vec3(v):
    v = list(v) + [0.0] * (3 - len(v))
    return "(%s, %s, %s)" % tuple(rq(t) for t in v)


def xq(sep, d):
    """component along the motion and exact squared transverse distance"""
    x = sep[d]
    q = sum((Fr(t) * Fr(t) for i, t in enumerate(sep) if i != d), Fr(0))
    return x, q


# ------------------------------------------------------------------------------------------------
# float mirror of the model with perturbation hook
class Ar:
    def __init__(self, rng=None, eps=0.0):
        self.rng = rng
        self.eps = eps
        self.margins = []
        self.path = []
        self.extra = 0.0          # first-order error bound propagated through square roots of differences
        self.force_near = False   # a radicand is within its rounding error of zero: branch undecidable in floats
        self.out_scale = 1.0      # factor between the square root and the reported value (1/speed, 1/v.v)

    def P(self, v):
        if self.eps and math.isfinite(v):
            return v * (1.0 + self.eps * (2.0 * self.rng.random() - 1.0))
        return v

    def lt(self, a, b, tag):
        m = abs(a - b) / max(abs(a), abs(b), 1e-300)
        self.margins.append(m)
        r = a < b
        self.path.append(tag + ("T" if r else "F"))
        return r

    def le(self, a, b, tag):
        m = abs(a - b) / max(abs(a), abs(b), 1e-300)
        self.margins.append(m)
        r = a <= b
        self.path.append(tag + ("T" if r else "F"))
        return r


class Domain(Exception):
    pass


def msqrt(A, v):
    if v < 0:
        raise Domain("sqrt of negative")
    return A.P(math.sqrt(v))


def msqrt_diff(A, v, scale):
    """square root of a difference whose terms have magnitude `scale`: the difference carries an absolute rounding
    error of about REL * scale (at the 2^-40 level used for tolerances); through the square root this becomes
    REL * scale / (2 sqrt v), unbounded as v -> 0 (grazing contact, tangent path).  Within that error of zero the sign
    of v, i.e. the branch, is undecidable in floats: near-boundary."""
    if not A.eps:
        tolv = REL * abs(scale)
        if abs(v) <= 4.0 * tolv:
            A.force_near = True
        elif v > 0:
            A.extra = max(A.extra, abs(A.out_scale) * tolv / (2.0 * math.sqrt(v)))
    return msqrt(A, v)


def mpow(A, b, e):
    if b < 0 or (b == 0 and e <= 0):
        raise Domain("power of non-positive base")
    return A.P(b ** e)


def m_ip_pot(A, p, pref, c, r2):
    return A.P(c * pref / mpow(A, r2, p / 2))


def m_ip_disp(A, p, pref, c1, c2, dE, x, q):
    c = c1 * c2
    if pref * c > 0:
        A.path.append("rep")
        if x <= 0:
            A.path.append("front")
            return INF
        Umax = m_ip_pot(A, p, pref, c, q)
        U0 = m_ip_pot(A, p, pref, c, q + x * x)
        if A.lt(dE, A.P(Umax - U0), "climb"):
            n2 = mpow(A, c * pref / A.P(U0 + dE), 2 / p)
            return x - msqrt_diff(A, A.P(n2 - q), n2 + q)
        return INF
    A.path.append("att")
    d0, x1 = (x, 0.0) if x > 0 else (0.0, x)
    A.path.append("behind" if x > 0 else "front")
    U0 = m_ip_pot(A, p, pref, c, q + x1 * x1)
    if A.le(0.0, A.P(U0 + dE), "escape"):
        return INF
    n2 = mpow(A, c * pref / A.P(U0 + dE), 2 / p)
    return d0 + x1 + msqrt_diff(A, A.P(n2 - q), n2 + q)


def m_ip_der(A, p, pref, c1, c2, x, q):
    return p * x / mpow(A, msqrt(A, q + x * x), p + 2) * pref * c1 * c2


class MH:
    """float mirror of mexhat records"""

    def __init__(self, kind, k, a, p=None):
        self.kind, self.k, self.a, self.p = kind, k, a, p
        if kind == "lj":
            self.r0 = a * 2.0 ** (1 / 6)
        else:
            self.r0 = a
        self.r0sq = self.r0 * self.r0

    def pot(self, A, r2):
        if self.kind == "lj":
            return A.P(m_ip_pot(A, 6, -self.k * self.a ** 6, 1.0, r2) + m_ip_pot(A, 12, self.k * self.a ** 12, 1.0, r2))
        return A.P(self.k * A.P(msqrt(A, r2) - self.r0) ** self.p)

    def U(self, r):
        return self.pot(Ar(), r * r)

    def dU(self, r):
        if self.kind == "lj":
            return self.k * (-12 * self.a ** 12 / r ** 13 + 6 * self.a ** 6 / r ** 7)
        return self.k * self.p * (r - self.r0) ** (self.p - 1)

    def inv_in(self, A, U):
        if self.kind == "lj":
            t = A.P((1 + msqrt(A, A.P(1 + 4 * U / self.k))) / 2)
            return self.a / mpow(A, t, 1 / 6)
        return self.r0 - mpow(A, U / self.k, 1.0 / self.p)

    def inv_out(self, A, U):
        if self.kind == "lj":
            if A.le(0.0, U, "ljinf"):
                return INF
            t = A.P((1 - msqrt(A, A.P(1 + 4 * U / self.k))) / 2)
            return self.a / mpow(A, t, 1 / 6)
        return self.r0 + mpow(A, U / self.k, 1.0 / self.p)


def m_mh_fo(A, m, U0, dE, x, q):
    A.path.append("FO")
    rn = m.inv_out(A, A.P(U0 + dE))
    if rn == INF:
        return INF
    return x + msqrt_diff(A, A.P(rn * rn - q), rn * rn + q)


def m_mh_fi(A, m, dE, x, q):
    A.path.append("FI")
    d = x + msqrt_diff(A, A.P(m.r0sq - q), m.r0sq + q)
    x1 = x - d
    U1 = m.pot(A, q + x1 * x1)
    return d + m_mh_fo(A, m, U1, dE, x1, q)


def m_mh_bi(A, m, U0, dE, x, q):
    A.path.append("BI")
    Umax = m.pot(A, q)
    diff = A.P(Umax - U0)
    if A.lt(dE, diff, "inner"):
        rn = m.inv_in(A, A.P(U0 + dE))
        return x - msqrt_diff(A, A.P(rn * rn - q), rn * rn + q)
    return x + m_mh_fi(A, m, A.P(dE - diff), 0.0, q)


def m_mh_bo(A, m, dE, x, q):
    A.path.append("BO")
    if A.le(0.0, m.r0sq - q, "enters"):
        d = x - msqrt_diff(A, m.r0sq - q, m.r0sq + q)
        x1 = x - d
        U1 = m.pot(A, q + x1 * x1)
        return d + m_mh_bi(A, m, U1, dE, x1, q)
    U1 = m.pot(A, q)
    return x + m_mh_fo(A, m, U1, dE, 0.0, q)


def m_mh_disp(A, m, dE, x, q):
    if A.le(m.r0, math.sqrt(q + x * x), "outside"):
        if x <= 0:
            return m_mh_fo(A, m, m.pot(A, q + x * x), dE, x, q)
        return m_mh_bo(A, m, dE, x, q)
    if x <= 0:
        return m_mh_fi(A, m, dE, x, q)
    return m_mh_bi(A, m, m.pot(A, q + x * x), dE, x, q)


def m_mh_der(A, m, x, q):
    r = msqrt(A, q + x * x)
    if m.kind == "lj":
        return A.P(m_ip_der(A, 6, -m.k * m.a ** 6, 1.0, 1.0, x, q) + m_ip_der(A, 12, m.k * m.a ** 12, 1.0, 1.0, x, q))
    return -m.p * m.k * A.P(r - m.r0) ** (m.p - 1) * x / r


def m_hs(A, d2, v, s):
    vv = A.P(sum(t * t for t in v))
    ss = A.P(sum(t * t for t in s))
    vs = A.P(sum(a * b for a, b in zip(v, s)))
    d2 = A.P(d2)
    D = A.P(A.P(vs * vs) - A.P(vv * A.P(ss - d2)))
    scale = vs * vs + vv * (ss + d2)
    A.out_scale = 1.0 / vv
    if not A.eps and abs(D) <= 4.0 * REL * scale:
        A.force_near = True          # grazing: hit or miss undecidable
    okD = A.le(0.0, D, "disc")
    okv = A.le(0.0, vs, "approach")
    if okD and okv:
        return A.P(vs - msqrt_diff(A, D, scale)) / vv
    return INF


def m_hd(A, mn2, mx2, v, s):
    vv = A.P(sum(t * t for t in v))
    ss = A.P(sum(t * t for t in s))
    vs = A.P(sum(a * b for a, b in zip(v, s)))
    mn2, mx2 = A.P(mn2), A.P(mx2)
    A.out_scale = 1.0 / vv
    if A.le(0.0, vs, "approach"):
        Dmin = A.P(A.P(vs * vs) - A.P(vv * A.P(ss - mn2)))
        scale = vs * vs + vv * (ss + mn2)
        if not A.eps and abs(Dmin) <= 4.0 * REL * scale:
            A.force_near = True      # grazing the inner sphere
        if A.le(0.0, Dmin, "hitsinner"):
            return A.P(vs - msqrt_diff(A, Dmin, scale)) / vv
    Dmax = A.P(A.P(vs * vs) - A.P(vv * A.P(ss - mx2)))
    return A.P(vs + msqrt_diff(A, Dmax, vs * vs + vv * (ss + mx2))) / vv


def m_ipc_disp(A, kc, dE, x, q, L):
    """mirror of CoulombBoundR.ipc_displacement (C code); returns value and number of laps"""
    h = L / 2
    pot = lambda xx: A.P(kc / msqrt(A, xx * xx + q))  # noqa: E731
    U0, Uz, Uh = pot(x), pot(0.0), pot(h)
    pcl = abs(Uz - Uh)
    laps = math.floor(dE / pcl)
    A.margins.append(min(dE / pcl - laps, laps + 1 - dE / pcl) / max(1.0, laps))
    A.path.append("laps%d" % min(laps, 3))
    disp = laps * L
    dE = A.P(dE - laps * pcl)
    if kc > 0:
        A.path.append("rep")
        if x <= 0:
            A.path.append("front")
            disp += h + x
            x, U0 = h, Uh
        else:
            if A.le(A.P(Uz - U0), dE, "over"):
                dE = A.P(dE - (Uz - U0))
                disp += x + h
                x, U0 = h, Uh
        nn = kc / A.P(U0 + dE)
        return disp + (x - msqrt_diff(A, A.P(nn * nn - q), nn * nn + q)), laps
    A.path.append("att")
    if x > 0:
        A.path.append("behind")
        disp += x
        x, U0 = 0.0, Uz
    else:
        if A.le(A.P(Uh - U0), dE, "over"):
            dE = A.P(dE - (Uh - U0))
            disp += x + L
            x, U0 = 0.0, Uz
    nn = kc / A.P(U0 + dE)
    return disp + (x + msqrt_diff(A, A.P(nn * nn - q), nn * nn + q)), laps


def evaluate(fn, rng, nrep=6):
    """run the mirror unperturbed and perturbed -> dict(value, path, margin, tol, cond, near)"""
    A0 = Ar()
    try:
        v0 = fn(A0)
    except (Domain, ZeroDivisionError, OverflowError, ValueError):
        return None
    aux = None
    if isinstance(v0, tuple):
        v0, aux = v0
    spread = 0.0
    near = (bool(A0.margins) and min(A0.margins) < NEAR) or A0.force_near
    for _ in range(nrep):
        A = Ar(rng, REL)
        try:
            v = fn(A)
            if isinstance(v, tuple):
                v = v[0]
        except (Domain, ZeroDivisionError, OverflowError, ValueError):
            near = True
            continue
        if A.path != A0.path or (v == INF) != (v0 == INF):
            near = True
            continue
        if v0 != INF:
            spread = max(spread, abs(v - v0))
    if v0 == INF:
        tol = 0.0
        cond = 1.0
    else:
        base = REL * abs(v0)
        tol = max(base, 4.0 * spread, 4.0 * A0.extra, 1e-300)
        cond = tol / base if base > 0 else INF
    return {"value": v0, "path": "/".join(A0.path), "margin": min(A0.margins) if A0.margins else 1.0,
            "tol": tol, "cond": cond, "near": near, "aux": aux, "sqrt_boundary": A0.force_near}


# ------------------------------------------------------------------------------------------------
# case files: one Lemma per case, proved by Coq-Interval; the file compiles iff all its cases hold
class Case:
    def __init__(self, stmt, tactic, info):
        self.stmt, self.tactic, self.info = stmt, tactic, info


def write_strict(path, cases, idx0):
    with open(path, "w") as f:
        f.write(HEADER)
        for i, c in enumerate(cases):
            f.write("(* case %d: %s *)\nLemma case_%d : %s.\nProof. %s. Qed.\n" % (
                idx0 + i, json.dumps(c.info, default=str)[:400].replace("*)", "* )"), idx0 + i, c.stmt, c.tactic))


def write_diag(path, cases, idx0):
    with open(path, "w") as f:
        f.write(HEADER)
        for i, c in enumerate(cases):
            f.write('Goal True. first [ assert (%s) by (timeout 120 (%s)); idtac "CASEOK %d" | idtac "CASEFAIL %d" ]. '
                    'exact I. Qed.\n' % (c.stmt, c.tactic, idx0 + i, idx0 + i))


def prove_cases(ctx, name, cases, per_file=60):
    """Returns (n_proved, failing indices, n_files, n_files_ok, error text)."""
    os.makedirs(ctx.gen, exist_ok=True)
    files = []
    for k in range(0, len(cases), per_file):
        fn = os.path.join(ctx.gen, "cases_%s_%04d.v" % (name, k // per_file))
        write_strict(fn, cases[k:k + per_file], k)
        files.append((k, fn))
    ctx.obligations += len(files)
    ctx.checker_cmds.append("coqc -Q coq JF <gen>/cases_%s_*.v   (%d files, one Lemma per case, interval)"
                            % (name, len(files)))

    def one(item):
        k, fn = item
        t0 = time.time()
        ok, out = C.coqc(fn, ctx.gen, timeout=900)
        ftimes.append((round(time.time() - t0, 1), os.path.basename(fn)))
        if ok:
            return k, True, [], ""
        chunk = cases[k:k + per_file]
        dfn = fn.replace("cases_", "diag_")
        write_diag(dfn, chunk, k)
        ok2, out2 = C.coqc(dfn, ctx.gen, timeout=1800)
        bad = [int(x) for x in re.findall(r"CASEFAIL (\d+)", out2)]
        good = [int(x) for x in re.findall(r"CASEOK (\d+)", out2)]
        err = ""
        if not ok2 or len(bad) + len(good) != len(chunk):
            err = "diagnostic file %s did not evaluate: %s\n%s" % (os.path.basename(dfn), out[-800:], out2[-800:])
            bad = sorted(set(range(k, k + len(chunk))) - set(good))
        if not bad:
            err += "strict file %s failed but every case passed separately: %s" % (os.path.basename(fn), out[-800:])
        return k, False, bad, err

    bad, err, nok = [], "", 0
    ftimes = []
    t_all = time.time()
    with ThreadPoolExecutor(max_workers=C.NCPU) as ex:
        for k, ok, b, e in ex.map(one, files):
            if ok:
                nok += 1
            bad += b
            err += e
    ctx.discharged += nok
    ctx.notes.append("prove_cases %s: %d cases, %d files, wall %.1fs, slowest files %s" % (
        name, len(cases), len(files), time.time() - t_all, sorted(ftimes, reverse=True)[:4]))
    return len(cases) - len(bad), sorted(bad), len(files), nok, err


# ------------------------------------------------------------------------------------------------
# generators (stratified over the case tree).  Every case is a dict with the driver op in "op".
SPEEDS = [1.0, 1.0, 1.0, 0.5, 2.0, 2.7, 0.3]
IP_POWERS = [1.0, 2.0, 6.0, 12.0, 1.5, 3.7, 0.5]
CHARGES = [1.0, -1.0, 0.5, -0.5, 2.0, -2.0, 1.3, -0.7]


def budget(rng, scale, small_ok=True):
    u = rng.random()
    if u < 0.6 or not small_ok:
        return rng.expovariate(1.0) * scale
    return 10.0 ** (-rng.randrange(1, 7)) * scale * (0.5 + rng.random())


def rand_sep(rng, dim, d, x, rho):
    """separation with component x along d and transverse distance about rho"""
    sep = [0.0] * dim
    others = [i for i in range(dim) if i != d]
    if len(others) == 1:
        sep[others[0]] = rho * rng.choice([1, -1])
    else:
        th = rng.uniform(0, 2 * math.pi)
        sep[others[0]] = rho * math.cos(th)
        sep[others[1]] = rho * math.sin(th)
    sep[d] = x
    return sep


def bits(v):
    return [f2b(t) for t in v]


def gen_ip(rng, n, with_dE=True):
    out = []
    for i in range(n):
        p = rng.choice(IP_POWERS)
        pref = rng.choice([1.0, 1.0, -1.0, 0.5, 2.3, -1.7])
        c1, c2 = rng.choice(CHARGES), rng.choice(CHARGES)
        dim = rng.choice([3, 3, 3, 2])
        d = rng.randrange(dim)
        rho = rng.uniform(0.05, 2.0) if rng.random() < 0.8 else 10 ** rng.uniform(-3, 1)
        front = (i % 2 == 0)
        x = -rng.uniform(0.01, 2.5) if front else rng.uniform(0.01, 2.5)
        if rng.random() < 0.1:
            x *= 10 ** rng.uniform(-4, 0)
        sep = rand_sep(rng, dim, d, x, rho)
        xx, q = xq(sep, d)
        kc = pref * c1 * c2
        qf = float(q)
        Ucur = kc / (qf + xx * xx) ** (p / 2)
        Urho = kc / qf ** (p / 2)
        stratum = (i // 2) % 3
        if kc > 0:
            barrier = Urho - Ucur
            if not front and stratum == 0:
                dE = barrier * rng.uniform(0.02, 0.98)
            elif not front and stratum == 1:
                dE = barrier * (1 + rng.expovariate(1.0))
            else:
                dE = budget(rng, abs(Urho))
        else:
            depth = -Urho if not front else -Ucur
            if stratum == 0:
                dE = depth * rng.uniform(0.02, 0.98)
            elif stratum == 1:
                dE = depth * (1 + rng.expovariate(1.0))
            else:
                dE = budget(rng, depth)
        if kc > 0 and not front and rng.random() < 0.06:
            # on purpose within 2^-30 of the branch boundary "can / cannot climb"
            dE = (Urho - Ucur) * (1 + rng.choice([-1, 1]) * 2.0 ** -rng.randrange(31, 45))
        if kc < 0 and rng.random() < 0.06:
            dE = (-Urho if not front else -Ucur) * (1 + rng.choice([-1, 1]) * 2.0 ** -rng.randrange(31, 45))
        if not (dE > 0 and math.isfinite(dE)):
            dE = rng.expovariate(1.0)
        op = {"k": "ip_disp", "p": f2b(p), "p_int": int(p == int(p) and rng.random() < 0.5), "pref": f2b(pref),
              "c1": f2b(c1), "c2": f2b(c2), "sep": bits(sep), "dir": d, "speed": f2b(rng.choice(SPEEDS)),
              "dE": f2b(dE)}
        out.append({"fam": "ip", "op": op})
    return out


def mh_regions(rng, m, i):
    """(x, rho) stratified: 0 front-outside, 1 behind-outside entering the sphere, 2 behind-outside passing by,
    3 front-inside, 4 behind-inside"""
    r0 = m.r0
    reg = i % 5
    if reg in (0, 1):
        rho = r0 * rng.uniform(0.05, 0.98)
        w = math.sqrt(r0 * r0 - rho * rho)
        x = w + r0 * rng.uniform(0.01, 1.5)
        if rng.random() < 0.2:
            rho = r0 * rng.uniform(1.02, 2.0)
            x = r0 * rng.uniform(0.01, 2.0)
        return (-x if reg == 0 else x), rho, reg
    if reg == 2:
        return r0 * rng.uniform(0.01, 2.0), r0 * rng.uniform(1.01, 2.0), reg
    rho = r0 * rng.uniform(0.3, 0.97) if m.kind == "lj" else r0 * rng.uniform(0.05, 0.97)
    w = math.sqrt(r0 * r0 - rho * rho)
    x = w * rng.uniform(0.02, 0.98)
    return (-x if reg == 3 else x), rho, reg


def gen_mh(rng, n, kind):
    out = []
    for i in range(n):
        k = rng.choice([1.0, 1.0, 0.5, 2.0, 3.3])
        if kind == "lj":
            a = rng.choice([1.0, 1.0, 0.8, 1.7, 0.3])
            m = MH("lj", k, a)
        else:
            a = rng.choice([1.0, 1.0, 0.5, 1.5, 0.1])
            p = rng.choice([2, 2, 2, 4, 6])
            m = MH("dep", k, a, p)
        dim = rng.choice([3, 3, 3, 2])
        d = rng.randrange(dim)
        x, rho, reg = mh_regions(rng, m, i)
        sep = rand_sep(rng, dim, d, x, rho)
        xx, q = xq(sep, d)
        qf = float(q)
        r = math.sqrt(qf + xx * xx)
        # energy scales for the budget strata
        try:
            Ucur = m.U(r)
            Urho = m.U(math.sqrt(qf))
            Umin = m.U(m.r0)
        except (Domain, ZeroDivisionError, OverflowError):
            continue
        sub = (i // 5) % 3
        if reg == 4 or (reg == 1 and qf < m.r0sq):
            inner = (Urho - Ucur) if reg == 4 else (Urho - Umin)
            if sub == 0:
                dE = inner * rng.uniform(0.02, 0.98)
            elif sub == 1:
                dE = inner + (budget(rng, 0.25 * k) if kind == "lj" else budget(rng, max(inner, 1e-3)))
            else:
                dE = budget(rng, max(abs(inner), 1e-3))
        else:
            scale = 0.25 * k if kind == "lj" else k * (0.5 * m.r0) ** m.p
            if kind == "lj" and sub == 0:
                # stays finite: final potential below zero
                Ustart = Ucur if (reg == 0) else (Urho if reg == 2 else Umin)
                dE = -Ustart * rng.uniform(0.02, 0.98)
            else:
                dE = budget(rng, scale)
        if rng.random() < 0.05 and qf < m.r0sq:
            # on purpose within 2^-30 of the boundary inside / outside the minimum sphere
            rr = m.r0 * (1 + rng.choice([-1, 1]) * 2.0 ** -rng.randrange(31, 45))
            sep[d] = math.copysign(math.sqrt(max(rr * rr - qf, 0.0)), xx)
            dE = budget(rng, 0.25 * k if kind == "lj" else k * (0.5 * m.r0) ** m.p, small_ok=False)
        if not (dE > 0 and math.isfinite(dE)):
            dE = rng.expovariate(1.0) * 0.1
        op = {"k": kind + "_disp", "k_": f2b(k), "sep": bits(sep), "dir": d, "speed": f2b(rng.choice(SPEEDS)),
              "dE": f2b(dE)}
        if kind == "lj":
            op["sigma"] = f2b(a)
        else:
            op["r0"] = f2b(a)
            op["p"] = m.p
        out.append({"fam": kind, "op": op})
    return out


def rand_unit(rng):
    while True:
        v = [rng.uniform(-1, 1) for _ in range(3)]
        n = math.sqrt(sum(t * t for t in v))
        if 0.1 < n <= 1:
            return [t / n for t in v]


def gen_hs(rng, n, kind="hs"):
    out = []
    for i in range(n):
        radius = rng.choice([0.5, 0.1, 1.0, 0.37])
        if i % 3 == 2:
            # the contact equation is scale invariant: very small and very large spheres (all lengths scale with them)
            radius *= 10.0 ** rng.choice([-10, -8, -7, -5, -3, 3, 6])
        dia = 2 * radius
        if kind == "hd":
            mn = dia
            mx = mn * rng.uniform(1.2, 3.0)
        if rng.random() < 0.5:
            v = [0.0, 0.0, 0.0]
            v[rng.randrange(3)] = rng.choice(SPEEDS)
        else:
            u = rand_unit(rng)
            sp = rng.choice(SPEEDS)
            v = [sp * t for t in u]
        vn = math.sqrt(sum(t * t for t in v))
        e = [t / vn for t in v]
        # impact parameter b and longitudinal coordinate
        stratum = i % 4
        if stratum == 0:      # hits
            b = dia * rng.uniform(0.0, 0.97)
        elif stratum == 1:    # misses
            b = dia * rng.uniform(1.03, 2.5)
        elif stratum == 2:    # grazing
            b = dia * (1 + rng.choice([-1, 1]) * 10 ** rng.uniform(-9, -2))
        else:                 # moving away
            b = dia * rng.uniform(0.0, 2.0)
        perp = rand_unit(rng)
        dp = sum(a * c for a, c in zip(perp, e))
        perp = [a - dp * c for a, c in zip(perp, e)]
        pn = math.sqrt(sum(t * t for t in perp))
        if pn < 1e-3:
            continue
        perp = [t / pn for t in perp]
        if kind == "hs":
            lo = math.sqrt(max(dia * dia - b * b, 0.0))
            lon = lo + dia * rng.uniform(0.001, 3.0)
        else:
            if b >= mx:
                b = mx * rng.uniform(0.0, 0.95)
            lo = math.sqrt(max(mn * mn - b * b, 0.0))
            hi = math.sqrt(max(mx * mx - b * b, 0.0))
            lon = lo + (hi - lo) * rng.uniform(0.01, 0.99)
        if stratum == 3:
            lon = -lon
        sep = [lon * c + b * a for c, a in zip(e, perp)]
        if kind == "hs":
            op = {"k": "hs_disp", "radius": f2b(radius), "vel": bits(v), "sep": bits(sep)}
        else:
            op = {"k": "hd_disp", "mn": f2b(mn), "mx": f2b(mx), "vel": bits(v), "sep": bits(sep)}
        out.append({"fam": kind, "op": op})
    return out


def gen_cb(rng, n):
    out = []
    for _ in range(n):
        up = rng.uniform(0.01, 5.0)
        lo = -rng.uniform(0.0, 5.0) if rng.random() < 0.8 else rng.uniform(0.0, 0.01)
        op = {"k": "cb_disp", "upper": f2b(up), "lower": f2b(lo), "ac": f2b(rng.choice(CHARGES)),
              "tc": f2b(rng.choice(CHARGES)), "dir": rng.randrange(3), "speed": f2b(rng.choice(SPEEDS)),
              "dE": f2b(budget(rng, 1.0))}
        out.append({"fam": "cb", "op": op})
    return out


def gen_ipc(rng, n):
    out = []
    for i in range(n):
        L = rng.choice([1.0, 1.0, 2.0, 3.7, 0.5])
        pref = rng.choice([1.5837, 1.0, 2.5])
        c1, c2 = rng.choice(CHARGES), rng.choice(CHARGES)
        d = rng.randrange(3)
        sep = [rng.uniform(-L / 2, L / 2) for _ in range(3)]
        if rng.random() < 0.15:
            sep[d] *= 10 ** rng.uniform(-5, -1)
        x, q = xq(sep, d)
        qf = float(q)
        kc = pref * c1 * c2
        pcl = abs(kc) * abs(1 / math.sqrt(qf) - 1 / math.sqrt(qf + L * L / 4))
        s = i % 4
        if s == 0:
            dE = pcl * rng.uniform(0.02, 0.98)
        elif s == 1:
            dE = pcl * (rng.randrange(1, 4) + rng.uniform(0.02, 0.98))
        elif s == 2:
            dE = rng.expovariate(1.0)
        else:
            dE = budget(rng, pcl)
        op = {"k": "ipc_disp", "pref": f2b(pref), "c1": f2b(c1), "c2": f2b(c2), "sep": bits(sep), "dir": d,
              "speed": f2b(rng.choice(SPEEDS)), "dE": f2b(dE), "L": f2b(L)}
        out.append({"fam": "ipc", "op": op})
    return out


LAP_TARGETS = [1, 10, 10 ** 3, 10 ** 6, 2 ** 31 - 1, 2 ** 31, 2 ** 31 + 5, 10 ** 12]


def gen_ipc_laps(rng, per_target):
    """stratum "many laps" of the C 1/r bounding potential: the budget is (n + fraction) times the uphill energy of
    one box traversal, n in LAP_TARGETS, reached through tiny charge products (budget of order one) or through large
    budgets (ordinary charges), several box lengths, both signs of the charge product"""
    out = []
    for n in LAP_TARGETS:
        for j in range(per_target):
            L = rng.choice([1.0, 2.0, 3.7, 0.5, 10.0])
            pref = rng.choice([1.5837, 1.0, 2.5])
            d = rng.randrange(3)
            sep = [rng.uniform(-L / 2, L / 2) for _ in range(3)]
            x, q = xq(sep, d)
            qf = float(q)
            geom = abs(1 / math.sqrt(qf) - 1 / math.sqrt(qf + L * L / 4))
            frac = rng.uniform(0.05, 0.95)
            c2 = rng.choice(CHARGES)
            if j % 2 == 0 and n >= 1000:
                # weakly charged pair, ordinary budget
                dE = 0.1 + rng.expovariate(1.0)
                c1 = rng.choice([1.0, -1.0]) * dE / ((n + frac) * geom * pref * abs(c2))
            else:
                c1 = rng.choice(CHARGES)
                dE = abs(pref * c1 * c2) * geom * (n + frac)
            op = {"k": "ipc_disp", "pref": f2b(pref), "c1": f2b(c1), "c2": f2b(c2), "sep": bits(sep), "dir": d,
                  "speed": f2b(rng.choice(SPEEDS)), "dE": f2b(dE), "L": f2b(L)}
            out.append({"fam": "ipc", "op": op, "lap_target": n})
    return out


def gen_ipc_aligned(rng, n):
    """strata "exactly aligned" (both transverse components exactly 0.0: lattice neighbours, head-on approach) and
    "one transverse component exactly zero" of the C 1/r bounding potential, through the Python class: all three
    directions, both signs of the charge product, in front of / behind the target, several box lengths, budgets
    from 1e-3 to 1e3 times the current energy scale"""
    out = []
    for i in range(n):
        L = (1.0, 2.0, 3.7, 0.5, 10.0)[i % 5]
        d = i % 3
        pref = rng.choice([1.5837, 1.0, 2.5])
        c1 = rng.choice([1.0, 0.5, 2.0, 1.3])
        c2 = rng.choice([1.0, 0.5, 2.0, 0.7]) * (1 if (i // 3) % 2 == 0 else -1)
        behind = (i // 6) % 2 == 0
        x = rng.uniform(0.02, 0.5) * L * (1 if behind else -1)
        if rng.random() < 0.1:
            x = math.copysign(L / 2, x)
        sep = [0.0, 0.0, 0.0]
        kind = "aligned" if (i // 12) % 2 == 0 else "onezero"
        if kind == "onezero":
            other = [j for j in range(3) if j != d]
            sep[rng.choice(other)] = rng.uniform(-L / 2, L / 2)
        else:
            for j in range(3):
                sep[j] = rng.choice([0.0, -0.0])
        sep[d] = x
        scale = abs(pref * c1 * c2) / abs(x)
        dE = scale * 10.0 ** rng.uniform(-3, 3)
        op = {"k": "ipc_disp", "pref": f2b(pref), "c1": f2b(c1), "c2": f2b(c2), "sep": bits(sep), "dir": d,
              "speed": f2b(rng.choice(SPEEDS)), "dE": f2b(dE), "L": f2b(L)}
        out.append({"fam": "ipc", "op": op, "stratum": kind})
    return out


def gen_parallel(rng, n_dep, n_other):
    """strata "exactly parallel": the separation is exactly parallel to the direction of motion (all transverse
    components exactly +-0.0 in 2D/3D, and genuinely one-dimensional separations), for the displaced even power
    potential (several powers, r0, k; in front / behind x inside / outside the minimum sphere; budgets below / above
    the inner hill k r0^p - U and generic), and for the inverse power and Lennard-Jones potentials (where the active
    unit is behind the target these evaluate the potential at the zero vector: known finding F3d)"""
    out = []

    def par_sep(dim, d, x):
        sep = [rng.choice([0.0, -0.0]) for _ in range(dim)]
        sep[d] = x
        return sep

    for i in range(n_dep):
        k = rng.choice([1.0, 0.5, 2.0, 3.3])
        r0 = rng.choice([1.0, 0.5, 1.5, 0.1])
        p = (2, 2, 4, 6)[(i // 12) % 4]
        dim = (1, 2, 3)[i % 3]
        d = rng.randrange(dim)
        reg = (i // 3) % 4
        if reg == 0:
            x = -r0 * rng.uniform(1.02, 2.5)
        elif reg == 1:
            x = -r0 * rng.uniform(0.03, 0.97)
        elif reg == 2:
            x = r0 * rng.uniform(0.03, 0.97)
        else:
            x = r0 * rng.uniform(1.02, 2.5)
        hill = k * r0 ** p - (k * (abs(x) - r0) ** p if reg == 2 else 0.0)
        sub = (i // 12) % 3 if reg in (2, 3) else 2
        if sub == 0:
            dE = hill * rng.uniform(0.05, 0.95)
        elif sub == 1:
            dE = hill * (1.0 + rng.choice([rng.uniform(0.01, 1.0), rng.expovariate(0.3)]))
        else:
            dE = budget(rng, k * r0 ** p)
        op = {"k": "dep_disp", "k_": f2b(k), "r0": f2b(r0), "p": p, "sep": bits(par_sep(dim, d, x)), "dir": d,
              "speed": f2b(rng.choice(SPEEDS)), "dE": f2b(dE)}
        out.append({"fam": "dep", "op": op, "stratum": "parallel"})
    for i in range(n_other):
        dim = (1, 2, 3)[i % 3]
        d = rng.randrange(dim)
        behind = (i // 3) % 3 == 2          # one third behind the target (F3d), two thirds in front
        if i % 2 == 0:
            pw = rng.choice(IP_POWERS)
            pref = rng.choice([1.0, -1.0, 2.3])
            c1, c2 = rng.choice(CHARGES), rng.choice(CHARGES)
            x = rng.uniform(0.05, 2.5) * (1 if behind else -1)
            scale = abs(pref * c1 * c2) / abs(x) ** pw
            dE = scale * (rng.uniform(0.02, 0.98) if rng.random() < 0.5 else 1.0 + rng.expovariate(1.0))
            op = {"k": "ip_disp", "p": f2b(pw), "p_int": 0, "pref": f2b(pref), "c1": f2b(c1), "c2": f2b(c2),
                  "sep": bits(par_sep(dim, d, x)), "dir": d, "speed": f2b(rng.choice(SPEEDS)), "dE": f2b(dE)}
            out.append({"fam": "ip", "op": op, "stratum": "parallel"})
        else:
            k = rng.choice([1.0, 0.5, 2.0])
            sg = rng.choice([1.0, 0.8, 1.7])
            r0 = sg * 2 ** (1 / 6)
            inside = (i // 6) % 2 == 0
            x = r0 * (rng.uniform(0.75, 0.97) if inside else rng.uniform(1.02, 2.5)) * (1 if behind else -1)
            dE = 0.25 * k * (rng.uniform(0.02, 0.98) if rng.random() < 0.6 else 1.0 + rng.expovariate(1.0))
            op = {"k": "lj_disp", "k_": f2b(k), "sigma": f2b(sg), "sep": bits(par_sep(dim, d, x)), "dir": d,
                  "speed": f2b(rng.choice(SPEEDS)), "dE": f2b(dE)}
            out.append({"fam": "lj", "op": op, "stratum": "parallel"})
    return out


def gen_ipc_tiny(rng, n):
    """tiny budgets for the C 1/r bounding potential: from denormals up to 2^-40 |U| (U = energy at the closest
    approach), both signs of the charge product, in front of / behind the target, all directions, several box
    lengths.  Float-level totality: searched, not proved (no Coq case)."""
    out = []
    for i in range(n):
        L = (1.0, 2.0, 3.7, 0.5, 10.0, 7.3)[i % 6]
        d = i % 3
        pref = rng.choice([1.5837, 1.0, 2.5, 1.6])
        c1 = rng.choice([1.0, 0.5, 2.0, 1.3])
        c2 = rng.choice([1.0, 0.5, 2.0, 0.7]) * (1 if (i // 3) % 2 == 0 else -1)
        sep = [rng.uniform(-L / 2, L / 2) for _ in range(3)]
        if (i // 6) % 2 == 0:
            sep[d] = abs(sep[d])
        else:
            sep[d] = -abs(sep[d])
        if rng.random() < 0.08:
            sep[d] = rng.choice([0.0, -0.0, 1e-9 * L, -1e-9 * L])
        x, q = xq(sep, d)
        U = abs(pref * c1 * c2) / math.sqrt(float(q))
        u = rng.random()
        if u < 0.45:
            dE = U * 2.0 ** -rng.uniform(40, 80)
        elif u < 0.8:
            dE = U * 2.0 ** -rng.uniform(80, 1000)
        else:
            dE = rng.choice([5e-324, 2.0 ** -1022, 1e-310, 1e-300, 1e-100])
        dE = max(dE, 5e-324)
        op = {"k": "ipc_disp", "pref": f2b(pref), "c1": f2b(c1), "c2": f2b(c2), "sep": bits(sep), "dir": d,
              "speed": f2b(rng.choice(SPEEDS)), "dE": f2b(dE), "L": f2b(L)}
        out.append({"fam": "ipc", "op": op, "tiny": True})
    return out


ZERO_CHARGES = [(1.0, 0.0), (0.0, 1.0), (0.0, 0.0), (-1.0, 0.0), (0.0, -0.0), (-0.0, -1.3), (-0.0, -0.0), (2.0, -0.0)]


def gen_zero_charge(rng, n):
    """stratum "zero charge product" for the invertible potentials that take charges (InversePowerPotential and the C
    1/r bounding potential): the potential vanishes identically, the path never accumulates any budget: the expected
    result is +inf and the derivative exactly +-0"""
    out = []
    for i in range(n):
        fam = ("ip", "ipc")[i % 2]
        c1, c2 = ZERO_CHARGES[(i // 2) % len(ZERO_CHARGES)]
        d = (i // 4) % 3
        L = rng.choice([1.0, 2.0, 3.7, 0.5, 10.0])
        geo = (i // 12) % 3        # 0 generic, 1 exactly aligned, 2 one transverse component zero
        sep = [rng.uniform(-L / 2, L / 2) for _ in range(3)]
        if geo == 1:
            sep = [rng.choice([0.0, -0.0]) for _ in range(3)]
            sep[d] = rng.uniform(0.02, 0.5) * L * rng.choice([1, -1])
        elif geo == 2:
            sep[rng.choice([j for j in range(3) if j != d])] = 0.0
        dE = 10.0 ** rng.uniform(-6, 3)
        op = {"sep": bits(sep), "dir": d, "speed": f2b(rng.choice(SPEEDS)), "dE": f2b(dE), "c1": f2b(c1),
              "c2": f2b(c2)}
        if fam == "ip":
            op.update({"k": "ip_disp", "p": f2b(rng.choice(IP_POWERS)), "p_int": 0,
                       "pref": f2b(rng.choice([1.0, -1.0, 2.3]))})
        else:
            op.update({"k": "ipc_disp", "pref": f2b(rng.choice([1.5837, 1.0, 2.5])), "L": f2b(L)})
        out.append({"fam": fam, "op": op, "zero_charge": True})
    return out


# ------------------------------------------------------------------------------------------------
# case construction: driver op + implementation result -> mirror evaluation + Coq statement
def fl(op, name):
    return b2f(op[name])


def sepv(op, name="sep"):
    return [b2f(b) for b in op[name]]


def mirror_fn(op):
    """function A -> value (space displacement / speed), or None if the op has no displacement model"""
    k = op["k"]
    if k == "ip_disp":
        x, q = xq(sepv(op), op["dir"])
        def f_ip(A):
            A.out_scale = 1.0 / fl(op, "speed")
            return m_ip_disp(A, fl(op, "p"), fl(op, "pref"), fl(op, "c1"), fl(op, "c2"), fl(op, "dE"), x,
                             float(q)) / fl(op, "speed")
        return f_ip
    if k in ("lj_disp", "dep_disp"):
        x, q = xq(sepv(op), op["dir"])
        m = MH("lj", fl(op, "k_"), fl(op, "sigma")) if k == "lj_disp" else MH("dep", fl(op, "k_"), fl(op, "r0"),
                                                                                 int(op["p"]))
        def f_mh(A):
            A.out_scale = 1.0 / fl(op, "speed")
            return m_mh_disp(A, m, fl(op, "dE"), x, float(q)) / fl(op, "speed")
        return f_mh
    if k == "hs_disp":
        r = fl(op, "radius")
        return lambda A: m_hs(A, 4.0 * r * r, sepv(op, "vel"), sepv(op))
    if k == "hd_disp":
        return lambda A: m_hd(A, fl(op, "mn") ** 2, fl(op, "mx") ** 2, sepv(op, "vel"), sepv(op))
    if k == "cb_disp":
        def f(A):
            cf = fl(op, "ac") * fl(op, "tc")
            rate = (fl(op, "upper") if cf > 0 else fl(op, "lower")) * cf
            A.path.append("pos" if cf > 0 else "neg")
            A.path.append("rate+" if rate > 0 else "rate-")
            return (fl(op, "dE") / rate if rate > 0 else INF) / fl(op, "speed")
        return f
    if k == "ipc_disp":
        x, q = xq(sepv(op), op["dir"])
        kc = fl(op, "pref") * fl(op, "c1") * fl(op, "c2")

        def g(A):
            A.out_scale = 1.0 / fl(op, "speed")
            v, laps = m_ipc_disp(A, kc, fl(op, "dE"), x, float(q), fl(op, "L"))
            return v / fl(op, "speed"), laps
        return g
    return None


def model_term(op):
    """Coq term of type option R for the displacement op"""
    k = op["k"]
    if k in ("ip_disp", "lj_disp", "dep_disp", "ipc_disp"):
        x, q = xq(sepv(op), op["dir"])
        sp = rq(fl(op, "speed"))
        if k == "ip_disp":
            inner = "ip_displacement %s %s %s %s %s %s %s" % (rq(fl(op, "p")), rq(fl(op, "pref")), rq(fl(op, "c1")),
                                                              rq(fl(op, "c2")), rq(fl(op, "dE")), rq(x), rq(q))
        elif k == "lj_disp":
            inner = "lj_displacement %s %s %s %s %s" % (rq(fl(op, "k_")), rq(fl(op, "sigma")), rq(fl(op, "dE")), rq(x),
                                                        rq(q))
        elif k == "dep_disp":
            inner = "dep_displacement %s %s %d%%nat %s %s %s" % (rq(fl(op, "k_")), rq(fl(op, "r0")), int(op["p"]),
                                                                rq(fl(op, "dE")), rq(x), rq(q))
        else:
            inner = None
        return "sv_displacement (%s) %s" % (inner, sp)
    if k == "hs_disp":
        r = rq(fl(op, "radius"))
        return "hs_displacement (4 * %s * %s) %s %s" % (r, r, vec3(sepv(op, "vel")), vec3(sepv(op)))
    if k == "hd_disp":
        mn, mx = rq(fl(op, "mn")), rq(fl(op, "mx"))
        return "Some (hd_displacement (%s * %s) (%s * %s) %s %s)" % (mn, mn, mx, mx, vec3(sepv(op, "vel")),
                                                                     vec3(sepv(op)))
    if k == "cb_disp":
        return "sv_displacement (cb_displacement (cb_rate %s %s (%s * %s)) %s) %s" % (
            rq(fl(op, "upper")), rq(fl(op, "lower")), rq(fl(op, "ac")), rq(fl(op, "tc")), rq(fl(op, "dE")),
            rq(fl(op, "speed")))
    raise KeyError(k)


def disp_case(c, res, ev):
    """Coq case for a displacement result (res = float or inf)"""
    op = c["op"]
    info = {"k": op["k"], "path": ev["path"], "cond": "%.3g" % ev["cond"], "tol": "%.3g" % ev["tol"],
            "impl": repr(res)}
    if op["k"] == "ipc_disp":
        x, q = xq(sepv(op), op["dir"])
        kc = Fr(fl(op, "pref")) * Fr(fl(op, "c1")) * Fr(fl(op, "c2"))
        stmt = "close_to (sv_displacement (ipc_displacement_laps %d %s %s %s %s %s) %s) %s %s" % (
            ev["aux"], rq(kc), rq(fl(op, "dE")), rq(x), rq(q), rq(fl(op, "L")), rq(fl(op, "speed")), rq(res),
            rq(Fr(ev["tol"])))
        laps_ok = "ipc_laps_ok %d %s %s %s %s" % (ev["aux"], rq(kc), rq(fl(op, "dE")), rq(q), rq(fl(op, "L")))
        return Case("(%s) /\\ (%s)" % (laps_ok, stmt), "split; [ipc_laps_case | ipc_close_case]", info)
    term = model_term(op)
    if res == INF:
        return Case("%s = None" % term, "none_case", info)
    return Case("close_to (%s) %s %s" % (term, rq(res), rq(Fr(ev["tol"]))), "close_case", info)


def run_ops(ctx, ops, chunk=400):
    chunks = [ops[i:i + chunk] for i in range(0, len(ops), chunk)]
    outs = C.run_driver_parallel(ctx, "c02_potentials", [{"ops": ch} for ch in chunks])
    res = []
    for o in outs:
        res += o["out"]
    return res


# ------------------------------------------------------------------------------------------------
# independent oracle (Python on the implementation; never uses the Coq model)
def energy_ops(c, points):
    """driver ops evaluating the implementation's own energy along the path at the given displacements"""
    op = c["op"]
    fam = c["fam"]
    sep = sepv(op)
    d = op["dir"]
    out = []
    for s in points:
        sp = list(sep)
        sp[d] = sep[d] - s
        o = dict(op)
        o["k"] = fam + "_pot"
        o["sep"] = bits(sp)
        out.append(o)
    return out


def path_points(c, dspace, n=96, far=False):
    """sample points for the positive variation: uniform grid on [0, dspace] plus the break points of the
    specification (closest approach s = x; crossings of the minimum sphere), plus for far=True a geometric tail"""
    op = c["op"]
    sep = sepv(op)
    x, q = xq(sep, op["dir"])
    qf = float(q)
    pts = {0.0}
    brk = [x]
    if c["fam"] in ("lj", "dep"):
        r0 = fl(op, "sigma") * 2 ** (1 / 6) if c["fam"] == "lj" else fl(op, "r0")
        if qf < r0 * r0:
            w = math.sqrt(r0 * r0 - qf)
            brk += [x - w, x + w]
    scale = abs(x) + math.sqrt(qf) + 1.0
    end = dspace
    if far:
        end = max([b for b in brk if b > 0] + [0.0]) + scale
    for i in range(1, n + 1):
        pts.add(end * i / n)
    for b in brk:
        if 0 < b < end:
            pts.add(b)
    if far:
        t = end
        for _ in range(40):
            t *= 2.5
            pts.add(t)
    return sorted(pts)


def posvar(vals):
    return sum(max(0.0, b - a) for a, b in zip(vals, vals[1:]))


def u_scale(c):
    """energy scale of a case: max of |U| and r|U'| at the start, the closest approach and the minimum"""
    op = c["op"]
    x, q = xq(sepv(op), op["dir"])
    qf = float(q)
    rs = [math.sqrt(qf + x * x), math.sqrt(qf)]
    vals = []
    if c["fam"] == "ip":
        p = fl(op, "p")
        kc = fl(op, "pref") * fl(op, "c1") * fl(op, "c2")
        for r in rs:
            if r > 0:
                vals += [abs(kc) / r ** p, p * abs(kc) / r ** p]
    else:
        m = MH("lj", fl(op, "k_"), fl(op, "sigma")) if c["fam"] == "lj" else MH("dep", fl(op, "k_"), fl(op, "r0"),
                                                                                  int(op["p"]))
        for r in rs + [m.r0]:
            if r > 0:
                try:
                    vals += [abs(m.U(r)), r * abs(m.dU(r))]
                except (ZeroDivisionError, OverflowError, Domain):
                    pass
        if c["fam"] == "lj":
            vals.append(0.25 * m.k)
    vals = [v for v in vals if math.isfinite(v)]
    return max(vals) if vals else 1.0


TINY_BUDGET = 2.0 ** -45


def barriers(c):
    """energy barriers on the path (specification side, floats): budgets equal to one of them sit on a branch
    boundary of the case tree"""
    op = c["op"]
    x, q = xq(sepv(op), op["dir"])
    qf = float(q)
    out = []
    try:
        if c["fam"] == "ip":
            p = fl(op, "p")
            kc = fl(op, "pref") * fl(op, "c1") * fl(op, "c2")
            if kc > 0 and x > 0:
                out.append(kc / qf ** (p / 2) - kc / (qf + x * x) ** (p / 2))
            if kc < 0:
                out.append(-kc / (qf + min(x, 0.0) ** 2) ** (p / 2))
        elif c["fam"] in ("lj", "dep"):
            m = MH("lj", fl(op, "k_"), fl(op, "sigma")) if c["fam"] == "lj" else MH("dep", fl(op, "k_"), fl(op, "r0"),
                                                                                      int(op["p"]))
            r = math.sqrt(qf + x * x)
            Ucur, Umin = m.U(r), m.U(m.r0)
            if x > 0 and qf < m.r0sq:
                Urho = m.U(math.sqrt(qf))
                out.append(Urho - (Ucur if r < m.r0 else Umin))
                if c["fam"] == "lj":
                    out.append(Urho - (Ucur if r < m.r0 else Umin) - Umin)
            if c["fam"] == "lj":
                out += [-Ucur, -Umin]
                if x > 0 and qf >= m.r0sq:
                    out.append(-m.U(math.sqrt(qf)))
    except (ZeroDivisionError, OverflowError, Domain):
        pass
    return [b for b in out if math.isfinite(b)]


def classify_failure(c, r):
    """Map an arithmetic failure / negative result to a known finding id (F3a..F3d) or None.
    Match = potential class + exception type + input class (budget below the rounding error of the energies on
    the path, or exactly head-on geometry for F3d)."""
    op = c["op"]
    fam = c["fam"]
    if fam == "ipc":
        # F3f: NaN of the C 1/r bounding routine for a budget below the rounding error of the energy at the closest
        # approach (the radicand new_norm^2 - rho^2 rounds to a negative number)
        x, q = xq(sepv(op), op["dir"])
        if q == 0 or (isinstance(r, list) and r and r[0] == "EXC"):
            return None
        U = abs(fl(op, "pref") * fl(op, "c1") * fl(op, "c2")) / math.sqrt(float(q))
        v = b2f(r[0])
        tiny = 0 < fl(op, "dE") <= TINY_BUDGET * U
        if v != v and tiny:
            return "F3f"
        # same mechanism with |x| << rho: x + sqrt(radicand) with a radicand wrong by its rounding error gives a
        # slightly negative distance (at most about sqrt(rounding error) * rho)
        if tiny and v < 0 and abs(v) * fl(op, "speed") <= 2.0 ** -24 * (abs(x) + math.sqrt(float(q))):
            return "F3f"
        return None
    if fam not in ("ip", "lj", "dep"):
        return None
    x, q = xq(sepv(op), op["dir"])
    us = max(u_scale(c), 1e-300)
    tiny = fl(op, "dE") <= TINY_BUDGET * us
    on_barrier = any(abs(fl(op, "dE") - b) <= TINY_BUDGET * max(us, abs(b)) for b in barriers(c))
    if isinstance(r, list) and r and r[0] == "EXC":
        et, msg = r[1], r[2]
        if on_barrier and not tiny and ((et == "TypeError" and "complex" in msg and fam == "lj") or
                                        (et == "ValueError" and "math domain error" in msg)):
            return "F3e"
        if fam == "lj" and et == "TypeError" and "complex" in msg and tiny:
            return "F3a"
        if fam in ("ip", "lj", "dep") and et == "ValueError" and "math domain error" in msg and tiny:
            if fam == "ip" and fl(op, "pref") * fl(op, "c1") * fl(op, "c2") > 0:
                return None
            return "F3b"
        if fam in ("ip", "lj") and et == "ZeroDivisionError" and q == 0 and x > 0:
            return "F3d"
        return None
    # negative result: cancellation x -/+ sqrt(n2 - q) with an error of the order sqrt(rounding error); only for
    # budgets below the rounding error of the energies and only up to 2^-24 of the length scale
    if tiny and not (isinstance(r, list) and r and r[0] == "EXC"):
        v = b2f(r[0]) * fl(op, "speed")
        if v < 0 and abs(v) <= 2.0 ** -24 * (abs(x) + math.sqrt(float(q))):
            return "F3c"
    return None


# ------------------------------------------------------------------------------------------------
# oracles stated directly on the implementation's outputs
def ipc_energy(kc, x, q, L, s):
    t = math.fmod(x - s + L / 2, L)
    if t < 0:
        t += L
    t -= L / 2
    r = math.sqrt(t * t + q)
    if r == 0.0:
        return math.copysign(INF, kc)     # on top of an image (only for exactly aligned units)
    return kc / r


def sqrt_bounds(fr, digits=45):
    """rational lower / upper bounds of sqrt(fr), fr a non-negative Fraction"""
    a, b = fr.numerator, fr.denominator
    S = 10 ** digits
    t = math.isqrt(a * b * S * S)
    return Fr(t, b * S), Fr(t + 1, b * S)


def ipc_exact_laps(kc, q, L, dE):
    """exact number of whole box traversals floor(dE / |U(0) - U(L/2)|) with Fractions (rigorous sqrt bounds);
    returns (n, per-lap gain as Fraction) or (None, gain) if the bounds do not decide"""
    s0 = sqrt_bounds(q)
    s1 = sqrt_bounds(q + L * L / 4)
    lo = abs(kc) * (1 / s0[1] - 1 / s1[0])
    hi = abs(kc) * (1 / s0[0] - 1 / s1[1])
    n_lo, n_hi = math.floor(dE / hi), math.floor(dE / lo)
    return (n_lo if n_lo == n_hi else None), (lo + hi) / 2


def posvar_ext(vals):
    """positive variation of a sampled extended-real sequence (values may be +-inf at an image)"""
    tot = 0.0
    for a, b in zip(vals, vals[1:]):
        if a == b:
            continue
        inc = b - a
        if inc == inc and inc > 0:
            tot += inc
    return tot


def oracle_ipc_aligned(kc, x, L, dE, d, res):
    """the two units exactly aligned along the motion (transverse separation exactly zero): U = kc / |nearest image|
    is +-inf on top of an image, the uphill energy of one box traversal is infinite, so no whole lap is ever
    completed and a finite event distance always exists: repulsive -- before reaching the image in front; attractive
    -- at the latest on top of the next image (the well is infinitely deep).  Bracket E(d-) <= budget <= E(d+)."""
    delta = 16 * math.ulp(max(abs(d), L)) + 1e-9 * L
    if d < -delta:
        return "negative displacement %r for exactly aligned units" % res
    if d > 2 * L + delta:
        return "displacement %r L exceeds two box lengths for exactly aligned units" % (d / L)
    lo, hi = max(d - delta, 0.0), d + delta
    pts = {0.0, lo, hi}
    m = 0
    while x + m * L / 2 <= hi and m < 12:
        if 0 < x + m * L / 2:
            pts.add(x + m * L / 2)
        m += 1
    for j in range(1, 65):
        pts.add(hi * j / 64)
    pts = sorted(pts)
    en = [ipc_energy(kc, x, 0.0, L, s) for s in pts]
    E_lo = posvar_ext(en[:pts.index(lo) + 1])
    E_hi = posvar_ext(en)
    eps = 1e-10 * abs(kc) / L + 1e-9 * dE
    if E_lo > dE * (1 + 1e-9) + eps:
        return "exactly aligned units: uphill energy %.17g already exceeds the budget %.17g before the returned " \
               "distance %r" % (E_lo, dE, res)
    if E_hi < dE * (1 - 1e-9) - eps:
        return "exactly aligned units: uphill energy %.17g at the returned distance %r is below the budget %.17g" % (
            E_hi, res, dE)
    return None


def oracle_ipc(c, res):
    """C 1/r bounding potential with periodic images, stated without the Coq model: the positive variation of the
    nearest-image potential gains exactly g = |U(0) - U(L/2)| per box length, so with n = floor(budget / g) (exact):
    result >= 0, result in [n L, (n + 1) L], and the rest of the budget is inverted on the last lap."""
    op = c["op"]
    x, q = xq(sepv(op), op["dir"])
    kc = Fr(fl(op, "pref")) * Fr(fl(op, "c1")) * Fr(fl(op, "c2"))
    L = Fr(fl(op, "L"))
    dE = Fr(fl(op, "dE"))
    if res == INF or res != res:
        return "1/r bounding displacement returned %r" % res
    d = Fr(res) * Fr(fl(op, "speed"))
    if q == 0:
        return oracle_ipc_aligned(float(kc), x, float(L), float(dE), float(d), res)
    n, g = ipc_exact_laps(kc, q, L, dE)
    if n is None:
        return None
    c["laps_exact"] = n
    ulp_d = Fr(math.ulp(max(abs(float(d)), float(L))))
    delta = 16 * ulp_d + Fr(1, 10 ** 9) * L
    if d < -delta:
        return "negative displacement %r (budget = %.6g box traversals)" % (res, float(dE / g))
    frac = dE / g - n
    if min(frac, 1 - frac) <= Fr(16, 2 ** 53) * (n + 1):
        # budget within rounding of a whole number of traversals: floor(budget / gain) in floats may be off by one,
        # i.e. outside the well-conditioned range of the inversion identity: tolerance of one box length
        c["near_lap_multiple"] = True
        if not ((n - 1) * L - delta <= d <= (n + 2) * L + delta):
            return "displacement %r L is more than one box length away from traversal %d (budget = %.17g " \
                   "traversals)" % (float(d / L), n, float(dE / g))
        return None
    if not (n * L - delta <= d <= (n + 1) * L + delta):
        return "displacement %r L is not within traversal %d..%d of the box (budget = %.9g traversals)" % (
            float(d / L), n, n + 1, float(dE / g))
    # remaining budget on the last lap (the implementation's own fmod loses about n ulp of the per-lap gain)
    e_rem = float(dE - n * g)
    d_rem = float(d - n * L)
    gf, Lf, kcf, qf = float(g), float(L), float(kc), float(q)
    eps = 1e-10 * abs(kcf) / math.sqrt(qf) + 64 * 2.0 ** -53 * (n + 1) * gf + 1e-9 * e_rem
    if eps > 0.02 * gf:
        return None
    dl = float(delta)
    lo, hi = max(d_rem - dl, 0.0), max(d_rem + dl, 0.0)
    pts = {0.0, lo, hi}
    m = 0
    while x + m * Lf / 2 <= hi and m < 8:
        if x + m * Lf / 2 > 0:
            pts.add(x + m * Lf / 2)
        m += 1
    for j in range(1, 33):
        pts.add(hi * j / 32)
    pts = sorted(pts)
    en = [ipc_energy(kcf, x, qf, Lf, s) for s in pts]
    E_lo = posvar(en[:pts.index(lo) + 1])
    E_hi = posvar(en)
    if E_lo > e_rem + eps:
        return "after %d box traversals the uphill energy %.17g already exceeds the rest of the budget %.17g before " \
               "the returned distance" % (n, E_lo, e_rem)
    if E_hi < e_rem - eps:
        return "after %d box traversals the uphill energy %.17g at the returned distance is below the rest of the " \
               "budget %.17g" % (n, E_hi, e_rem)
    return None


def oracle_exact(c, res):
    """hard sphere / hard dipole / cell bounding: exact rational statement. None if fine, else message."""
    op = c["op"]
    k = op["k"]
    if k in ("hs_disp", "hd_disp"):
        v = [Fr(t) for t in sepv(op, "vel")]
        s = [Fr(t) for t in sepv(op)]
        vv = sum(t * t for t in v)
        ss = sum(t * t for t in s)
        vs = sum(a * b for a, b in zip(v, s))

        def dist2(t):
            return ss - 2 * t * vs + t * t * vv
        if k == "hs_disp":
            d2 = 4 * Fr(fl(op, "radius")) ** 2
            if ss < d2 * (1 - Fr(1, 10 ** 12)):
                return None   # overlapping start: outside the property's domain
            # absolute accuracy of a squared distance evaluated in floats (2^-38 level, cf. the case tolerances)
            tol2 = Fr(2) ** -38 * (ss + d2 + vs * vs / vv)
            tmin = vs / vv if vs > 0 else Fr(0)          # time of closest approach on t >= 0
            if res != res:
                return "hard sphere displacement returned nan"
            if res == INF:
                # never closer than the diameter, up to the tolerance (grazing: hit or miss undecidable in floats)
                return None if dist2(tmin) >= d2 - tol2 else "returns inf although the spheres collide"
            t = Fr(res)
            dt = Fr(2) ** -38 * (abs(t) + Fr(float(math.sqrt(d2 / vv))))
            if t < -dt:
                return "negative contact time %r" % res
            # at the returned time the spheres touch, up to the tolerance propagated through the slope of dist^2
            slope = 2 * abs(t * vv - vs)
            if abs(dist2(max(t, Fr(0))) - d2) > tol2 + slope * dt:
                return "at the returned time %r the spheres do not touch: |s - v t|^2 - d^2 = %.3e" % (
                    res, float(dist2(max(t, Fr(0))) - d2))
            # first contact: if the returned time lies behind the closest approach, the closest approach itself must
            # not be an overlap (then the earlier root was missed); a grazing contact passes within the tolerance
            if tmin < t - dt and dist2(tmin) < d2 - tol2:
                return "returned time %r is not the first contact time (the spheres overlap at the closest " \
                       "approach t = %.17g before it)" % (res, float(tmin))
            return None
        mn2, mx2 = Fr(fl(op, "mn")) ** 2, Fr(fl(op, "mx")) ** 2
        if not (mn2 * (1 - Fr(1, 10 ** 12)) <= ss <= mx2 * (1 + Fr(1, 10 ** 12))):
            return None
        if res == INF or res != res:
            return "hard dipole returned %r" % res
        t = Fr(res)
        tmin = vs / vv if vs > 0 else Fr(0)
        hits = dist2(tmin) < mn2
        target = mn2 if hits else mx2
        delta = Fr(2) ** -36 * (abs(t) + Fr(float(math.sqrt(mx2 / vv))))
        lo, hi = max(t - delta, Fr(0)), t + delta
        if hits:
            good = dist2(hi) <= target and (dist2(lo) >= target or lo == 0) and lo <= tmin + delta
        else:
            if dist2(tmin) < mn2 * (1 + Fr(1, 2 ** 30)):
                return None   # grazing the inner sphere: either answer is within rounding
            good = dist2(hi) >= target and (dist2(lo) <= target) and hi >= tmin
        return None if good else "returned time %r is not the first event time (%s sphere)" % (
            res, "inner" if hits else "outer")
    if k == "cb_disp":
        cf = Fr(fl(op, "ac")) * Fr(fl(op, "tc"))
        rate = (Fr(fl(op, "upper")) if cf > 0 else Fr(fl(op, "lower"))) * cf
        if rate > 0:
            if res == INF:
                return "infinite although the bounding rate is positive"
            exact = Fr(fl(op, "dE")) / rate / Fr(fl(op, "speed"))
            return None if abs(Fr(res) - exact) <= Fr(2) ** -48 * exact else "rate * displacement != budget"
        return None if res == INF else "finite although the bounding rate is not positive"
    return None


def oracle_eplus(c, res, energies_of):
    """inverse power / LJ / displaced even power / 1/r bound: bracket of the positive variation.
    energies_of(points) -> implementation energies at displacements along the motion."""
    op = c["op"]
    sp = fl(op, "speed")
    dE = fl(op, "dE")
    eps = 1e-11 * max(u_scale(c) if c["fam"] != "ipc" else c["uscale"], dE)
    if res == INF:
        pts = path_points(c, 0.0, far=True) if c["fam"] != "ipc" else c["far_pts"]
        E = posvar(energies_of(pts))
        return None if E <= dE * (1 + 1e-9) + eps else \
            "returned inf although the path accumulates %.17g >= budget %.17g" % (E, dE)
    d = res * sp
    delta = c["delta"]
    if d < -delta:
        return "negative displacement %r" % res
    lo, hi = max(d - delta, 0.0), d + delta
    pts = path_points(c, hi) if c["fam"] != "ipc" else c["pts_fn"](hi)
    pts = sorted(set(pts) | {lo})
    en = energies_of(pts)
    i_lo = pts.index(lo)
    E_lo = posvar(en[:i_lo + 1])
    E_hi = posvar(en)
    if E_lo > dE * (1 + 1e-9) + eps:
        return "uphill energy %.17g already exceeds the budget %.17g before the returned distance" % (E_lo, dE)
    if E_hi < dE * (1 - 1e-9) - eps:
        return "uphill energy %.17g at the returned distance is below the budget %.17g" % (E_hi, dE)
    return None


# ------------------------------------------------------------------------------------------------
# F3 probes (known findings) and the totality stream
def probes():
    hx = float.fromhex
    P = []

    def lj(sep, dE, tag):
        P.append({"fam": "lj", "tag": tag, "op": {"k": "lj_disp", "k_": f2b(1.0), "sigma": f2b(1.0), "sep": bits(sep),
                                                 "dir": 0, "speed": f2b(1.0), "dE": f2b(dE)}})

    def ip(p, pref, c1, c2, sep, dE, tag):
        P.append({"fam": "ip", "tag": tag, "op": {"k": "ip_disp", "p": f2b(p), "p_int": 0, "pref": f2b(pref),
                                                 "c1": f2b(c1), "c2": f2b(c2), "sep": bits(sep), "dir": 0,
                                                 "speed": f2b(1.0), "dE": f2b(dE)}})

    def dep(sep, dE, tag):
        P.append({"fam": "dep", "tag": tag, "op": {"k": "dep_disp", "k_": f2b(1.0), "r0": f2b(1.0), "p": 2,
                                                  "sep": bits(sep), "dir": 0, "speed": f2b(1.0), "dE": f2b(dE)}})
    lj([-0.41627579, 0.92146492, 0.33698094], 1e-17, "F3a")
    lj([hx("-0x1.1f59ac3c7d6c0p+0"), 0.0, 0.0], 1e-300, "F3a")
    lj([hx("0x1.ba2209dfd0f9bp-1"), hx("0x1.0909855e91955p-1"), hx("0x1.fc26c55e605c7p-2")], 1e-300, "F3a")
    ip(1.0, 1.0, 1.0, -1.0, [0.0, 0.7612, 0.9054], 1e-16, "F3b")
    ip(1.0, 1.0, 1.0, -1.0, [hx("0x1.98688f2b0b150p+0"), hx("0x1.c252370287a5ep-4"), hx("0x1.23f04fa22d5bep-2")], 1e-16,
       "F3b")
    ip(6.0, 1.0, 1.0, -1.0, [-0.0, hx("0x1.0f14148540627p+0"), hx("0x1.d152814a65981p-1")], 1e-20, "F3b")
    dep([0.0, hx("0x1.60d21b80e10ebp+0"), hx("0x1.69918ed670f91p-1")], 1e-16, "F3b")
    lj([0.0, 1.169, 0.532], 1e-18, "F3b")
    lj([hx("-0x1.515d6f32a9c85p-1"), hx("0x1.b94b58954c542p-1"), hx("0x1.26c9a3915e037p-2")], 1e-20, "F3c")
    lj([hx("0x1.8213712895976p-1"), hx("0x1.a71ea8ec709a5p-1"), hx("0x1.76df56c47f4aap-4")], 1e-20, "F3c")
    ip(0.5, -1.7, -1.0, 1.0, [0.0006791397355357976, 0.4269096503892061, -0.36029190810019507], 8.404376750062404e-07,
       "F3e")
    P.append({"fam": "lj", "tag": "F3e", "op": {"k": "lj_disp", "k_": f2b(2.0), "sigma": f2b(1.0),
                                               "sep": bits([1.6779244360898145, 0.06593893868989249,
                                                            -0.10859184213832003]),
                                               "dir": 0, "speed": f2b(2.7), "dE": f2b(113132062882.96817)}})
    P.append({"fam": "ipc", "tag": "F3f", "tiny": True,
              "op": {"k": "ipc_disp", "pref": f2b(1.6), "c1": f2b(1.0), "c2": f2b(-1.0),
                     "sep": bits([0.357981097613854, 0.3101918790082182, -0.4549231899146402]), "dir": 0,
                     "speed": f2b(1.0), "dE": f2b(1e-18), "L": f2b(1.0)}})
    P.append({"fam": "ipc", "tag": "F3f", "tiny": True,
              "op": {"k": "ipc_disp", "pref": f2b(2.5), "c1": f2b(1.0), "c2": f2b(-1.0),
                     "sep": bits([0.0, -1.0276768756736903, -1.7093237021777399]), "dir": 0,
                     "speed": f2b(1.0), "dE": f2b(1e-300), "L": f2b(7.3)}})
    ip(6.0, 1.0, 1.0, 1.0, [1.5, 0.0, 0.0], 0.5, "F3d")
    ip(1.0, 1.0, 1.0, -1.0, [1.5, 0.0, 0.0], 0.5, "F3d")
    lj([1.5, 0.0, 0.0], 0.5, "F3d")
    return P


def gen_totality(rng, n):
    """admissible separations x positive budgets down to denormals (no Coq case: float-level totality is searched,
    not proved)"""
    out = []
    for i in range(n):
        fam = ("ip", "lj", "dep")[i % 3]
        base = (gen_ip(rng, 1) if fam == "ip" else gen_mh(rng, 1, fam))
        if not base:
            continue
        c = base[0]
        op = c["op"]
        u = rng.random()
        if u < 0.5:
            dE = 10.0 ** (-rng.uniform(7, 30))
        elif u < 0.8:
            dE = 10.0 ** (-rng.uniform(30, 307))
        else:
            dE = rng.choice([5e-324, 2.0 ** -1022, 1e-310, 2.0 ** -1000])
        op["dE"] = f2b(dE)
        v = rng.random()
        sep = sepv(op)
        d = op["dir"]
        if v < 0.15:
            sep[d] = rng.choice([0.0, -0.0])
        elif v < 0.4 and fam in ("lj", "dep"):
            # on / next to the minimum sphere
            r0 = fl(op, "sigma") * 2 ** (1 / 6) if fam == "lj" else fl(op, "r0")
            x, q = xq(sep, d)
            qf = float(q)
            if qf < r0 * r0:
                rr = r0 * (1 + rng.choice([-1, 1]) * rng.choice([0.0, 2.0 ** -52, 2.0 ** -51, 10 ** rng.uniform(-16, -6)]))
                sep[d] = math.copysign(math.sqrt(max(rr * rr - qf, 0.0)), x)
        op["sep"] = bits(sep)
        c["tot"] = True
        out.append(c)
    return out


TRUSTED = [
    "Coq-Interval 4.x (interval, interval_intro) and Flocq/Coquelicot as installed; Coq Reals axioms listed below",
    "hand-written real models coq/Model/PotentialsR.v, coq/Model/CoulombBoundR.v (transcribed branch by branch)",
    "harness/c02.py + drivers/c02_potentials.py: exact float->rational conversion (fractions.Fraction) and the "
    "per-case tolerance 2^-40 * condition number estimated by perturbation of a float mirror (the mirror never decides "
    "pass/fail; a too small tolerance makes the check fail, a too large one weakens it: printed with every case)",
]
ASSUME = [
    "the model is tied to the code by kernel-checked numerical agreement on generated inputs, not by a semantics of "
    "Python/C; agreement is up to the stated tolerance (libm pow/sqrt are not modelled bit-wise)",
    "float-level totality (every positive budget down to denormals) is searched, not proved: known findings F3a-F3e",
    "periodic wrap-around is covered for the 1/r bounding potential (theorem laps_correct); the Python potentials are "
    "not periodic",
    "the theorems for the Mexican hats exclude the single budget value 'dE = inner barrier' (branch boundary, F3e) and "
    "those for the hard sphere a start exactly on the sphere (measure zero)",
]


def run(ctx, cases_override=None):
    C.build_scratch(ctx, exts=("ipc",))
    rng = ctx.rng
    broken = []
    ok, out, nthm = C.check_props(ctx)
    if not ok:
        broken.append("Props/C02.v does not check: " + out[-600:])
    N = ctx.n(300, 5000)
    if cases_override is not None:
        cases = cases_override
        tot, prb = [], []
    else:
        cases = (gen_ip(rng, int(N * 0.3)) + gen_mh(rng, int(N * 0.27), "lj") + gen_mh(rng, int(N * 0.2), "dep")
                 + gen_hs(rng, int(N * 0.08)) + gen_hs(rng, int(N * 0.04), "hd") + gen_cb(rng, int(N * 0.03))
                 + gen_ipc(rng, int(N * 0.08)) + gen_ipc_laps(rng, ctx.n(2, 12))
                 + gen_ipc_aligned(rng, ctx.n(48, 480)) + gen_zero_charge(rng, ctx.n(72, 720))
                 + gen_parallel(rng, ctx.n(72, 720), ctx.n(36, 360)))
        tot = gen_totality(rng, ctx.n(3000, 60000)) + gen_ipc_tiny(rng, ctx.n(600, 12000))
        prb = probes()
    allc = cases + tot + prb
    t0 = time.time()
    zc = [c for c in cases if c.get("zero_charge")]
    zc_ops = []
    for c in zc:
        o = dict(c["op"])
        o["k"] = c["fam"] + "_der"
        zc_ops.append(o)
    res = run_ops(ctx, [c["op"] for c in allc] + zc_ops)
    zc_res = res[len(allc):]
    res = res[:len(allc)]
    ctx.notes.append("driver round 1: %d ops in %.1fs (after %.1fs setup)" % (len(allc), time.time() - t0, t0 - ctx.t0))
    nC = len(cases)
    viol = []       # (case, result, message)
    known_hits = {}
    # a failure in a recorded input class is reported as KNOWN-FINDING only while that entry is open
    open_ids = {k["id"] for k in C.known_open("C02")}

    def outcome(c, r):
        if r and r[0] == "EXC":
            return None
        return b2f(r[0])

    # --- failures (exceptions, NaN, negative beyond rounding) on every stream
    for c, r in zip(allc, res):
        v = outcome(c, r)
        failed = v is None or v != v
        neg = False
        if not failed and c["fam"] in ("ip", "lj", "dep") and v < 0:
            x, q = xq(sepv(c["op"]), c["op"]["dir"])
            scale = abs(x) + math.sqrt(float(q))
            neg = v * fl(c["op"], "speed") < -2.0 ** -36 * scale
        if not failed and c["fam"] == "ipc" and v < 0:
            neg = v * fl(c["op"], "speed") < -2.0 ** -36 * fl(c["op"], "L")
        if failed or neg:
            fid = classify_failure(c, r)
            what = "raised %s: %s" % (r[1], r[2]) if failed and v is None else "returned %r" % v
            if fid is None:
                viol.append((c, r, "displacement %s for an admissible separation and positive budget" % what))
            elif fid not in open_ids:
                viol.append((c, r, "displacement %s for an admissible separation and positive budget (input class of "
                             "%s, which is not an open entry of known_findings.json)" % (what, fid)))
            else:
                known_hits.setdefault(fid, []).append((c, r))
        elif c.get("tag"):
            ctx.notes.append("probe %s no longer fails: %s -> %r" % (c["tag"], json.dumps(c["op"]), v))
        elif c.get("zero_charge") and v != INF:
            viol.append((c, r, "vanishing charge product: the potential is identically zero and the budget is never "
                         "reached, but displacement returned %r instead of inf" % v))
    for c, r in zip(zc, zc_res):
        if r and r[0] == "EXC":
            x, q = xq(sepv(c["op"]), c["op"]["dir"])
            viol.append((c, r, "vanishing charge product: derivative raised %s: %s" % (r[1], r[2])))
        elif b2f(r[0]) != 0.0:
            viol.append((c, r, "vanishing charge product: derivative is %r, not +-0" % b2f(r[0])))
    for fid in sorted(known_hits):
        c, r = known_hits[fid][0]
        op = c["op"]
        C.known(ctx, fid, "%s displacement sep=%s budget=%r -> %s (%d hits this run)" % (
            c["fam"], [t.hex() for t in sepv(op)], fl(op, "dE"),
            "%s: %s" % (r[1], r[2]) if r[0] == "EXC" else repr(b2f(r[0])), len(known_hits[fid])))

    # --- correspondence on the main stream
    coq_cases, idx, evs = [], [], {}
    skipped = {"impl_failed": 0, "mirror_undefined": 0}
    for i, (c, r) in enumerate(zip(cases, res[:nC])):
        v = outcome(c, r)
        if v is None or v != v:
            skipped["impl_failed"] += 1
            continue
        if c["fam"] == "ipc" and c.get("zero_charge"):
            # the real model of the C routine divides by the (zero) gain per lap; expected value +inf is checked directly
            skipped["ipc_zero_charge_oracle_only"] = skipped.get("ipc_zero_charge_oracle_only", 0) + 1
            continue
        if c["fam"] == "ipc" and xq(sepv(c["op"]), c["op"]["dir"])[1] == 0:
            # exactly aligned units: U(0) is infinite, which the real model cannot express (x / 0 = 0 in Coq);
            # covered by the extended-real oracle only
            skipped["ipc_exactly_aligned_oracle_only"] = skipped.get("ipc_exactly_aligned_oracle_only", 0) + 1
            continue
        fn = mirror_fn(c["op"])
        ev = evaluate(fn, rng)
        if ev is None:
            skipped["mirror_undefined"] += 1
            continue
        evs[i] = ev
        if c["fam"] == "ipc" and ev["aux"] is not None and ev["aux"] > 10 ** 7:
            # huge lap counts: the real model would need the lap count certified through ~2^-90 enclosures of a
            # quotient of size > 1e7; these cases are covered by the exact-rational oracle only
            skipped["ipc_huge_laps_oracle_only"] = skipped.get("ipc_huge_laps_oracle_only", 0) + 1
            del evs[i]
            continue
        c["delta"] = 4.0 * ev["tol"] * (fl(c["op"], "speed") if "speed" in c["op"] else 1.0) + 1e-12
        coq_cases.append(disp_case(c, v, ev))
        idx.append(i)
    nproved, bad, nfiles, nok, err = prove_cases(ctx, "c02", coq_cases, per_file=ctx.n(10, 40))
    near_skipped = [idx[j] for j in bad if evs[idx[j]]["near"]]
    mism = [idx[j] for j in bad if not evs[idx[j]]["near"]]
    if near_skipped and not mism:
        # files whose only unproved cases sit within 2^-30 of a branch boundary count as discharged (skipped cases
        # are reported in the evidence)
        ctx.discharged += nfiles - nok
    if err and not bad:
        broken.append("correspondence case files did not evaluate: " + err[-600:])

    # --- oracle on the main stream (second driver round for the energies along the path)
    en_ops, en_slices, plan = [], {}, []
    for i, (c, r) in enumerate(zip(cases, res[:nC])):
        v = outcome(c, r)
        if v is None or v != v:
            continue
        if c["fam"] in ("hs", "hd", "cb"):
            m = oracle_exact(c, v)
            if m:
                viol.append((c, r, m))
            continue
        c.setdefault("delta", 1e-9)
        if c["fam"] == "ipc" and c.get("zero_charge"):
            continue
        if c["fam"] == "ipc":
            op = c["op"]
            x, q = xq(sepv(op), op["dir"])
            kc = fl(op, "pref") * fl(op, "c1") * fl(op, "c2")
            L = fl(op, "L")
            qf = float(q)
            c["uscale"] = abs(kc) / math.sqrt(qf) if qf > 0 else abs(kc) / L

            def pts_fn(hi, x=x, L=L):
                pts = {0.0, hi}
                n = 0
                while True:
                    b = x + n * L / 2
                    if b > hi or n > 4000:
                        break
                    if b > 0:
                        pts.add(b)
                    n += 1
                for j in range(1, 33):
                    pts.add(hi * j / 32)
                return sorted(pts)
            c["pts_fn"] = pts_fn
            m = oracle_ipc(c, v)
            if not m and c.get("laps_exact", 10 ** 9) <= 20 and not c.get("near_lap_multiple"):
                # few laps: additionally the plain positive variation over the whole path
                m = oracle_eplus(c, v, lambda pts, kc=kc, x=x, qf=qf, L=L: [ipc_energy(kc, x, qf, L, s) for s in pts])
            if m:
                viol.append((c, r, m))
            continue
        plan.append((i, c, r, v))
    # tiny-budget stream of the C bounding potential: same exact-lap / bracket oracle (no Coq case)
    for c, r in zip(tot, res[nC:nC + len(tot)]):
        if c["fam"] != "ipc":
            continue
        v = outcome(c, r)
        if v is None or v != v:
            continue
        m = oracle_ipc(c, v)
        if m:
            viol.append((c, r, m))
    # gather energy evaluations for ip / lj / dep
    reqs = []
    for i, c, r, v in plan:
        if v == INF:
            pts = path_points(c, 0.0, far=True)
        else:
            d = v * fl(c["op"], "speed")
            lo, hi = max(d - c["delta"], 0.0), d + c["delta"]
            pts = sorted(set(path_points(c, hi)) | {lo})
        reqs.append((i, c, r, v, pts, len(en_ops)))
        en_ops += energy_ops(c, pts)
    t0 = time.time()
    en_res = run_ops(ctx, en_ops, chunk=4000) if en_ops else []
    ctx.notes.append("driver round 2 (energies along the paths): %d ops in %.1fs" % (len(en_ops), time.time() - t0))
    for i, c, r, v, pts, off in reqs:
        vals = []
        bad_e = False
        for t in en_res[off:off + len(pts)]:
            if t and t[0] == "EXC":
                bad_e = True
                break
            vals.append(b2f(t[0]))
        if bad_e:
            continue
        table = dict(zip(pts, vals))
        m = oracle_eplus(c, v, lambda p, table=table: [table[s] for s in p] if all(s in table for s in p) else
                         [table[min(table, key=lambda u: abs(u - s))] for s in p])
        if m:
            viol.append((c, r, m))

    # --- verdicts
    def pack(c, r, msg):
        return {"kind": "c02-cases", "cases": [{"fam": c["fam"], "op": c["op"]}], "impl_result": r, "message": msg,
                "readable": {k: (b2f(v) if isinstance(v, int) and k not in ("dir", "p", "p_int") else
                                 ([b2f(t) for t in v] if isinstance(v, list) else v)) for k, v in c["op"].items()}}
    if viol:
        c, r, msg = viol[0]
        d = pack(c, r, msg)
        d["n_failing"] = len(viol)
        C.violation(ctx, "oracle", d, "C02 fails on the implementation: " + msg)
    elif mism:
        i = mism[0]
        d = pack(cases[i], res[i], "model/implementation disagree beyond tol=%g (cond %g) on %d cases (path %s); the "
                 "positive-variation oracle found no failing input; the correspondence with Model/PotentialsR.v "
                 "(theorems of Props/C02.v) no longer checks" % (evs[i]["tol"], evs[i]["cond"], len(mism), evs[i]["path"]))
        C.violation(ctx, "correspondence", d, "potential model and implementation disagree", nofail=True)
    elif broken:
        C.violation(ctx, "obligation", {"kind": "obligation", "broken": broken}, broken[0][:200], nofail=True)

    paths = {}
    for i in idx:
        key = cases[i]["fam"] + ":" + evs[i]["path"] + (":inf" if evs[i]["value"] == INF else "")
        paths[key] = paths.get(key, 0) + 1
    conds = sorted(evs[i]["cond"] for i in idx if math.isfinite(evs[i]["cond"]))
    C.write_evidence(ctx, {
        "evaluations": len(allc),
        "distinct_nontrivial": len(idx),
        "rule": "a case is one (potential parameters, separation, direction, speed, charges, budget) tuple whose "
                "implementation result was compared in Coq against Model/PotentialsR.v; strata = paths through the "
                "case tree (see input_distribution); all cases evaluate pow/sqrt and at least one branch",
        "samples": [{"op": cases[i]["op"], "impl": res[i], "path": evs[i]["path"], "cond": evs[i]["cond"],
                     "tol": evs[i]["tol"]} for i in idx[::max(1, len(idx) // 6)]][:6],
        "input_distribution": paths,
        "strata_hit": len(paths),
        "condition_numbers": {"median": conds[len(conds) // 2] if conds else None, "max": conds[-1] if conds else None,
                              "above_2^20": sum(1 for t in conds if t > 2 ** 20)},
        "cases_proved_in_coq": nproved,
        "near_branch_boundary_skipped": len(near_skipped),
        "sqrt_boundary_cases": {"generated (radicand within its rounding error of zero: grazing contact / tangent "
                                "path)": sum(1 for i in idx if evs[i].get("sqrt_boundary")),
                                "of these skipped (unproved in Coq)": sum(1 for i in near_skipped
                                                                          if evs[i].get("sqrt_boundary"))},
        "model_vs_impl_mismatches": len(mism),
        "not_compared": skipped,
        "oracle_failures": len(viol),
        "totality_stream": {"cases": len(tot), "known_finding_hits": {k: len(v) for k, v in known_hits.items()}},
        "probes": len(prb),
        "ipc_aligned_strata": {"exactly_aligned_oracle_only": sum(1 for c in cases if c.get("stratum") == "aligned"),
                               "one_transverse_component_zero": sum(1 for c in cases if c.get("stratum") == "onezero")},
        "zero_charge_product_cases": len(zc),
        "ipc_tiny_budget_cases_oracle_only": sum(1 for c in tot if c.get("tiny")),
        "known_finding_entries_open": sorted(open_ids),
        "exactly_parallel_cases": {f: sum(1 for c in cases if c.get("stratum") == "parallel" and c["fam"] == f)
                                   for f in ("dep", "ip", "lj")},
        "ipc_budget_within_rounding_of_lap_multiple": sum(1 for c in cases if c.get("near_lap_multiple")),
        "ipc_lap_strata": {str(t): sum(1 for c in cases if c.get("lap_target") == t) for t in LAP_TARGETS},
        "traces_validated_against_impl": nproved,
        "case_files": nfiles, "case_files_ok": nok,
        "explanation": "Props/C02.v re-checked (%d theorems); every main-stream result compared with the real model "
                       "inside Coq (interval arithmetic, one Lemma per case); positive-variation / first-contact oracle "
                       "on the implementation's own energy function; F3 probes and totality stream classified" % nthm,
        "trusted_base": TRUSTED,
    }, ASSUME)


def replay(ctx, path):
    data = json.load(open(path))
    run(ctx, cases_override=data.get("cases", []))
