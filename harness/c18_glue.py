"""C18, handler glue: CellVetoEventHandler.send_event_time (shared by LeafUnit- and CompositeObjectCellVeto handlers)
driven on real CuboidPeriodicCells grids with a stub estimator (drivers/c18_cellveto.py).

Oracle (Python, no Coq model), on the recorded outputs:
  * the rates given to the two Walkers per direction are max(bound, 0.0) of the stored bounds, for exactly the cell
    offsets that are not nearby the zero cell; Walker.total_rate is their sum (bit-exact: same left-to-right float sum);
    each alias table passes the Fraction oracle of harness/c18.py (shares, masses; tolerance 2^-40);
  * walker choice by the sign of the charge correction factor; |factor| used;
  * sampled offset = the row's first or second item according to  uniform(0, mean) <= rate;
  * target cell identifier = (active cell index + offset index) mod cells_per_side, per dimension, where the active
    cell is the cell of the unit at cell level (positions generated away from cell faces);
  * bounding event rate = bounds[offset][direction][0 | 1] * |factor| (bit-exact product);
  * event time = stamp + Exp / (total * |factor| * speed): bit-exact against the same float expression and Time.__add__
    (CPython divmod semantics), and within 2^-44 relative of the exact rational value;
  * exactly one call each of random.choice / uniform / expovariate(beta);
  * finding F5: a 0.0 uniform draw on a row whose first item has rate 0.0 fails  assert bounding_event_rate > 0.
"""
import math
from fractions import Fraction as Fr

import common as C
from common import f2b, b2f


def gen_case(rng, k=None):
    dim = rng.choice([1, 2, 2, 3])
    cps = [rng.choice([4, 5, 6, 7]) if dim < 3 else rng.choice([4, 5]) for _ in range(dim)]
    lengths = [rng.choice([1.0, 2.0, 3.5, 10.0, rng.uniform(0.5, 20.0)]) for _ in range(dim)]
    if rng.random() < 0.4:
        lengths = [lengths[0]] * dim
    cell_level = rng.choice([1, 1, 2])
    force = k is not None and k % 3 == 0      # every third grid: the composite-object handler
    composite = force or cell_level == 2 or rng.random() < 0.3
    case = {"lengths": [f2b(x) for x in lengths], "cells_per_side": cps, "beta": f2b(rng.choice([1.0, 0.5, 2.0, 3.7])),
            "cell_level": cell_level, "composite": composite, "charge": rng.choice([None, "q", "q"]),
            "cf_scale": f2b(rng.choice([1.0, -1.0, 0.5, -2.5, rng.uniform(-3, 3)])),
            "bound_seed": rng.randrange(10 ** 9), "queries": []}
    comp_handler = force or (composite and rng.random() < 0.3)
    if comp_handler:
        # CompositeObjectCellVetoEventHandler; the charges of the target composite object vary independently of the
        # estimator's reference dipole charge
        case.update({"handler": "composite", "n_points": rng.choice([2, 3]), "charge": rng.choice(["q", "q", "q", None]),
                     "dipole_charge": f2b(rng.choice([1.0, 0.5, 2.0]))})
    npts = case.get("n_points", 2)
    for k in range(rng.randrange(4, 9)):
        def pos():
            p = []
            for d in range(dim):
                w = lengths[d] / cps[d]
                i = rng.randrange(cps[d])
                p.append((i + rng.uniform(0.05, 0.95)) * w)
            return p
        root = pos()
        q = {"root_pos": [f2b(x) for x in root], "leaf_pos": [f2b(x) for x in pos()] if composite else None,
             "dir": rng.randrange(dim), "speed": f2b(rng.choice([1.0, 0.5, 2.0, rng.uniform(0.1, 5.0)])),
             "charge": f2b(rng.choice([1.0, -1.0, 2.0, -0.5, rng.uniform(-2, 2)])),
             "stamp": [f2b(float(rng.randrange(0, 1000))), f2b(rng.random())],
             "row": "zero" if k == 0 else ["frac", f2b(rng.random())],
             "u": f2b(0.0 if k < 2 else (1.0 if k == 2 else rng.random())),
             "e": f2b(rng.expovariate(1.0))}
        if comp_handler:
            q["lcharges"] = [f2b(rng.choice([1.0, -1.0, 0.5, rng.uniform(-2, 2)])) for _ in range(npts - 1)]
            if rng.random() < 0.2:
                q["out"] = {"mode": "empty"}
            else:
                dch = b2f(case["dipole_charge"])
                mag = dch * rng.choice([1.0, 0.5, 0.25, 2.0, 3.0, rng.uniform(0.1, 4.0)])   # max |charge| of the target
                tch = [mag * rng.choice([1.0, -1.0])] + [mag * rng.uniform(-1.0, 1.0) for _ in range(npts - 1)]
                rng.shuffle(tch)
                big = rng.random() < 0.6
                q["out"] = {"mode": "occupied", "tcharges": [f2b(x) for x in tch],
                            "ders": [f2b(rng.uniform(-0.3, 1.0) * (10.0 ** rng.randrange(-1, 3) if big else 1.0))
                                     for _ in range(npts + 3)],
                            "uc": f2b(rng.choice([0.0, 1.0, rng.random(), rng.random() * 0.1])),
                            "tpos": [f2b(x) for x in pos()], "tleafpos": [[f2b(x) for x in pos()] for _ in range(npts)]}
        elif not composite:
            if rng.random() < 0.3:
                q["out"] = {"mode": "empty"}
            else:
                q["out"] = {"mode": "occupied",
                            "der": f2b(rng.choice([-0.5, 0.0, rng.random() * 10.0 ** rng.randrange(-2, 3), rng.random() * 10.0 ** rng.randrange(-1, 3)])),
                            "uc": f2b(rng.choice([0.0, 1.0, rng.random(), rng.random() * 0.1])),
                            "tpos": [f2b(x) for x in pos()], "tcharge": f2b(rng.choice([1.0, -2.0, rng.uniform(-2, 2)]))}
        case["queries"].append(q)
    return case


def time_add(q, r, d):
    """jellyfysh.base.time.Time.__add__ on CPython floats"""
    if math.isinf(d):
        return d, d
    aq, nr = divmod(r + d, 1.0)
    return q + aq, nr


class TableJob(object):
    """adapter so that harness/c18.oracle_job can check a handler's Walker table"""
    stream, mode, kind = "G", "F", "valid"

    def __init__(self, rates, dump):
        self.rates = rates
        self.rates_fr = [Fr(r) for r in rates]
        self.samples, self.tags = [], []
        self.res = {"total": dump["total"], "mean": dump["mean"], "table": dump["table"], "samples": []}

    def table(self):
        return [[(i, Fr(b2f(r))) for i, r in row] for row in self.res["table"]]


def oracle_case(case, out, stats):
    import c18
    fails, f5 = [], []
    if "init_exc" in out:
        return [("init", "handler initialisation raised %s" % out["init_exc"])], f5
    cps = case["cells_per_side"]
    dim = len(cps)
    lengths = [b2f(x) for x in case["lengths"]]
    seps = [tuple(s) for s in out["seps"]]
    nearby = {tuple(s) for s in out["nearby_zero"]}
    allcells = set()

    def rec(pre):
        if len(pre) == dim:
            allcells.add(tuple(pre))
            return
        for i in range(cps[len(pre)]):
            rec(pre + [i])
    rec([])
    # offsets: exactly the cells that are not within one layer of the zero cell (periodic)
    want_near = {c for c in allcells if all(min(c[d], cps[d] - c[d]) <= 1 for d in range(dim))}
    if nearby != want_near:
        fails.append(("init", "nearby cells of the zero cell are not the one-layer periodic neighbourhood"))
    if set(seps) != allcells - want_near or len(seps) != len(set(seps)):
        fails.append(("init", "derivative bounds are not stored for exactly the non-nearby cell offsets"))
    bounds = [[(b2f(a), b2f(b)) for a, b in per_dir] for per_dir in out["bounds"]]
    # stored bound = (upper, -lower) of the estimator's answer, per offset and direction
    calls = out["estimator_calls"]
    if len(calls) != len(seps) * dim:
        fails.append(("init", "estimator called %d times for %d offsets x %d directions" % (len(calls), len(seps), dim)))
    else:
        for si in range(len(seps)):
            for d in range(dim):
                lo, up, direction, ub, lb = calls[si * dim + d]
                if direction != d or bounds[si][d] != (b2f(ub), -b2f(lb)):
                    fails.append(("init", "stored bound for offset %s direction %d is not (upper, -lower)" % (seps[si], d)))
                    break
    for name, idx in (("upper", 0), ("lower", 1)):
        for d in range(dim):
            rates = [max(bounds[si][d][idx], 0.0) for si in range(len(seps))]
            dump = out[name][d]
            if f2b(sum(rates)) != dump["total"]:
                fails.append(("init", "%s walker, direction %d: total_rate is not the sum of max(bound, 0)" % (name, d)))
            f, _ = c18.oracle_job(TableJob(rates, dump), stats)
            fails += [("init", "%s walker, direction %d: %s" % (name, d, m)) for _, m in f]
            stats["glue_tables"] += 1
    if fails:
        return fails, f5
    scale = b2f(case["cf_scale"])
    beta = b2f(case["beta"])
    for qi, (q, r) in enumerate(zip(case["queries"], out["queries"])):
        d = q["dir"]
        speed = b2f(q["speed"])
        cf = (b2f(q["charge"]) if case["charge"] else 1.0) * scale
        name, idx = ("upper", 0) if cf > 0.0 else ("lower", 1)
        if not cf > 0.0:
            cf *= -1.0
        dump = out[name][d]
        row = dump["table"][r["row"]]
        mean = b2f(dump["mean"])
        u = b2f(q["u"])
        drawn = 0.0 + (mean - 0.0) * u
        first_rate = b2f(row[0][1])
        if drawn <= first_rate:
            rel = row[0][0]
        elif len(row) > 1:
            rel = row[1][0]
        else:
            fails.append((qi, "single row not selected for u = %r" % u))
            continue
        bound = bounds[rel][d][idx]
        if "exc" in r:
            if r["exc"] == "AssertionError" and drawn == 0.0 and first_rate == 0.0 and not bound * cf > 0.0:
                f5.append(qi)                    # finding F5 reached through the handler
            else:
                fails.append((qi, "send_event_time raised %s" % r["exc"]))
            continue
        if not bound * cf > 0.0:
            fails.append((qi, "a cell offset with non-positive bound %r was proposed without failing" % bound))
            continue
        if r["calls"] != [1, 1, 1] or r["beta_seen"] != f2b(beta):
            fails.append((qi, "random calls (choice, uniform, expovariate) = %r, expovariate argument %r"
                          % (r["calls"], None if r["beta_seen"] is None else b2f(r["beta_seen"]))))
        if r["uniform"] != f2b(drawn):
            fails.append((qi, "uniform was not drawn on (0, mean rate) of the %s-bound walker" % name))
        # target cell
        pos = [b2f(x) for x in q["root_pos"]] if case["cell_level"] == 1 or q["leaf_pos"] is None \
            else [b2f(x) for x in q["leaf_pos"]]
        active = tuple(int(Fr(pos[k]) / (Fr(lengths[k]) / cps[k])) for k in range(dim))
        if tuple(r["active_cell"]) != active:
            fails.append((qi, "active cell %r, the unit at cell level sits in %r" % (r["active_cell"], active)))
        want_target = tuple((active[k] + seps[rel][k]) % cps[k] for k in range(dim))
        if tuple(r["target"]) != want_target or r["n_extra"] != 1:
            fails.append((qi, "target cell %r, expected translate(active %r, offset %r) = %r"
                          % (r["target"], active, seps[rel], want_target)))
        # confirmation bound
        if r["ber"] != f2b(bound * cf):
            fails.append((qi, "bounding event rate %r is not bounds[offset][direction][%d] * |charge factor| = %r"
                          % (b2f(r["ber"]), idx, bound * cf)))
        # event time
        e = b2f(q["e"])
        total = b2f(dump["total"]) * cf
        disp = e / (total * speed)
        tq, tr = time_add(b2f(q["stamp"][0]), b2f(q["stamp"][1]), disp)
        got = (b2f(r["time"][0]), b2f(r["time"][1]))
        exact_total = sum((Fr(max(bounds[si][d][idx], 0.0)) for si in range(len(seps))), Fr(0))
        exact = Fr(b2f(q["stamp"][0])) + Fr(b2f(q["stamp"][1])) + Fr(e) / (exact_total * Fr(cf) * Fr(speed))
        gotq = Fr(got[0]) + Fr(got[1])
        tol = Fr(e) / (exact_total * Fr(cf) * Fr(speed)) / 2 ** 44 + Fr(math.ulp(1.0))
        if got != (tq, tr):
            fails.append((qi, "event time %r differs from stamp + Exp / (total * |factor| * speed) = %r" % (got, (tq, tr))))
        elif abs(gotq - exact) > tol:
            fails.append((qi, "event time off the exact value by %s" % float(gotq - exact)))
        if r["leaf_stamp_after"] != r["time"]:
            fails.append((qi, "active unit not time-sliced to the event time"))
        m = oracle_out(case, q, r, bound * cf, lengths, stats)
        if m:
            fails.append((qi, "send_out_state: " + m))
        stats["glue_queries"] += 1
    return fails, f5


def composite_factor(oq, n):
    """factor_derivative = 0.0; += pairwise derivative of (active, target leaf k), k = 0..n-1 (plain float +=)"""
    f = 0.0
    for k in range(n):
        f += b2f(oq["ders"][k % len(oq["ders"])])
    return f


def oracle_out_composite(case, q, r, ber, stats):
    """CompositeObjectCellVetoEventHandler.send_out_state: the confirmation draw is random.uniform(0.0, B) with B exactly
    the bound stored for the sampled offset and direction times |charge factor of the ACTIVE unit| (= the recorded
    _bounding_event_rate, already checked against bounds[offset][direction][index] * |factor|) -- whatever the charges
    of the target composite object are; confirmed iff max(0, sum of pairwise derivatives) > draw."""
    oq, o = q["out"], r["out"]
    n = case["n_points"]
    if "exc" in o:
        return "raised %s" % o["exc"]
    if not o["same_list"]:
        return "out-state is not the stored in-state list"
    moving = [(tuple(i), v) for i, v in o["leaf_vels"] if v is not None]
    if oq["mode"] == "empty":
        stats["out_empty"] += 1
        if o["state_ids"] != [[0]] or moving != [((0, 0), o["vel_before"])] or o["n_uniform"] != 0 or o["pot_calls"]:
            return "empty target cell: state / velocities changed or a draw was made"
        return None
    if o["state_ids"] != [[0], [1]]:
        return "out-state branches %r" % o["state_ids"]
    if len(o["pot_calls"]) < n:
        return "potential derivative called %d times for %d target units" % (len(o["pot_calls"]), n)
    for k in range(n):
        vel, sep, charges = o["pot_calls"][k]
        want_ch = [q["charge"], oq["tcharges"][k]] if case["charge"] else [f2b(1.0), f2b(1.0)]
        if vel != o["vel_before"] or charges != want_ch:
            return "derivative %d called with velocity %r charges %r" % (k, vel, charges)
    if not o["uniform_args"]:
        return "no confirmation draw"
    a, b = o["uniform_args"][0]
    if b2f(a) != 0.0 or b != f2b(ber):
        return ("confirmation draw on (%r, %r): the upper limit is not bounds[offset][direction] * |charge factor of "
                "the active unit| = %r (target charges %r, estimator dipole charge %r)"
                % (b2f(a), b2f(b), ber, [b2f(x) for x in oq["tcharges"]], b2f(case["dipole_charge"])))
    factor = composite_factor(oq, n)
    drawn = 0.0 + (ber - 0.0) * b2f(oq["uc"])
    want_ex = not (max(0.0, factor) <= drawn)
    ex = moving != [((0, 0), o["vel_before"])]
    if ex != want_ex:
        return "velocity %s although factor derivative=%r, uniform(0, bound %r)=%r" % (
            "handed over" if ex else "kept", factor, ber, drawn)
    if ex:
        stats["out_exchanged"] += 1
        if len(moving) != 1 or moving[0][1] != o["vel_before"] or moving[0][0] == (0, 0):
            return "after the lifting not exactly one other leaf unit carries the velocity: %r" % (moving,)
    else:
        stats["out_rejected"] += 1
        if o["n_uniform"] != 1 or len(o["pot_calls"]) != n:
            return "unconfirmed event made further draws / derivative calls"
    stats["out_composite_target_charge_ratio"].append(
        round(max(abs(b2f(x)) for x in oq["tcharges"]) / b2f(case["dipole_charge"]), 3))
    return None


def oracle_out(case, q, r, ber, lengths, stats):
    """LeafUnitCellVetoEventHandler.send_out_state: empty target cell -> in-state returned unchanged; occupied ->
    one call of the potential's derivative, confirmation  derivative > 0 and uniform(0, bounding rate) < derivative
    against the bound recorded for the sampled offset / direction, then the velocity is handed over."""
    oq, o = q.get("out"), r.get("out")
    if oq is None:
        return None
    if o is None:
        return "not driven"
    if case.get("handler") == "composite":
        return oracle_out_composite(case, q, r, ber, stats)
    if "exc" in o:
        return "raised %s" % o["exc"]
    dim = len(lengths)
    if not o["same_list"]:
        return "out-state is not the stored in-state list"
    if oq["mode"] == "empty":
        stats["out_empty"] += 1
        if o["state_ids"] != [[0]] or o["active_vel"] != o["vel_before"] or o["n_uniform"] != 0 or o["pot_calls"]:
            return "empty target cell: state / velocities changed or a draw was made (%r)" % o
        return None
    der, uc = b2f(oq["der"]), b2f(oq["uc"])
    if o["state_ids"] != [[0], [1]]:
        return "out-state branches %r" % o["state_ids"]
    if len(o["pot_calls"]) != 1:
        return "potential derivative called %d times" % len(o["pot_calls"])
    vel, sep, charges = o["pot_calls"][0]
    want_ch = [q["charge"], oq["tcharge"]] if case["charge"] else [f2b(1.0), f2b(1.0)]
    if vel != o["vel_before"] or charges != want_ch:
        return "derivative called with velocity %r charges %r" % (vel, charges)
    apos = [Fr(b2f(x)) for x in r["leaf_pos_after"]]
    tpos = [Fr(b2f(x)) for x in oq["tpos"]]
    for k in range(dim):
        L = Fr(lengths[k])
        w = (tpos[k] - apos[k]) % L
        if w > L / 2:
            w -= L
        got = Fr(b2f(sep[k]))
        if min(abs(got - w), abs(abs(got - w) - L)) > Fr(1, 10 ** 12) * L:
            return "separation %r is not target - active (minimum image) %r" % (float(got), float(w))
    drawn = 0 + (ber - 0) * uc
    want_ex = der > 0 and drawn < der
    if (o["n_uniform"], o["uniform"]) != ((1, f2b(drawn)) if der > 0 else (0, None)):
        return "confirmation draw: %d uniform calls, value %r; expected uniform(0, %r)" % (o["n_uniform"], o["uniform"], ber)
    ex = o["target_vel"] is not None
    if ex != want_ex:
        return "velocity %s although derivative=%r, uniform(0, bound %r)=%r" % (
            "handed over" if ex else "kept", der, ber, drawn)
    if ex:
        stats["out_exchanged"] += 1
        if o["target_vel"] != o["vel_before"] or o["active_vel"] is not None or not o["active_stamp_none"] \
                or o["target_stamp"] != r["time"]:
            return "after the lifting: target velocity / stamp or active velocity wrong (%r)" % o
    else:
        stats["out_rejected"] += 1
        if o["active_vel"] != o["vel_before"] or o["target_stamp"] is not None:
            return "unconfirmed event changed the velocities"
    if o["target_pos"] != oq["tpos"]:
        return "target position changed"
    return None


# ----------------------------------------------------------------------------------------------
# correspondence with coq/Model/CellVeto.v, evaluated inside Coq
HEADER_CV = ("From Coq Require Import ZArith List.\nRequire Import JF.Base.F64 JF.Model.CellVeto JF.Model.CellVetoCases.\n"
             "Import ListNotations.\nOpen Scope Z_scope.")


def zl(xs):
    return C.coq_list([C.coq_z(x) for x in xs])


def coq_walker(dump):
    rows = []
    for row in dump["table"]:
        first = "(%d%%nat, %d)" % (row[0][0], row[0][1])
        second = "Some (%d%%nat, %d)" % (row[1][0], row[1][1]) if len(row) > 1 else "None"
        rows.append("(%s, %s)" % (first, second))
    return "(%d, %d, %s)" % (dump["total"], dump["mean"], C.coq_list(rows))


def coq_case(case, out):
    """-> CVGrid term or None (initialisation failed)"""
    if "init_exc" in out:
        return None
    dim = len(case["cells_per_side"])
    dirs = []
    for d in range(dim):
        bs = C.coq_list(["(%d, %d)" % (per_dir[d][0], per_dir[d][1]) for per_dir in out["bounds"]])
        dirs.append("(%s, %s, %s)" % (bs, coq_walker(out["upper"][d]), coq_walker(out["lower"][d])))
    scale = b2f(case["cf_scale"])
    qs = []
    for q, r in zip(case["queries"], out["queries"]):
        cf = (b2f(q["charge"]) if case["charge"] else 1.0) * scale
        oq = q.get("out")
        o = r.get("out")
        if "exc" in r:
            e = {"AssertionError": "XAssertionError", "IndexError": "XIndexError"}.get(r["exc"])
            if e is None:
                e = "(XOk 0 0 [] 0 false)"
        else:
            if oq is not None and (o is None or "exc" in o):
                e = "XIndexError"
            else:
                if case.get("handler") == "composite":
                    ex = bool(o and [tuple(i) for i, v in o["leaf_vels"] if v is not None] != [(0, 0)])
                else:
                    ex = bool(o and o.get("target_vel") is not None)
                e = "(XOk %d %d %s %d %s)" % (r["time"][0], r["time"][1], zl(r["target"]), r["ber"], C.coq_bool(ex))
        if oq is None or oq["mode"] == "empty":
            outq = "None"
        elif case.get("handler") == "composite":
            outq = "(Some (%d, %d))" % (f2b(composite_factor(oq, case["n_points"])), oq["uc"])
        else:
            outq = "(Some (%d, %d))" % (oq["der"], oq["uc"])
        qs.append("mkQ %d %s %d %d %d %d %d %d %d %s %s" % (
            q["dir"], zl(r["active_cell"]), q["stamp"][0], q["stamp"][1], q["speed"], f2b(cf), r["row"], q["u"], q["e"],
            outq, e))
    return "CVGrid %s %s %s %s" % (zl(case["cells_per_side"]), C.coq_list([zl(s) for s in out["seps"]]),
                                  C.coq_list(dirs), C.coq_list(["(%s)" % x for x in qs]))


def run(ctx, rng, replay_case=None):
    stats = {"pieces": 0, "integrals": 0, "g_near_breakpoint": 0, "draws_to_coq": 0, "glue_tables": 0,
             "glue_queries": 0, "out_empty": 0, "out_exchanged": 0, "out_rejected": 0,
             "out_composite_target_charge_ratio": []}
    cases = [replay_case] if replay_case is not None else [gen_case(rng, k) for k in range(ctx.n(24, 200))]
    chunks = [cases[i:i + 2] for i in range(0, len(cases), 2)]
    outs = C.run_driver_parallel(ctx, "c18_cellveto", [{"cases": ch} for ch in chunks])
    flat = [o for out in outs for o in out["out"]]
    fails, f5 = [], []
    for case, out in zip(cases, flat):
        f, k = oracle_case(case, out, stats)
        fails += [(case, "%s: %s" % (qi, m)) for qi, m in f]
        f5 += [case for _ in k]
    # model correspondence inside Coq (bit-exact event time, target cell, bound used, confirmation)
    terms, owners = [], []
    for case, out in zip(cases, flat):
        t = coq_case(case, out)
        if t is not None:
            terms.append(t)
            owners.append(case)
    neval, bad, nfiles, nok, err = C.eval_cases(ctx, "c18cv", HEADER_CV, terms, "check_cvcase", "cvcase", per_file=2)
    mism = [owners[i] for i in bad]
    nq = sum(len(c["queries"]) for c in cases)
    dims = {}
    for c in cases:
        key = "x".join(str(n) for n in c["cells_per_side"])
        dims[key] = dims.get(key, 0) + 1
    return {"fails": fails, "f5": f5, "n": nq, "mism": mism, "coq_err": err,
            "summary": {"grids": len(cases), "grids_evaluated_in_coq(check_cvcase)": neval,
                        "grids_model_mismatch": len(mism),
                        "send_out_state": {"empty_target_cell": stats["out_empty"],
                                           "occupied_confirmed": stats["out_exchanged"],
                                           "occupied_rejected": stats["out_rejected"],
                                           "composite_handler_grids": sum(1 for c in cases if c.get("handler") == "composite"),
                                           "composite_targets: max|target charge| / estimator dipole charge": {
                                               "n": len(stats["out_composite_target_charge_ratio"]),
                                               "below_1": sum(1 for x in stats["out_composite_target_charge_ratio"] if x < 1),
                                               "equal_1": sum(1 for x in stats["out_composite_target_charge_ratio"] if x == 1),
                                               "above_1": sum(1 for x in stats["out_composite_target_charge_ratio"] if x > 1)}}, "grid_shapes": dims, "send_event_time_calls": nq,
                        "calls_checked_completely": stats["glue_queries"], "walker_tables_checked": stats["glue_tables"],
                        "f5_class_calls": len(f5)},
            "explanation": "Handler glue: the real LeafUnitCellVetoEventHandler (send_event_time is inherited from "
                           "CellVetoEventHandler, as for CompositeObjectCellVetoEventHandler) initialised on %d real "
                           "CuboidPeriodicCells grids (1-3 dimensions, cubic and non-cubic, root-level and composite "
                           "in-states, cell level 1 and 2) with a stub estimator; %d send_event_time calls compared "
                           "with the Python oracle (event time bit-exact and against the exact rational, target = "
                           "translate(active cell, offset) by index arithmetic, bound lookup, walker choice by the sign "
                           "of the charge factor) AND with the binary64 model coq/Model/CellVeto.v inside Coq "
                           "(check_cvcase: walker totals / means from max(bound, 0), sampled offset, bit-exact event "
                           "time via Model/Time.time_add, target = CellIndex.translate, bounding rate, confirmation); "
                           "LeafUnitCellVetoEventHandler.send_out_state driven for root-level units (empty target cell "
                           "-> in-state unchanged, occupied -> confirmation against the recorded bound, velocity "
                           "hand-over); CompositeObjectCellVetoEventHandler driven on composite in-states of 2 and 3 point "
                           "masses with target composite objects whose charges vary independently of the estimator's "
                           "reference dipole charge: the upper limit of the confirmation draw must be exactly the "
                           "stored bound times |charge factor of the active unit| (the table its lifting fills is "
                           "C05's _fill_lifting glue)."
                           % (len(cases), nq)}
