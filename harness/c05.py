"""C05 — lifting schemes route the probability flow so that every unit's outflow is matched
(DESIGN.md section 5, C05).

Streams (all through the real classes jellyfysh.lifting.{InsideFirst,OutsideFirst,Ratio}Lifting):
  X  exact numbers (a duck-typed wrapper around fractions.Fraction absorbs the code's 0.0 literals);
     arbitrary rational rates; compared exactly with the Q model inside Coq; the flow-balance oracle
     integrates the implementation's selection over the whole range of the draw;
  D  dyadic float rates / draws (every float operation exact): compared exactly;
  G  generic doubles: identifier only, away from break points (margin 2^-40 relative to the total);
  E  edge stream (no / several / non-positive active unit, unbalanced and empty tables): errors and
     fall-through compared exactly with the model.
Finding F4 (boundary draw: compared position == 0 selects a zero-rate unit) is probed in every run.
"""
import json
import os
from fractions import Fraction as Fr

import common as C
from common import f2b, b2f

HEADER = ("From Coq Require Import QArith ZArith.\n"
          "Require Import JF.Model.Lifting JF.Model.LiftingCases.\nOpen Scope Q_scope.")
SCHEMES = ("inside", "outside", "ratio")
COQ_S = {"inside": "InsideFirst", "outside": "OutsideFirst", "ratio": "Ratio"}
MARGIN = Fr(1, 2 ** 40)
MAX_COQ_DRAWS = 36


# ----------------------------------------------------------------------------------------------
# generators
def rnd_fraction(rng):
    k = rng.random()
    if k < 0.15:
        return Fr(0)
    den = rng.choice([1, 2, 3, 4, 5, 7, 8, 10, 16, 100, 1000, 2 ** 20, 3 ** 9])
    num = rng.randrange(-4 * den, 4 * den + 1) if rng.random() < 0.8 else rng.randrange(-10 ** 6, 10 ** 6)
    return Fr(num, den)


def gen_table_x(rng):
    """balanced table of Fractions, size 2..12, with zeros and near-cancelling pairs; at least one positive"""
    while True:
        n = rng.randrange(2, 13)
        vals = []
        while len(vals) < n - 1:
            k = rng.random()
            if k < 0.2 and len(vals) < n - 2:
                x = rnd_fraction(rng)
                eps = Fr(rng.choice([0, 1, -1, 3]), rng.choice([10 ** 9, 2 ** 40, 10 ** 15, 7 ** 12]))
                vals += [x, -x + eps]
            else:
                vals.append(rnd_fraction(rng))
        vals = vals[:n - 1]
        if rng.random() < 0.25:  # equal rates, ties between cumulative sums
            v = rng.choice(vals)
            for _ in range(rng.randrange(1, 3)):
                vals[rng.randrange(len(vals))] = v
        vals.append(-sum(vals))
        rng.shuffle(vals)
        if any(v > 0 for v in vals):
            return vals


def gen_table_d(rng):
    """balanced table of dyadic floats k/2^e, |k| < 2^10, e <= 6; positive rates often powers of two"""
    while True:
        n = rng.randrange(2, 13)
        e = rng.randrange(0, 7)
        vals = []
        for _ in range(n - 1):
            k = rng.random()
            if k < 0.15:
                vals.append(0)
            elif k < 0.45:
                vals.append(2 ** rng.randrange(0, 9))
            else:
                vals.append(rng.randrange(-1023, 1024))
        vals.append(-sum(vals))
        rng.shuffle(vals)
        if any(v > 0 for v in vals):
            return [v / 2.0 ** e for v in vals]


def gen_table_g(rng):
    while True:
        n = rng.randrange(2, 13)
        scale = 10.0 ** rng.randrange(-6, 7)
        vals = []
        for _ in range(n - 1):
            k = rng.random()
            if k < 0.1:
                vals.append(0.0)
            elif k < 0.2 and vals:
                vals.append(-vals[-1] * (1 + rng.choice([0.0, 1e-12, -1e-9])))
            else:
                vals.append(rng.uniform(-1, 1) * scale * 10.0 ** rng.randrange(-3, 1))
        s = 0.0
        for v in vals:
            s += v
        vals.append(-s)
        rng.shuffle(vals)
        if any(v > 0 for v in vals) and any(v < 0 for v in vals):
            return vals


def prefix(xs):
    out = [Fr(0)]
    for x in xs:
        out.append(out[-1] + x)
    return out


def structure(tab):
    """tab: list of Fraction rates -> (cumulative negative magnitudes, prefix sums of positives, S-)"""
    cn = prefix([-r for r in tab if r <= 0])
    pp = prefix([r for r in tab if r > 0])
    return cn, pp, cn[-1]


def candidates(tab, a, scheme):
    """superset of the break points of  u -> selected id  (all offsets a scheme could plausibly use)"""
    cn, pp, S = structure(tab)
    q = tab[a]
    pts = set()
    if scheme == "ratio":
        if S > 0:
            pts = {c / S for c in cn}
    else:
        for c in cn:
            for p in pp:
                for x in (c - p, p - c, S - c - p, p + c - S, pp[-1] - p - c, c + p - pp[-1]):
                    pts.add(x / q)
    pts = sorted({x for x in pts if 0 < x < 1} | {Fr(0), Fr(1)})
    mids = [(pts[i] + pts[i + 1]) / 2 for i in range(len(pts) - 1)]
    return pts, mids


def position(tab, a, scheme, u1, u2):
    """exact position compared with the cumulative sums (used only to keep the generic-double stream away
    from break points and to classify F4)"""
    cn, pp, S = structure(tab)
    P = sum((r for r in tab[:a] if r > 0), Fr(0))
    if scheme == "inside":
        return P + u1 * tab[a]
    if scheme == "outside":
        return S - P - u1 * tab[a]
    return u2 * S


# ----------------------------------------------------------------------------------------------
# encoding
def encx(fr):
    return [fr.numerator, fr.denominator]


def enc(mode, v):
    return encx(Fr(v)) if mode == "X" else f2b(v)


def decq(mode, v):
    """encoded value -> Fraction (exact value of the float in F mode)"""
    if v is None:
        return None
    return Fr(int(v[0]), int(v[1])) if mode == "X" else Fr(b2f(v))


def coq_res(r, ids):
    """implementation result -> Coq lres term; the index is the position of the id among the non-positive units"""
    if isinstance(r, list):
        return {"AssertionError": "LAssertionError", "LiftingSchemeError": "LNotRecorded",
                "IndexError": "LIndexError"}.get(r[1])
    if r in ids:
        return "(LOk %d %s)" % (ids.index(r), zz(r))
    return "(LOk 999999 %s)" % zz(r)


def zz(n):
    return "(%d)%%Z" % int(n)


def coq_entries(tab_fr, actives):
    return C.coq_list(["(%s, %s, %s)" % (C.coq_q(r), zz(i), C.coq_bool(i in actives))
                        for i, r in enumerate(tab_fr)])


def coq_utable(tab_fr):
    return C.coq_list(["(%s, %s)" % (C.coq_q(r), zz(i)) for i, r in enumerate(tab_fr)])


# ----------------------------------------------------------------------------------------------
# jobs
class Job(object):
    """one table + queries; ids are 0..n-1 in insertion order (distinct)"""

    def __init__(self, stream, mode, tab, kind="balanced"):
        self.stream, self.mode, self.tab, self.kind = stream, mode, tab, kind
        self.tab_fr = [Fr(v) for v in tab]
        self.queries = []      # [scheme, active, u1, u2, want_state, u2b] (raw numbers)
        self.tags = []         # per query: dict(coq=bool, oracle=("pt"|"mid", a, idx) ...)
        self.res = None

    def add(self, scheme, active, u1, u2, want_state=False, u2b=None, **tag):
        self.queries.append([scheme, active, u1, u2, want_state, u2b])
        self.tags.append(tag)

    def payload(self):
        m = self.mode
        return {"mode": m, "table": [[enc(m, r), i] for i, r in enumerate(self.tab)],
                "queries": [[s, a, enc(m, u1), enc(m, u2), ws, None if u2b is None else enc(m, u2b)]
                            for s, a, u1, u2, ws, u2b in self.queries]}

    def neg_ids(self):
        return [i for i, r in enumerate(self.tab_fr) if r <= 0]

    def replay(self):
        d = self.payload()
        d.update({"stream": self.stream, "kind": self.kind})
        return d


def make_x_job(rng, tab):
    job = Job("X", "X", tab)
    pos = [i for i, r in enumerate(tab) if r > 0]
    half = Fr(1, 2)
    for scheme in SCHEMES:
        acts = pos if scheme != "ratio" else [rng.choice(pos), pos[0], pos[-1]]
        for a in dict.fromkeys(acts):
            pts, mids = candidates(tab, a, scheme)
            for kind, xs in (("pt", pts), ("mid", mids)):
                for k, x in enumerate(xs):
                    u1, u2 = (x, half) if scheme != "ratio" else (Fr(rng.randrange(0, 9), 8), x)
                    job.add(scheme, a, u1, u2, oracle=(kind, a, k))
    # state and second call on one query
    a = rng.choice(pos)
    u = Fr(rng.randrange(0, 17), 16)
    job.add("inside", a, u, half, want_state=True, state=True)
    s = rng.choice(SCHEMES)
    job.add(s, a, u, Fr(rng.randrange(0, 17), 16), u2b=Fr(rng.randrange(0, 17), 16), twice=True)
    return job


def make_d_job(rng, tab):
    job = Job("D", "F", tab)
    pos = [i for i, r in enumerate(tab) if r > 0]
    tab_fr = job.tab_fr
    for scheme in SCHEMES:
        for a in pos:
            us = {0.0, 1.0, rng.randrange(1, 64) / 64.0, rng.randrange(1, 64) / 64.0}
            q = tab_fr[a]
            if (q.numerator & (q.numerator - 1)) == 0:
                # power-of-two active rate: the break points are exactly representable draws
                pts, _ = candidates(tab_fr, a, scheme if scheme != "ratio" else "inside")
                for x in rng.sample(pts, min(4, len(pts))):
                    us.add(float(x))
            if scheme == "ratio":
                # u2 * S- is exact: S- has at most 10+4 significant bits, u2 has 6
                for u2 in (0.0, 1.0, rng.randrange(1, 64) / 64.0, rng.randrange(1, 64) / 64.0):
                    job.add(scheme, a, rng.randrange(0, 65) / 64.0, u2)
            else:
                for u in sorted(us):
                    job.add(scheme, a, u, 0.5)
    a = rng.choice(pos)
    job.add("outside", a, rng.randrange(0, 65) / 64.0, 0.5, want_state=True, state=True)
    job.add(rng.choice(SCHEMES), a, rng.randrange(0, 65) / 64.0, 0.25, u2b=0.75, twice=True)
    return job


def make_g_job(rng, tab):
    job = Job("G", "F", tab)
    pos = [i for i, r in enumerate(tab) if r > 0]
    for scheme in SCHEMES:
        for a in pos:
            for u in (0.0, rng.random(), rng.random(), rng.random()):
                job.add(scheme, a, u, rng.random() if rng.random() < 0.9 else 0.0)
    return job


def make_edge_jobs(rng):
    jobs = []
    half = Fr(1, 2)

    def J(tab, kind):
        j = Job("E", "X", [Fr(v) for v in tab], kind)
        jobs.append(j)
        return j
    for _ in range(12):
        tab = gen_table_x(rng)
        pos = [i for i, r in enumerate(tab) if r > 0]
        nonpos = [i for i, r in enumerate(tab) if r <= 0]
        j = J(tab, "no-active")
        for s in SCHEMES:
            j.add(s, -1, half, half)
        j = J(tab, "active-nonpositive")
        for s in SCHEMES:
            j.add(s, rng.choice(nonpos), half, half)
        if len(pos) >= 2:
            j = J(tab, "two-actives")
            for s in SCHEMES:
                j.add(s, sorted(rng.sample(pos, 2)), Fr(rng.randrange(0, 9), 8), half, want_state=(s == "inside"),
                      state=(s == "inside"))
        # unbalanced: surplus of positive rate -> position beyond the negative total -> fall-through [-1]
        t2 = list(tab)
        t2[pos[-1]] += Fr(rng.randrange(1, 50), 7)
        j = J(t2, "unbalanced-positive-surplus")
        for s in SCHEMES:
            for a in pos:
                j.add(s, a, Fr(1), Fr(1))
                j.add(s, a, Fr(rng.randrange(0, 9), 8), Fr(rng.randrange(0, 9), 8))
        t3 = list(tab)
        t3[nonpos[-1]] -= Fr(rng.randrange(1, 50), 7)
        j = J(t3, "unbalanced-negative-surplus")
        for s in SCHEMES:
            for a in pos:
                j.add(s, a, Fr(rng.randrange(0, 9), 8), Fr(rng.randrange(0, 9), 8))
    j = J([1, 2, Fr(1, 3)], "only-positive")
    for s in SCHEMES:
        for a in (0, 1, 2):
            j.add(s, a, half, half)
            j.add(s, a, Fr(0), Fr(0))
    j = J([], "empty")
    for s in SCHEMES:
        j.add(s, -1, half, half)
    j = J([0, 0, -1], "no-positive")
    for s in SCHEMES:
        j.add(s, -1, half, half)
        j.add(s, 0, half, half)
    return jobs


def f4_probe_jobs():
    """the exact reproducer of finding F4, on production floats and on exact numbers"""
    jobs = []
    for mode in ("F", "X"):
        j = Job("P", mode, [1.0, 0.0, -1.0] if mode == "F" else [Fr(1), Fr(0), Fr(-1)], "f4-probe")
        z, h = (0.0, 0.5) if mode == "F" else (Fr(0), Fr(1, 2))
        j.add("inside", 0, z, h)
        j.add("ratio", 0, h, z)
        j.add("outside", 0, z, h)
        jobs.append(j)
        j = Job("P", mode, [0.0, -1.0, 1.0] if mode == "F" else [Fr(0), Fr(-1), Fr(1)], "f4-probe-outside")
        one = 1.0 if mode == "F" else Fr(1)
        j.add("outside", 2, one, h)
        jobs.append(j)
    return jobs


# ----------------------------------------------------------------------------------------------
def run_impl(ctx, jobs):
    chunks = [jobs[i:i + 40] for i in range(0, len(jobs), 40)]
    outs = C.run_driver_parallel(ctx, "c05_lifting", [{"jobs": [j.payload() for j in ch]} for ch in chunks])
    k = 0
    for o in outs:
        for r in o["out"]:
            jobs[k].res = r
            k += 1


def in_range(scheme, u1, u2):
    if scheme == "inside":
        return 0 < u1 <= 1
    if scheme == "outside":
        return 0 <= u1 < 1
    return 0 < u2 <= 1


def oracle_job(job, stats):
    """The property stated on the implementation's outputs, with exact rationals (no Coq model).
    Returns (list of failure messages with query index, list of F4-class query indices)."""
    fails, f4 = [], []
    tab = job.tab_fr
    if job.kind not in ("balanced", "f4-probe", "f4-probe-outside"):
        return fails, f4
    n = len(tab)
    S = structure(tab)[2]
    # (1) per draw: the selected unit has a strictly negative rate
    for qi, (q, r) in enumerate(zip(job.queries, job.res)):
        scheme, a, u1, u2 = q[0], q[1], Fr(q[2]), Fr(q[3])
        sel = r["r"]
        if isinstance(sel, list):
            fails.append((qi, "exception %s on a balanced table with a positive active unit" % sel[1]))
            continue
        if not (isinstance(sel, int) and 0 <= sel < n):
            fails.append((qi, "returned identifier %r is not in the table" % (sel,)))
            continue
        if job.stream == "G":
            p = position(tab, a, scheme, u1, u2)
            cn = structure(tab)[0]
            if min(abs(p - c) for c in cn) <= MARGIN * max(S, Fr(1, 10 ** 300)):
                stats["g_near_breakpoint"] += 1
                continue
        if tab[sel] < 0:
            continue
        pos_val = decq(job.mode, r.get("pos"))
        if tab[sel] == 0 and pos_val == 0:
            f4.append(qi)                      # finding F4: boundary draw, compared position exactly 0
        elif in_range(scheme, u1, u2) or tab[sel] > 0 or pos_val != 0:
            fails.append((qi, "scheme %s selected unit %d with non-negative rate %s (active %d, u1=%s, u2=%s, "
                              "compared position %s)" % (scheme, sel, tab[sel], a, u1, u2, pos_val)))
    if job.stream != "X" or job.kind != "balanced" or fails:
        return fails, f4
    # (2) global balance: integrate  u -> selected id  over the deciding draw
    by = {}
    for qi, tag in enumerate(job.tags):
        if "oracle" in tag:
            kind, a, k = tag["oracle"]
            by.setdefault((job.queries[qi][0], a), {"pt": {}, "mid": {}})[kind][k] = qi
    for scheme in SCHEMES:
        flow = [Fr(0)] * n
        acts = [a for (s, a) in by if s == scheme]
        for a in acts:
            d = by[(scheme, a)]
            ui = 2 if scheme != "ratio" else 3
            pts = [Fr(job.queries[d["pt"][k]][ui]) for k in range(len(d["pt"]))]
            for k in range(len(pts) - 1):
                sel = job.res[d["mid"][k]]["r"]
                w = tab[a] if scheme != "ratio" else Fr(1)
                flow[sel] += w * (pts[k + 1] - pts[k])
            stats["pieces"] += len(pts) - 1
        if scheme == "ratio":
            # the ratio scheme does not depend on the active unit: every active sends the same fractions
            fl = {tuple(job.res[by[(scheme, a)]["mid"][k]]["r"] for k in range(len(by[(scheme, a)]["mid"])))
                  for a in acts}
            if len(fl) > 1:
                fails.append((0, "ratio lifting: selection depends on the active unit"))
            flow = [f / len(acts) * sum((r for r in tab if r > 0), Fr(0)) for f in flow]
        for k in range(n):
            want = -tab[k] if tab[k] < 0 else Fr(0)
            if flow[k] != want:
                fails.append((0, "global balance broken for scheme %s: inflow into unit %d is %s, its outflow is %s"
                              % (scheme, k, flow[k], want)))
                break
        stats["balance_checked"] += 1
    return fails, f4


def coq_terms(job, keep=None):
    """-> list of (term, [query indices], malformed) for the correspondence; [keep]: the oracle draws to send"""
    terms = []
    tab = job.tab_fr
    ids = job.neg_ids()
    idonly = job.stream == "G"
    plain = []      # queries with a single active index on a table: LTable
    for qi, (q, r, tag) in enumerate(zip(job.queries, job.res, job.tags)):
        scheme, a, u1, u2, ws, u2b = q
        u1, u2 = Fr(u1), Fr(u2)
        if keep is not None and "oracle" in tag and qi not in keep:
            continue
        e = coq_res(r["r"], ids)
        if e is None:   # an exception the model does not know: a term that is false by construction
            terms.append(("LSel InsideFirst [] 0 0 LIndexError", [qi], True))
            continue
        actives = set(a) if isinstance(a, list) else {a}
        if tag.get("state") and "state" in r:
            neg, sids, rp, sp, arec = r["state"]
            terms.append(("LState %s %s %s %s %s %s %s" % (
                coq_entries(tab, actives), C.coq_q(u1), C.coq_list([C.coq_q(decq(job.mode, x)) for x in neg]),
                C.coq_list([zz(x) for x in sids]), C.coq_q(decq(job.mode, rp)), C.coq_q(decq(job.mode, sp)),
                C.coq_bool(arec)), [qi], False))
        if tag.get("twice"):
            terms.append(("LTwice %s %s %s %s %s %s %s" % (
                COQ_S[scheme], coq_entries(tab, actives), C.coq_q(u1), C.coq_q(u2), C.coq_q(Fr(u2b)), e,
                coq_res(r["r2"], ids) if "r2" in r else e), [qi], False))
            continue
        if isinstance(a, list) or a < 0 or a >= len(tab):
            terms.append(("%s %s %s %s %s %s" % ("LSelId" if idonly else "LSel", COQ_S[scheme],
                                                  coq_entries(tab, actives), C.coq_q(u1), C.coq_q(u2), e), [qi], False))
            continue
        if idonly:
            S = structure(tab)[2]
            p = position(tab, a, scheme, u1, u2)
            if min(abs(p - c) for c in structure(tab)[0]) <= MARGIN * max(S, Fr(1, 10 ** 300)):
                continue
        plain.append((qi, "(%s, %d%%nat, %s, %s, %s)" % (COQ_S[scheme], a, C.coq_q(u1), C.coq_q(u2), e)))
    if plain:
        terms.append(("LTable %s %s %s" % (C.coq_bool(idonly), coq_utable(tab),
                                           C.coq_list([t for _, t in plain])), [qi for qi, _ in plain], False))
    return terms


def thin(rng, job):
    """keep every oracle query for the oracle, but send at most MAX_COQ_DRAWS plain draws per table to Coq"""
    keep = set()
    plain = [qi for qi, t in enumerate(job.tags) if "oracle" in t]
    if len(plain) > MAX_COQ_DRAWS:
        ends = [qi for qi in plain if job.queries[qi][2] in (0, 1) or job.queries[qi][3] in (0, 1)]
        keep = set(ends[:12]) | set(rng.sample(plain, MAX_COQ_DRAWS - min(12, len(ends))))
        return keep
    return None


def run(ctx, replay_jobs=None, replay_glue=None):
    C.build_scratch(ctx)
    rng = ctx.rng
    broken = []
    ok, out, nthm = C.check_props(ctx)
    if not ok:
        broken.append("Props/C05.v does not check: " + out[-800:])
    stats = {"pieces": 0, "balance_checked": 0, "g_near_breakpoint": 0}
    if replay_jobs is not None:
        jobs = replay_jobs
    elif replay_glue is not None:
        jobs = f4_probe_jobs()
    else:
        jobs = load_corpus() + f4_probe_jobs() + make_edge_jobs(rng)
        for _ in range(ctx.n(700, 5000)):
            jobs.append(make_x_job(rng, gen_table_x(rng)))
        for _ in range(ctx.n(500, 4000)):
            jobs.append(make_d_job(rng, gen_table_d(rng)))
        for _ in range(ctx.n(500, 4000)):
            jobs.append(make_g_job(rng, gen_table_g(rng)))
    run_impl(ctx, jobs)
    # determinism on the implementation: the same job again gives the same answers (fresh process, after reset)
    again = [Job(j.stream, j.mode, j.tab, j.kind) for j in jobs[:60]]
    for a, j in zip(again, jobs):
        a.queries, a.tags = list(reversed(j.queries)), list(reversed(j.tags))
    run_impl(ctx, again)
    nondet = [(j, a) for j, a in zip(jobs, again) if [r["r"] for r in j.res] != [r["r"] for r in reversed(a.res)]]

    # oracle
    fails, f4 = [], []
    for ji, job in enumerate(jobs):
        f, k = oracle_job(job, stats)
        fails += [(ji, qi, m) for qi, m in f]
        f4 += [(ji, qi) for qi in k]
    for j, a in nondet:
        fails.append((jobs.index(j), 0, "result depends on something else than table and draws "
                                        "(different answers when the queries are asked in another order)"))
    # correspondence
    terms, owners = [], []
    n_draws = 0
    for ji, job in enumerate(jobs):
        keep = thin(rng, job) if job.stream == "X" and replay_jobs is None else None
        for t, qis, bad in coq_terms(job, keep):
            terms.append(t)
            owners.append((ji, qis))
            n_draws += len(qis)
    neval, bad, nfiles, nok, err = C.eval_cases(ctx, "c05", HEADER, terms, "check_lcase", "lcase", per_file=120)
    if err:
        broken.append("correspondence case files did not evaluate: " + err[-800:])
    mism = [owners[i] for i in bad]

    # handler glue that builds the table (_fill_lifting, fixed-separations send_out_state)
    import c05_glue
    glue = None
    if replay_jobs is None or replay_glue is not None:
        glue = c05_glue.run(ctx, rng, replay_glue)
        gfail = list(glue["fails"])
        if glue["terms"]:
            _, gbad, _, _, gerr = C.eval_cases(ctx, "c05g", HEADER, glue["terms"], "check_lcase", "lcase", per_file=100)
            if gerr:
                broken.append("glue case files did not evaluate: " + gerr[-500:])
            gfail += [(glue["owners"][i], "table built by the handler glue: the model selects another unit than "
                                          "the implementation") for i in gbad]
        if gfail:
            job, m = gfail[0]
            C.violation(ctx, "glue", {"kind": "c05-glue", "job": job, "message": m, "n_failing": len(gfail)},
                        "C05 (table-building glue) fails on the implementation: " + m)

    # verdicts
    if f4:
        if any(k["id"] == "F4" for k in C.known_open("C05")):
            ji, qi = f4[0]
            q = jobs[ji].queries[qi]
            C.known(ctx, "F4", "boundary draw: %d draws with compared position == 0 select a zero-rate unit, e.g. %s "
                    "table %s active=%s u1=%s u2=%s -> unit %s (rate 0)" % (
                        len(f4), q[0], [str(x) for x in jobs[ji].tab], q[1], q[2], q[3], jobs[ji].res[qi]["r"]))
        else:
            ji, qi = f4[0]
            fails.insert(0, (ji, qi, "boundary draw with position 0 selects a zero-rate unit (finding F4 is not listed as open)"))
    if fails:
        ji, qi, m = fails[0]
        C.violation(ctx, "oracle", {"kind": "c05-jobs", "jobs": [shrink_job(jobs[ji], qi)], "message": m,
                                    "impl_result": jobs[ji].res[qi], "n_failing": len(fails)},
                    "C05 fails on the implementation: " + m)
    elif mism:
        ji, qis = mism[0]
        C.violation(ctx, "correspondence", {
            "kind": "c05-jobs", "jobs": [jobs[ji].replay()],
            "message": "lifting model and implementation disagree on %d case(s) (first: table %s, queries %s); the "
                       "exact oracle (never-nonnegative, global balance) found no failing input; correspondence "
                       "JF.Model.LiftingCases.check_lcase no longer checks, so theorems select_window / flow_balance "
                       "of Props/C05.v are no longer tied to the code" % (len(mism), jobs[ji].tab, qis[:5])},
            "lifting model and implementation disagree", nofail=True)
    elif broken:
        C.violation(ctx, "obligation", {"kind": "obligation", "broken": broken}, broken[0][:300], nofail=True)

    dist = {}
    for j in jobs:
        key = j.stream + ":" + j.kind
        dist[key] = dist.get(key, 0) + 1
    nq = sum(len(j.queries) for j in jobs)
    sizes = {}
    for j in jobs:
        sizes[len(j.tab)] = sizes.get(len(j.tab), 0) + 1
    C.write_evidence(ctx, {
        "evaluations": nq + (glue["n"] if glue else 0),
        "distinct_nontrivial": len({(j.stream, tuple(j.tab)) for j in jobs if len(j.tab) >= 2}),
        "rule": "distinct (stream, table) pairs with at least 2 units; every table is queried for every scheme, every "
                "positive unit as the active one (every position in the insertion order), at both end points of the "
                "draw, at every candidate break point and between them",
        "samples": [{"stream": j.stream, "kind": j.kind, "table": [str(x) for x in j.tab],
                     "query(scheme, active, u1, u2)": [str(x) for x in j.queries[0][:4]], "impl": j.res[0]}
                    for j in jobs[::max(1, len(jobs) // 6)][:6] if j.queries],
        "input_distribution": {"tables_by_stream_and_kind": dist, "table_sizes": sizes,
                               "draws_sent_to_coq": n_draws, "coq_case_terms": len(terms),
                               "generic_double_draws_skipped_near_breakpoint(margin 2^-40 * total)":
                                   stats["g_near_breakpoint"],
                               "balance_integrals(table x scheme)": stats["balance_checked"],
                               "constant_pieces_integrated": stats["pieces"],
                               "f4_class_draws": len(f4),
                               "handler_glue": glue["summary"] if glue else "not run in table replay"},
        "model_vs_impl_mismatches": len(mism),
        "oracle_failures": len(fails),
        "traces_validated_against_impl": n_draws,
        "coq_case_terms_evaluated": neval,
        "case_files": nfiles, "case_files_ok": nok,
        "explanation": "Props/C05.v re-checked (%d theorems incl. flow_balance for all table lengths); exact "
                       "correspondence of Model/Lifting.v with the real lifting classes evaluated in Coq on the X "
                       "(exact rational), D (dyadic float) and E (edge/error) streams, identifier-only on generic "
                       "doubles away from break points; Python oracle independent of the model: never-nonnegative on "
                       "every draw, global balance by exact integration of the implementation's selection over the "
                       "draw (piecewise constant between candidate break points); table-building glue: the real "
                       "_fill_lifting (TwoCompositeObjectBoundingPotentialEventHandler) and the insert loop of the "
                       "fixed-separations handler's send_out_state driven on stub handlers with exact numbers, "
                       "recorded insert calls compared with the factor-derivative table and run through the model; "
                       "additionally the real send_out_state of real instances of the three handlers that call "
                       "_fill_lifting (summed / cell bounding potential / composite-object cell veto), composite "
                       "objects of 2-4 point masses, charge=None or a charge with exact zeros in every position (first, "
                       "middle, last, two zeros): the inserted table must equal the table computed in Fractions from "
                       "the stub potential's derivatives times the charges"
                       % nthm,
        "trusted_base": TRUSTED,
    }, ASSUME)


def shrink_job(job, qi):
    """replay data: the table with only the failing query (or all queries for an integral failure)"""
    d = job.replay()
    if "oracle" not in job.tags[qi] or qi != 0:
        d["queries"] = [d["queries"][qi]]
    return d


TRUSTED = [
    "hand-written model coq/Model/Lifting.v (lifting.py and the three schemes transcribed over Q)",
    "coq/Base/QInterval.v (probabilities as lengths of half-open rational intervals; no measure theory)",
    "harness/c05.py + drivers/c05_lifting.py: exact-number wrapper X around fractions.Fraction, patched "
    "random.uniform = a + (b - a) * u (CPython's formula), float bit (de)serialisation",
]
ASSUME = [
    "a single active unit (the class's documented domain); with several active units the model reuses the draw u1",
    "the draw of random.uniform(a, b) is a + (b - a) * u with u = random.random(); uniformity of u is assumed",
    "the flow-balance oracle assumes the implementation's selection is constant between consecutive candidate "
    "break points (all +-(c_j - p_i)/q_a, +-(S - c_j - p_i)/q_a); it is evaluated at every candidate and mid point",
    "the tie of the model to the code is differential (real classes run on exact numbers and floats), not a "
    "semantics of Python; the table-building glue is driven on stub handler objects (stub potential returning "
    "prescribed pairwise derivatives), not inside a full mediator run",
]


def load_corpus():
    p = os.path.join(C.VERIF, "corpus", "C05", "jobs.json")
    if not os.path.exists(p):
        return []
    return [job_from_replay(d) for d in json.load(open(p))]


def job_from_replay(d):
    mode = d["mode"]
    tab = [Fr(int(r[0]), int(r[1])) if mode == "X" else b2f(r) for r, _ in d["table"]]
    j = Job(d.get("stream", "X"), mode, tab, d.get("kind", "balanced"))
    if j.stream == "X" and j.kind == "balanced" and len(d["queries"]) > 1 and any(v > 0 for v in tab):
        # an integral failure: regenerate the full query set deterministically
        import random as _r
        return make_x_job(_r.Random(0), tab)

    def dv(v):
        return None if v is None else (Fr(int(v[0]), int(v[1])) if mode == "X" else b2f(v))
    for s, a, u1, u2, ws, u2b in d["queries"]:
        j.add(s, a, dv(u1), dv(u2), want_state=ws, u2b=dv(u2b), **({"state": True} if ws else {}),
              **({"twice": True} if u2b is not None else {}))
    return j


def replay(ctx, path):
    data = json.load(open(path))
    if data.get("kind") == "c05-glue":
        run(ctx, replay_glue=data["job"])
        return
    if data.get("kind") != "c05-jobs":
        print("replay file holds no concrete input (%s)" % data.get("kind"))
        run(ctx, replay_jobs=f4_probe_jobs())
        return
    run(ctx, replay_jobs=[job_from_replay(d) for d in data["jobs"]])
