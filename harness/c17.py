"""C17 — samples and end of run at nominal times on a fully time-sliced state (DESIGN.md section 5, C17)."""
import common as C
import hist

TRUSTED = [
    "hand-written models coq/Model/Sampling.v (fixed-interval handlers iterate Time.__add__; end of run = "
    "Time.from_float) on top of Model/Time.v (C14) and Model/Kinematics.v (C07)",
    "monkeypatching tracer harness/drivers/tracer.py (records every candidate time, every write call and the state "
    "handed to the output handler)",
]
ASSUME = [
    "tie to the code: the recorded candidate times of every sampling / dumping handler must equal the model's "
    "iteration bit for bit; the end-of-run candidate must equal from_float(end time); at every sampling / end-of-run "
    "leg every moving unit of the model's global state (== real state by after_ok) carries the commit time",
    "number of samples vs number of sampling times before the end: Model/SampleCount.v replays the committed legs of "
    "every traced run with a fixed-interval handler and a configured end time (check_ncase: the pending sample is the "
    "last sample + interval, no committed event is later than the pending sample or the end, the end of run is the last "
    "leg; theorems sample_count / sample_count_real in Props/C17count.v), and an exact-rational oracle on runs that "
    "reach the end",
]


def encoders():
    return [("c17_sampling", hist.SAMPLING_HEADER, "check_scase", "scase", lambda tr, n: hist.encode_scase(tr, n))] + \
        [("c17_count%d" % w, hist.COUNT_HEADER, "check_ncase", "ncase",
          (lambda w: lambda tr, n: hist.encode_ncase(tr, n, w))(w)) for w in range(2)]


def jobs(ctx):
    """runs that reach their end: short end times, intervals chosen to coincide with chain times"""
    cfgs = hist.shipped_configs(ctx)
    js = []
    rng = ctx.rng
    for c in cfgs:
        ini = open(ctx.scratch + "/jellyfysh/" + c).read()
        if "[FixedIntervalSamplingEventHandler]" not in ini:
            continue
        for _ in range(ctx.n(1, 6)):
            dt = rng.choice([0.125, 0.25, 0.3, 0.56789, 0.1, 1.0 / 3.0])
            ov = {"FixedIntervalSamplingEventHandler": {"sampling_interval": dt},
                  "FinalTimeEndOfRunEventHandler": {"end_of_run_time": rng.choice([1.0, 2.5, 8 * dt, 3.3, 1.7])}}
            for sec in ("SingleIndependentActivePeriodicDirectionEndOfChainEventHandler",
                        "SingleIndependentActiveSequentialDirectionEndOfChainEventHandler"):
                if "[" + sec + "]" in ini:
                    ov[sec] = {"chain_time": rng.choice([dt, 2 * dt, dt / 2, 0.78965])}
            if rng.random() < 0.4:
                ov["FixedIntervalSamplingEventHandler"]["first_event_time_zero"] = "True"
            if rng.random() < 0.6:
                # the end-of-run handler connected to the sampling handler's output handler: the final state is
                # written as well
                import re
                m = re.search(r"\[FixedIntervalSamplingEventHandler\][^\[]*?output_handler\s*=\s*(\S+)", ini, re.S)
                if m:
                    ov["FinalTimeEndOfRunEventHandler"]["output_handler"] = m.group(1)
            js.append((c, ov))
    # sampling intervals that are long compared with the time between events: units are activated and stopped
    # again between two consecutive samples (a state handed to the output handler from a stale cache shows them
    # where they were before)
    for c in cfgs:
        if c.endswith("coulomb_atoms/power_bounded.ini") or c.endswith("dipoles/atom_factors.ini"):
            js.append((c, {"FixedIntervalSamplingEventHandler": {"sampling_interval": 1.7},
                           "FinalTimeEndOfRunEventHandler": {"end_of_run_time": 400.0},
                           # the tracer itself must not extract the global state at every leg here (observer effect)
                           "_tracer": {"light": True}}))
    # two fixed-interval sampling taggers with different intervals and different output handlers
    two = "config_files/2018_JCP_149_064113/coulomb_atoms/power_bounded.ini"
    if two in cfgs:
        for (d1, d2, te) in ((0.3, 0.7, 5.0), (0.25, 0.4, 3.1)):
            js.append((two, {
                "TagActivator": {"taggers": "coulomb (factor_type_map_in_state_tagger), sampling (no_in_state_tagger), "
                                            "sampling_two (no_in_state_tagger), "
                                            "end_of_chain (active_global_state_in_state_tagger), "
                                            "start_of_run (no_in_state_tagger), end_of_run (no_in_state_tagger)"},
                "FixedIntervalSamplingEventHandler": {"sampling_interval": d1},
                "SamplingTwo": {"create": "sampling_two", "trash": "sampling_two",
                                "event_handler": "second_sampler (fixed_interval_sampling_event_handler)"},
                "SecondSampler": {"sampling_interval": d2, "output_handler": "second_output"},
                "InputOutputHandler": {"output_handlers": "separation_output_handler, "
                                                          "second_output (separation_output_handler)"},
                "SecondOutput": {"filename": "output/second_output.dat"},
                "EndOfRun": {"trash": "end_of_chain, coulomb, sampling, sampling_two, end_of_run"},
                "StartOfRun": {"create": "coulomb, sampling, sampling_two, end_of_chain, end_of_run"},
                "FinalTimeEndOfRunEventHandler": {"end_of_run_time": te}}))
    return js + [(c, {}) for c in cfgs]


def handler_level(ctx):
    """send_out_state of the sampling / end-of-run handlers on constructed active states (several active branches,
    also two active point masses of ONE composite object and whole composite objects): every unit of every branch
    must come back time-sliced to the event time — bit-exact against Model/TimeSlice.v inside Coq, and within the
    rounding bound of the exact trajectory (Fractions)."""
    import math
    from fractions import Fraction as Fr
    from common import f2b, b2f
    rng = ctx.rng
    cases = []
    for _ in range(ctx.n(120, 2000)):
        dim = rng.choice([2, 3])
        Ls = [rng.choice([1.0, 2.0, 0.7, 3.5])] * dim if rng.random() < 0.5 else \
            [rng.choice([1.0, 2.0, 0.7, 3.5, 1.5]) for _ in range(dim)]
        interval = rng.choice([0.25, 0.3, 0.56789, 1.0])
        k = rng.randrange(1, 12)
        T = k * interval
        d = rng.randrange(dim)
        v = [0.0] * dim
        v[d] = rng.choice([1.0, 2.0, 0.5])

        def unit(ident, moving, scale=1.0):
            ts = rng.random() * T
            return {"id": ident, "pos": [f2b(rng.random() * L) for L in Ls],
                    "vel": [f2b(x * scale) for x in v] if moving else None,
                    "ts": [f2b(math.floor(ts)), f2b(ts - math.floor(ts))] if moving else None, "children": []}
        kind = rng.choice(["leaf", "two_leaves_one_object", "whole_object", "two_objects", "atoms"])
        branches = []
        if kind == "atoms":
            branches = [unit([i], True) for i in range(rng.randrange(1, 4))]
        elif kind == "leaf":
            r = unit([0], True, 1.0 / 3)
            r["children"] = [unit([0, 1], True)]
            branches = [r]
        elif kind == "two_leaves_one_object":
            for j in (0, 2):
                r = unit([0], True, 2.0 / 3)
                r["children"] = [unit([0, j], True)]
                branches.append(r)
        elif kind == "whole_object":
            r = unit([1], True)
            r["children"] = [unit([1, j], True) for j in range(3)]
            branches = [r]
        else:
            for i in (0, 2):
                r = unit([i], True, 1.0 / 3)
                r["children"] = [unit([i, 1], True)]
                branches.append(r)
        if rng.random() < 0.25:
            # a composite object whose own time stamp already IS the event time while its point masses carry older
            # ones (every unit has to be advanced, not only branches whose root is behind)
            for b in branches:
                if b["children"]:
                    b["ts"] = [f2b(math.floor(T)), f2b(T - math.floor(T))]
        cases.append({"L": [f2b(x) for x in Ls], "handler": rng.choice(["sampling", "sampling", "end_of_run"]),
                      "interval": f2b(interval if True else 0.0), "k": k, "branches": branches, "kind": kind})
    for c in cases:
        if c["handler"] == "end_of_run":
            c["interval"] = f2b(c["k"] * b2f(c["interval"]))
    chunks = [cases[i:i + 200] for i in range(0, len(cases), 200)]
    outs = []
    for o in C.run_driver_parallel(ctx, "c17_slice", [{"cases": ch} for ch in chunks]):
        outs += o["out"]
    fails, terms, kinds = [], [], {}
    for c, o in zip(cases, outs):
        kinds[c["kind"]] = kinds.get(c["kind"], 0) + 1
        if "exc" in o:
            fails.append((c, "send_out_state raised %s: %s" % (o["exc"], o["msg"])))
            continue
        if o["n_branches"] != len(c["branches"]) or len(o["after"]) != len(o["before"]):
            fails.append((c, "%d branches handed in, %d returned" % (len(c["branches"]), o["n_branches"])))
            continue
        Tq = Fr(b2f(o["T"][0])) + Fr(b2f(o["T"][1]))
        for b, a in zip(o["before"], o["after"]):
            if b["vel"] is None:
                if a != b:
                    fails.append((c, "a unit without velocity was changed"))
                continue
            if a["ts"] != o["T"] or a["vel"] != b["vel"]:
                fails.append((c, "a moving unit was not stamped with the event time (time stamp %r, event time %r)"
                              % (a["ts"], o["T"])))
                break
            t0 = Fr(b2f(b["ts"][0])) + Fr(b2f(b["ts"][1]))
            for dd in range(len(b["pos"])):
                L = Fr(b2f(c["L"][dd]))
                y = Fr(b2f(b["pos"][dd])) + Fr(b2f(b["vel"][dd])) * (Tq - t0)
                x = Fr(b2f(a["pos"][dd]))
                dist = (x - y) % L
                dist = min(dist, L - dist)
                tol = (abs(Fr(b2f(b["vel"][dd]))) * max(Fr(1), abs(Tq - t0)) + max(abs(y), L)) / 2 ** 50
                if dist > tol or not (0 <= x < L):
                    fails.append((c, "unit not advanced to the event time: off by %.3e" % float(dist)))
                    break

        def bu(u):
            return "(%s, %s, (%d%%Z, %d%%Z))" % (
                C.coq_list(["%d%%Z" % x for x in u["pos"]]),
                "None" if u["vel"] is None else "Some %s" % C.coq_list(["%d%%Z" % x for x in u["vel"]]),
                (u["ts"] or [0, 0])[0], (u["ts"] or [0, 0])[1])
        terms.append("{| sl_L := %s; sl_T := (%d%%Z, %d%%Z); sl_in := %s; sl_out := %s |}" % (
            C.coq_list(["%d%%Z" % x for x in c["L"]]), o["T"][0], o["T"][1],
            C.coq_list([bu(u) for u in o["before"]]), C.coq_list([bu(u) for u in o["after"]])))
    nbad = 0
    if terms:
        neval, bad, nf, nok, err = C.eval_cases(ctx, "c17_slice", "Require Import JF.Base.F64 JF.Model.SliceCases.\n"
                                                "From Coq Require Import ZArith.", terms, "check_slcase", "slcase",
                                                per_file=150)
        nbad = len(bad)
        if err:
            fails.append((None, "slice case files did not evaluate: " + err[-300:]))
    if fails:
        c, m = fails[0]
        C.violation(ctx, "handler", {"kind": "c17-handler", "case": c, "message": m, "n_failing": len(fails)},
                    "C17 fails on the implementation (handler level): " + m)
    elif nbad:
        C.violation(ctx, "handler-correspondence", {"kind": "c17-handler", "message": "out-state differs bit-wise from "
                    "Model/TimeSlice.v in %d cases; correspondence check_slcase no longer checks" % nbad},
                    "time-slice model and sampling handler disagree", nofail=True)
    ctx.notes.append("handler level: %d constructed active states %r, %d failures, %d bit-level mismatches"
                     % (len(cases), kinds, len(fails), nbad))


def run(ctx, replay_jobs=None):
    C.build_scratch(ctx, exts=("heap", "mic", "ipc"))
    if replay_jobs is None:
        handler_level(ctx)
    hist.run_history_check(
        ctx, "C17", ("C17",), encoders(), TRUSTED, ASSUME,
        "Props/C17.v re-checked; sampling / dumping / end-of-run candidate times replayed bit-exactly through "
        "Model/Sampling.v in Coq, sampled states checked to be fully time-sliced; oracle: k-th sample within (k+1) "
        "ulp(1+interval) of k*interval, run ends at the configured end time, number of samples == number of sampling "
        "times before the end, written state == committed state with every moving unit stamped with the sample time",
        jobs=None if replay_jobs else jobs(ctx), max_legs=ctx.n(400, 3000), replay_jobs=replay_jobs, prebuilt=True)


def replay(ctx, path):
    run(ctx, replay_jobs=hist.replay_payloads(path))
