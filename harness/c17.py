"""C17 — samples and end of run at nominal times on a fully time-sliced state (DESIGN.md section 5, C17)."""
import common as C
import hist

TRUSTED = [
    "hand-written models coq/Model/Sampling.v (fixed-interval handlers iterate Time.__add__; end of run = "
    "Time.from_float) on top of Model/Time.v (C14) and Model/Kinematics.v (C07)",
    "monkeypatching tracer harness/drivers/tracer.py (records every candidate time, every write call and the state "
    "handed to the output handler)",
]
ASSUME = [
    "tie to the code: the recorded candidate times of every sampling / dumping handler must equal the model's "
    "iteration bit for bit; the end-of-run candidate must equal from_float(end time); at every sampling / end-of-run "
    "leg every moving unit of the model's global state (== real state by after_ok) carries the commit time",
    "number of samples vs number of sampling times before the end: exact-rational oracle on runs that reach the end",
]


def encoders():
    return [("c17_sampling", hist.SAMPLING_HEADER, "check_scase", "scase", lambda tr, n: hist.encode_scase(tr, n))]


def jobs(ctx):
    """runs that reach their end: short end times, intervals chosen to coincide with chain times"""
    cfgs = hist.shipped_configs(ctx)
    js = []
    rng = ctx.rng
    for c in cfgs:
        ini = open(ctx.scratch + "/jellyfysh/" + c).read()
        if "[FixedIntervalSamplingEventHandler]" not in ini:
            continue
        for _ in range(ctx.n(1, 6)):
            dt = rng.choice([0.125, 0.25, 0.3, 0.56789, 0.1, 1.0 / 3.0])
            ov = {"FixedIntervalSamplingEventHandler": {"sampling_interval": dt},
                  "FinalTimeEndOfRunEventHandler": {"end_of_run_time": rng.choice([1.0, 2.5, 8 * dt, 3.3, 1.7])}}
            for sec in ("SingleIndependentActivePeriodicDirectionEndOfChainEventHandler",
                        "SingleIndependentActiveSequentialDirectionEndOfChainEventHandler"):
                if "[" + sec + "]" in ini:
                    ov[sec] = {"chain_time": rng.choice([dt, 2 * dt, dt / 2, 0.78965])}
            if rng.random() < 0.4:
                ov["FixedIntervalSamplingEventHandler"]["first_event_time_zero"] = "True"
            if rng.random() < 0.6:
                # the end-of-run handler connected to the sampling handler's output handler: the final state is
                # written as well
                import re
                m = re.search(r"\[FixedIntervalSamplingEventHandler\][^\[]*?output_handler\s*=\s*(\S+)", ini, re.S)
                if m:
                    ov["FinalTimeEndOfRunEventHandler"]["output_handler"] = m.group(1)
            js.append((c, ov))
    return js + [(c, {}) for c in cfgs]


def run(ctx, replay_jobs=None):
    C.build_scratch(ctx, exts=("heap", "mic", "ipc"))
    hist.run_history_check(
        ctx, "C17", ("C17",), encoders(), TRUSTED, ASSUME,
        "Props/C17.v re-checked; sampling / dumping / end-of-run candidate times replayed bit-exactly through "
        "Model/Sampling.v in Coq, sampled states checked to be fully time-sliced; oracle: k-th sample within (k+1) "
        "ulp(1+interval) of k*interval, run ends at the configured end time, number of samples == number of sampling "
        "times before the end, written state == committed state with every moving unit stamped with the sample time",
        jobs=None if replay_jobs else jobs(ctx), max_legs=ctx.n(400, 3000), replay_jobs=replay_jobs, prebuilt=True)


def replay(ctx, path):
    run(ctx, replay_jobs=hist.replay_payloads(path))
