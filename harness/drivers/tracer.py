"""Monkeypatching tracer for real JeLLyFysh runs (no change to /repo).

All wrappers are installed at CLASS level and look up the global TRACER, so that dill-pickled
mediators (dumping) stay picklable and a resumed mediator can be traced as well.

The trace records, per leg of the mediator loop (see single_process_mediator.run):
  active    : identifiers of the extracted active global state (flattened, all nodes with a velocity)
  to_run    : [[handler index, in-state identifiers or None], ...] as returned by the activator
  cands     : [[handler index, [q bits, r bits]], ...] candidate event times pushed to the scheduler
  instates  : {handler index: flattened units of the in-state the candidate was computed from}
  pick      : handler index returned by the scheduler;  time : its candidate time
  out       : flattened out-state units committed
  trash     : handler indices trashed
  write     : output-handler name if the input-output handler's write was called (+ 'wstate' = written state)
  delta     : units of the global state that changed by this leg's commit (full state reconstructible)
  fresh     : {tagger index: [in-state id tuples]} what each tagger generates from scratch at the START of this leg
              (after internal-state update and (de)activation), pending: {tagger index: [id tuples of running handlers]}
  occ       : occupancy internals at the start of this leg (after update)
  draws     : number of random draws in this leg
"""
import functools
import random
import struct
import sys


def f2b(x):
    return struct.unpack("<Q", struct.pack("<d", float(x)))[0]


class StopTrace(Exception):
    pass


TRACER = None


def unit_rec(unit):
    return {
        "id": list(unit.identifier),
        "pos": [f2b(x) for x in unit.position],
        "vel": None if unit.velocity is None else [f2b(x) for x in unit.velocity],
        "ts": None if unit.time_stamp is None else [f2b(unit.time_stamp.quotient), f2b(unit.time_stamp.remainder)],
        "charge": None if unit.charge is None else {k: f2b(v) for k, v in unit.charge.items()},
    }


def flatten(cnodes, out=None, with_tree=False):
    if out is None:
        out = []
    for cnode in cnodes or []:
        if cnode is None:
            continue
        r = unit_rec(cnode.value)
        if with_tree:
            r["w"] = f2b(cnode.weight)
            r["nchildren"] = len(cnode.children)
        out.append(r)
        flatten(cnode.children, out, with_tree)
    return out


def ids_of(x):
    """Canonical JSON form of an in-state identifier collection."""
    if x is None:
        return None
    return [list(i) for i in x]


class Tracer:
    def __init__(self, max_legs, snapshot_every=1, record_fresh=True, record_instates=True, light=False):
        self.max_legs = max_legs
        self.legs = []
        self.cur = None
        self.mediator = None
        self.hidx = {}
        self.handlers = []
        self.taggers = []
        self.last_snapshot = None
        self.init_state = None
        self.meta = None
        self.insert_depth = 0
        self.draws = 0
        self.record_fresh = record_fresh
        self.record_instates = record_instates
        # light: after the start the tracer never asks the state handler for the global state itself (an observer
        # that extracts the state at every leg refreshes caches of the state handler and hides their staleness);
        # the delta of a commit is then taken from the committed out-state (commit == override is C13's property)
        self.light = light
        self.pending_ids = {}      # handler idx -> in-state ids it is currently running with
        self.instate_of = {}       # handler idx -> in-state units its pending candidate was computed from
        self.pending_time = {}     # handler idx -> bits of the candidate time pushed last
        self.ended = None
        self.in_fresh = False

    # ------------------------------------------------------------------ attach
    def attach(self, mediator):
        self.mediator = mediator
        act = mediator._activator
        self.handlers = list(act.get_event_handlers())
        self.hidx = {id(h): i for i, h in enumerate(self.handlers)}
        self.taggers = list(act._taggers)
        tindex = {id(t): i for i, t in enumerate(self.taggers)}
        import jellyfysh.setting as setting
        from jellyfysh.setting import hypercuboid_setting
        meta = {
            "dimension": setting.dimension,
            "system_lengths": [f2b(x) for x in hypercuboid_setting.system_lengths],
            "beta": f2b(setting.beta),
            "number_of_root_nodes": setting.number_of_root_nodes,
            "number_of_nodes_per_root_node": setting.number_of_nodes_per_root_node,
            "number_of_node_levels": setting.number_of_node_levels,
            "scheduler": type(mediator._scheduler).__name__,
            "mediator": type(mediator).__name__,
            "taggers": [],
            "handlers": [],
            "internal_states": [],
        }
        for t in self.taggers:
            meta["taggers"].append({
                "tag": t.tag, "class": type(t).__name__,
                "creates": list(t.creates), "trashes": list(t.trashes),
                "activates": list(t.activates), "deactivates": list(t.deactivates),
                "n_handlers": len(t.get_event_handlers()),
                "handler_class": type(t.get_event_handlers()[0]).__name__,
                "handler_bases": [c.__name__ for c in type(t.get_event_handlers()[0]).__mro__],
                "internal_state": (None if getattr(t, "_internal_state", None) is None
                                   else act._internal_states.index(t._internal_state)
                                   if t._internal_state in act._internal_states else -1),
            })
        for h in self.handlers:
            t = act._event_handler_tagger_dictionary[h]
            d = {"tagger": tindex[id(t)], "class": type(h).__name__}
            for attr, key in (("_sampling_interval", "sampling_interval"), ("_chain_time", "chain_time"),
                              ("_end_of_run_time", "end_of_run_time"), ("_dumping_interval", "dumping_interval"),
                              ("_chain_length", "chain_length"), ("_speed", "speed"),
                              ("_first_event_time_zero", "first_event_time_zero"),
                              ("_output_handler", "output_handler")):
                if hasattr(h, attr):
                    v = getattr(h, attr)
                    d[key] = f2b(v) if isinstance(v, float) else v
            et = getattr(h, "_event_time", None)
            if et is not None and hasattr(et, "quotient"):
                d["initial_event_time"] = [f2b(et.quotient), f2b(et.remainder)]
            # stateless helper objects of the handler (potentials, bounding potentials, estimators' potentials): their
            # derivative at fixed probe points.  A resumed (unpickled) handler must compute with the same numbers.
            probes = {}
            objs = [(a, getattr(h, a, None)) for a in ("_potential", "_bounding_potential")]
            est = getattr(h, "_estimator", None)
            if est is not None:
                objs.append(("_estimator._potential", getattr(est, "_potential", None)))
            L = [x for x in hypercuboid_setting.system_lengths]
            for name, o in objs:
                if o is None or not hasattr(o, "derivative"):
                    continue
                vals = []
                for frac in ((0.11, 0.27, 0.33), (-0.49, 0.02, 0.48), (0.3, -0.41, -0.07)):
                    for dd in range(setting.dimension):
                        vel = [0.0] * setting.dimension
                        vel[dd] = 1.0
                        sep = [frac[k % 3] * L[k] for k in range(setting.dimension)]
                        try:
                            r = o.derivative(vel, sep, 1.0, -1.0)
                        except TypeError:
                            try:
                                r = o.derivative(vel, sep)
                            except Exception as e:  # noqa
                                r = type(e).__name__
                        except Exception as e:  # noqa
                            r = type(e).__name__
                        vals.append(f2b(r) if isinstance(r, float) else repr(r))
                probes[name] = vals
            d["potential_probes"] = probes
            meta["handlers"].append(d)
        for s in act._internal_states:
            d = {"class": type(s).__name__}
            cells = getattr(s, "_cells", None)
            if cells is not None:
                d["cells_class"] = type(cells).__name__
                d["cells_per_side"] = list(getattr(cells, "_cells_per_side", []))
                d["neighbor_layers"] = getattr(cells, "_neighbor_layers", None)
                d["cell_level"] = getattr(s, "_cell_level", None)
                d["max_occupants"] = getattr(s, "_maximum_number_occupants", None)
                d["occupants_not_bounded"] = bool(getattr(s, "_number_occupants_not_bounded", False))
                # name of the charge the relevance filter looks at (closure variable of the filter), if any
                try:
                    f = s._is_relevant_unit
                    free = dict(zip(f.__code__.co_freevars, [c.cell_contents for c in (f.__closure__ or ())]))
                    d["charge_name"] = free.get("charge")
                    d["charge_known"] = ("charge" in free) or not f.__code__.co_freevars
                except Exception:  # noqa
                    d["charge_known"] = False
            meta["internal_states"].append(d)
        self.meta = meta
        snap = flatten(mediator._state_handler.extract_global_state(), with_tree=True)
        self.init_state = snap
        self.last_snapshot = {tuple(u["id"]): u for u in flatten(mediator._state_handler.extract_global_state())}

    def snapshot_delta(self, out=None):
        if self.light:
            delta = []
            for u in out or []:
                k = tuple(u["id"])
                if self.last_snapshot.get(k) != u:
                    delta = [x for x in delta if tuple(x["id"]) != k] + [u]
                    self.last_snapshot[k] = u
            return delta
        snap = {tuple(u["id"]): u for u in flatten(self.mediator._state_handler.extract_global_state())}
        delta = [u for k, u in snap.items() if self.last_snapshot.get(k) != u]
        self.last_snapshot = snap
        return delta

    def occ_record(self):
        out = []
        for s in self.mediator._activator._internal_states:
            if not any(c.__name__ == "SingleActiveCellOccupancy" for c in type(s).__mro__):
                out.append(None)
                continue
            occ = {",".join(map(str, c.identifier)): ids_of(v) for c, v in s._occupants.items() if v}
            sur = {",".join(map(str, c.identifier)): ids_of(v) for c, v in s._surplus.items()}
            from jellyfysh.base.node import yield_nodes_on_level_below
            rel = []
            for root in self.mediator._state_handler.extract_global_state():
                for cn in yield_nodes_on_level_below(root, s._cell_level - 1):
                    if s._is_relevant_unit(cn.value):
                        rel.append(list(cn.value.identifier))
            out.append({
                "relevant": rel,
                "occupants": occ, "surplus": sur,
                "active_cell": None if s._active_cell is None else list(s._active_cell.identifier),
                "active_id": None if s._active_unit_identifier is None else list(s._active_unit_identifier),
                "surplus_keys": len(s._surplus),
            })
        return out

    # ------------------------------------------------------------------ events
    def leg_start(self, active_state, to_run):
        if self.cur is not None:
            self.legs.append(self.cur)
        if len(self.legs) >= self.max_legs:
            self.cur = None
            self.ended = "max_legs"
            raise StopTrace()
        act = self.mediator._activator
        self.cur = {
            "active": [u for u in flatten(active_state)],
            "to_run": [[self.hidx[id(h)], ids_of(ids)] for h, ids in to_run.items()],
            "cands": [], "instates": {}, "pick": None, "time": None, "out": None, "trash": [], "write": None,
            "delta": None, "draws": 0, "args": None,
        }
        for h, ids in to_run.items():
            self.pending_ids[self.hidx[id(h)]] = ids_of(ids)
        if self.record_fresh:
            fresh = {}
            pending = {}
            activated = {}
            self.in_fresh = True
            try:
                for ti, t in enumerate(self.taggers):
                    try:
                        fresh[ti] = [ids_of(x) if x is not None else None
                                     for x in t.yield_identifiers_send_event_time(active_state)]
                    except Exception as e:  # noqa
                        fresh[ti] = "EXC:" + type(e).__name__
                    pending[ti] = [self.pending_ids.get(self.hidx[id(h)]) for h in act._running_event_handlers[t]]
                    activated[ti] = t.__dict__.get("yield_identifiers_send_event_time") \
                        is not t._deactivated_yield_identifiers_send_event_time
            finally:
                self.in_fresh = False
            self.cur["fresh"] = fresh
            self.cur["pending"] = pending
            self.cur["activated"] = activated
        self.cur["occ"] = self.occ_record()

    def finish(self):
        if self.cur is not None:
            self.legs.append(self.cur)
            self.cur = None

    def result(self):
        return {"meta": self.meta, "init_state": self.init_state, "legs": self.legs, "ended": self.ended}


# ---------------------------------------------------------------------- patching
_patched = False


def install():
    """Install class-level wrappers (idempotent)."""
    global _patched
    if _patched:
        return
    _patched = True
    from jellyfysh.activator.tag_activator import TagActivator
    from jellyfysh.state_handler.tree_state_handler import TreeStateHandler
    from jellyfysh.input_output_handler.input_output_handler import InputOutputHandler
    from jellyfysh.scheduler.heap_scheduler.heap_scheduler import HeapScheduler
    from jellyfysh.scheduler.list_scheduler import ListScheduler
    import jellyfysh.event_handler as eh_pkg
    import pkgutil
    import importlib
    import inspect
    from jellyfysh.event_handler.event_handler import EventHandler

    # activator
    for name in ("get_event_handlers_to_run", "_get_event_handlers_to_run_update"):
        orig = getattr(TagActivator, name)

        def wrap(orig):
            def w(self, active_state, preceding):
                res = orig(self, active_state, preceding)
                t = TRACER
                if t is not None and t.mediator is not None and self is t.mediator._activator:
                    t.leg_start(active_state, res)
                return res
            return w
        setattr(TagActivator, name, wrap(orig))

    orig_trash = TagActivator.get_trashable_events

    def trashable(self, preceding):
        res = orig_trash(self, preceding)
        t = TRACER
        if t is not None and t.cur is not None and self is t.mediator._activator:
            t.cur["trash"] = [t.hidx[id(h)] for h in res]
            for h in res:
                t.pending_ids.pop(t.hidx[id(h)], None)
        return res
    TagActivator.get_trashable_events = trashable

    # schedulers
    for S in (HeapScheduler, ListScheduler):
        def wrap_push(orig):
            def w(self, event_time, event_handler):
                t = TRACER
                if t is not None and t.cur is not None and self is t.mediator._scheduler:
                    bits = [f2b(event_time.quotient), f2b(event_time.remainder)]
                    t.cur["cands"].append([t.hidx[id(event_handler)], bits])
                    t.pending_time[t.hidx[id(event_handler)]] = bits
                return orig(self, event_time, event_handler)
            return w

        def wrap_get(orig):
            def w(self):
                res = orig(self)
                t = TRACER
                if t is not None and t.cur is not None and self is t.mediator._scheduler:
                    t.cur["pick"] = t.hidx[id(res)]
                    t.cur["time"] = t.pending_time.get(t.hidx[id(res)])
                    if t.cur["time"] is None:
                        # resumed run: the candidate was pushed before the dump; basic event handlers keep it
                        et = getattr(res, "_event_time", None)
                        if et is not None and hasattr(et, "quotient"):
                            t.cur["time"] = [f2b(et.quotient), f2b(et.remainder)]
                return res
            return w
        S.push_event = wrap_push(S.push_event)
        S.get_succeeding_event = wrap_get(S.get_succeeding_event)

    # state handler
    orig_insert = TreeStateHandler.insert_into_global_state

    def insert(self, out_state):
        t = TRACER
        mine = t is not None and t.cur is not None and self is t.mediator._state_handler
        if mine:
            t.insert_depth += 1
            if t.insert_depth == 1:
                t.cur["pre_delta"] = t.snapshot_delta()     # must be empty: nothing changes between commits
                t.cur["out"] = flatten(out_state)
                if t.cur.get("pick") is not None:
                    t.cur["pick_instate"] = t.instate_of.get(t.cur["pick"])
        try:
            return orig_insert(self, out_state)
        finally:
            if mine:
                t.insert_depth -= 1
                if t.insert_depth == 0:
                    t.cur["delta"] = t.snapshot_delta(t.cur["out"])
                    t.cur["draws"] = t.draws
    TreeStateHandler.insert_into_global_state = insert

    # mediator: attach on entry of run()
    from jellyfysh.mediator.single_process_mediator import SingleProcessMediator
    orig_run = SingleProcessMediator.run

    def run(self):
        t = TRACER
        if t is not None and t.mediator is None:
            t.attach(self)
        return orig_run(self)
    SingleProcessMediator.run = run

    # output
    orig_write = InputOutputHandler.write

    def write(self, output_handler, *args):
        t = TRACER
        if t is not None and t.cur is not None and self is t.mediator._input_output_handler:
            t.cur["write"] = output_handler
            if args and isinstance(args[0], (list, tuple)):
                try:
                    t.cur["wstate"] = flatten(args[0])
                except Exception:  # noqa
                    t.cur["wstate"] = None
        return orig_write(self, output_handler, *args)
    InputOutputHandler.write = write

    # event handlers: wrap send_event_time / send_out_state of every concrete class
    seen = set()
    for m in pkgutil.walk_packages(eh_pkg.__path__, eh_pkg.__name__ + "."):
        try:
            mod = importlib.import_module(m.name)
        except Exception:  # noqa  (e.g. optional dependencies)
            continue
        for _, cls in inspect.getmembers(mod, inspect.isclass):
            if not issubclass(cls, EventHandler) or cls in seen:
                continue
            seen.add(cls)
            if "send_event_time" in cls.__dict__:
                cls.send_event_time = _wrap_set(cls.__dict__["send_event_time"])
            if "send_out_state" in cls.__dict__:
                cls.send_out_state = _wrap_sos(cls.__dict__["send_out_state"])

    # random draws (count only; the stream itself is reproduced by seeding)
    for name in ("random", "uniform", "expovariate", "choice", "randint", "randrange", "gauss", "sample"):
        orig = getattr(random, name)

        def wrapr(orig):
            def w(*a, **k):
                t = TRACER
                if t is not None:
                    t.draws += 1
                return orig(*a, **k)
            return w
        setattr(random, name, wrapr(orig))


def _wrap_set(orig):
    @functools.wraps(orig)
    def w(self, *args):
        t = TRACER
        if t is not None and t.cur is not None and id(self) in t.hidx and t.record_instates and not t.in_fresh:
            hi = t.hidx[id(self)]
            # the in-state exactly as extracted from the global state, BEFORE the handler touches it
            st = args[0] if args else None
            rec = flatten(st) if st is not None else None
            t.cur["instates"][str(hi)] = rec
            t.instate_of[hi] = rec
        return orig(self, *args)
    return w


def _wrap_sos(orig):
    @functools.wraps(orig)
    def w(self, *args):
        t = TRACER
        if t is not None and t.cur is not None and id(self) in t.hidx:
            try:
                t.cur["args"] = [flatten(a) if isinstance(a, (list, tuple)) and a and hasattr(a[0], "value")
                                 else (flatten([a]) if hasattr(a, "value") else None) for a in args]
            except Exception:  # noqa
                t.cur["args"] = None
        return orig(self, *args)
    return w
