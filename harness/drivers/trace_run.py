"""Driver: run the real jellyfysh.run.main() on a configuration with the tracer attached.
payload: {"config": path relative to the jellyfysh package dir | null, "ini_text": str | null,
          "overrides": {section: {option: value}}, "seed": int, "max_legs": int,
          "record_fresh": bool, "record_instates": bool}"""
import io
import os
import random
import sys
import traceback
from configparser import ConfigParser

from drvutil import read_payload, emit, assert_scratch, exc_enum
import tracer

import jellyfysh.run as run
assert_scratch()
p = read_payload()
tracer.install()


CONFIGS = []


def read_config(config_file):
    config = ConfigParser()
    if p.get("ini_text") is not None:
        config.read_string(p["ini_text"])
    elif not config.read(config_file):
        raise RuntimeError("Given configuration file does not exist.")
    for sec, kv in (p.get("overrides") or {}).items():
        if not config.has_section(sec):
            config.add_section(sec)
        for k, v in kv.items():
            config.set(sec, k, str(v))
    CONFIGS.append(config)
    return config


run.read_config = read_config
run.print_start_message = lambda: None
sys.argv = ["run.py", p.get("config") or "generated.ini"]
random.seed(p["seed"])
tracer.TRACER = tracer.Tracer(p.get("max_legs", 300), record_fresh=p.get("record_fresh", True),
                              record_instates=p.get("record_instates", True), light=bool(p.get("light")))
err = None
try:
    stdout = sys.stdout
    sys.stdout = io.StringIO()
    try:
        run.main()
        tracer.TRACER.ended = "end_of_run"
    finally:
        sys.stdout = stdout
except tracer.StopTrace:
    pass
except BaseException as e:  # noqa
    err = {"exc": exc_enum(e) if isinstance(e, Exception) else type(e).__name__, "msg": str(e)[:500],
           "tb": traceback.format_exc()[-3000:]}
    tracer.TRACER.ended = "exception"
tracer.TRACER.finish()
res = tracer.TRACER.result()
res["error"] = err
res["config"] = p.get("config")
res["seed"] = p["seed"]
res["end_of_run_time"] = None
try:
    res["end_of_run_time"] = tracer.f2b(float(CONFIGS[-1].get("FinalTimeEndOfRunEventHandler", "end_of_run_time")))
except Exception:  # noqa
    pass
emit(res)
