"""Driver C10: the REAL cell taggers on REAL SingleActiveCellOccupancy / CuboidPeriodicCells / TreeStateHandler /
TagActivator objects, and the REAL FactorTypeMaps parser + FactorTypeMapInStateTagger.

payload = {"occ": [config...], "fmap": [job...]}
Only the numerical estimator is a stub (its numbers are irrelevant for C10); every class that decides WHO is a
target (occupancy, cells, taggers, activator, walker domain of the cell-veto handler, mediator target lookup) is real.
"""
import contextlib
import io
import os
import tempfile
import types

from drvutil import read_payload, emit, b2f, exc_enum, assert_scratch

import jellyfysh.setting as setting
from jellyfysh.setting import hypercuboid_setting
from jellyfysh.base.node import Node
from jellyfysh.base.particle import Particle
from jellyfysh.base.time import Time
from jellyfysh.state_handler.tree_state_handler import TreeStateHandler
from jellyfysh.state_handler.physical_state.tree_physical_state import TreePhysicalState
from jellyfysh.state_handler.lifting_state.tree_lifting_state import TreeLiftingState
from jellyfysh.activator.internal_state.single_active_cell_occupancy import SingleActiveCellOccupancy
from jellyfysh.activator.internal_state.cell_occupancy.cells.cuboid_periodic_cells import CuboidPeriodicCells
from jellyfysh.activator.tag_activator import TagActivator
from jellyfysh.activator.tagger.cell_veto_tagger import CellVetoTagger
from jellyfysh.activator.tagger.cell_bounding_potential_tagger import CellBoundingPotentialTagger
from jellyfysh.activator.tagger.excluded_cells_tagger import ExcludedCellsTagger
from jellyfysh.activator.tagger.surplus_cells_tagger import SurplusCellsTagger
from jellyfysh.activator.tagger.cell_boundary_tagger import CellBoundaryTagger
from jellyfysh.activator.tagger.no_in_state_tagger import NoInStateTagger
from jellyfysh.activator.tagger.factor_type_maps import FactorTypeMaps
from jellyfysh.activator.tagger.factor_type_map_in_state_tagger import FactorTypeMapInStateTagger
from jellyfysh.estimator.estimator import Estimator
from jellyfysh.event_handler.leaf_unit_cell_veto_event_handler import LeafUnitCellVetoEventHandler
from jellyfysh.event_handler.two_leaf_unit_event_handler import TwoLeafUnitEventHandler
from jellyfysh.event_handler.two_leaf_unit_cell_bounding_potential_event_handler import \
    TwoLeafUnitCellBoundingPotentialEventHandler
from jellyfysh.event_handler.cell_boundary_event_handler import CellBoundaryEventHandler
from jellyfysh.event_handler.initial_chain_start_of_run_event_handler import InitialChainStartOfRunEventHandler
from jellyfysh.mediator.mediator import Mediator
from jellyfysh.potential.inverse_power_potential import InversePowerPotential
from jellyfysh.potential.cell_bounding_potential import CellBoundingPotential

assert_scratch()

LABEL = "single_active_cell_occupancy"
ALL_TAGS = ["cell_veto", "cell_bounding", "nearby", "surplus", "cell_boundary"]


class StubEstimator(Estimator):
    """Numerical bound only (irrelevant for C10): constant positive upper bound, negative lower bound."""

    def __init__(self, potential):
        super().__init__(potential=potential)

    def derivative_bound(self, lower_corner, upper_corner, direction, calculate_lower_bound=False):
        super().derivative_bound(lower_corner, upper_corner, direction, calculate_lower_bound)
        return [1.0, -1.0] if calculate_lower_bound else [1.0]

    def charge_correction_factor(self, active_charges, target_charges=None):
        return 1.0


def indep_relevant(unit, charge):
    """Relevance of a unit for the occupancy, determined independently of the implementation's own filter:
    without a filter charge every unit, otherwise the units whose configured charge is non-zero."""
    return True if charge is None else unit.charge[charge] != 0


def reset_all():
    setting.reset()
    FactorTypeMaps._instance = None


def quiet():
    return contextlib.redirect_stdout(io.StringIO())


def cid(cell):
    return None if cell is None else list(cell.identifier)


# ------------------------------------------------------------------------------------------------
def build_nodes(cfg):
    roots = []
    for r in cfg["roots"]:
        node = Node(Particle([b2f(x) for x in r["pos"]], None if r.get("charge") is None else {"q": r["charge"]}))
        for ch in r.get("children", []):
            node.add_child(Node(Particle([b2f(x) for x in ch["pos"]],
                                         None if ch.get("charge") is None else {"q": ch["charge"]})))
        roots.append(node)
    return roots


def set_branch(sh, leaf_id, velocity, time_stamp):
    """Set velocity / time stamp of the branch root -> leaf (what a lifting out-state commits)."""
    cnode = sh.extract_from_global_state(tuple(leaf_id))
    n = cnode
    while True:
        n.value.velocity = None if velocity is None else list(velocity)
        n.value.time_stamp = time_stamp
        nxt = [c for c in n.children if len(tuple(leaf_id)) >= len(c.value.identifier)
               and tuple(leaf_id)[:len(c.value.identifier)] == tuple(c.value.identifier)]
        if not nxt:
            break
        n = nxt[0]
    # insert only the branch (children that are not on the branch keep their state)
    branch = cnode
    stack = [branch]
    while stack:
        x = stack.pop()
        x.children = [c for c in x.children
                      if tuple(leaf_id)[:len(c.value.identifier)] == tuple(c.value.identifier)]
        stack += x.children
    sh.insert_into_global_state([branch])


def snapshot(occ, cells):
    return {
        "occupants": [[list(i) for i in occ[c]] for c in cells.yield_cells()],
        "surplus": [[cid(c), [list(i) for i in v]] for c, v in occ._surplus.items()],
        "yield_surplus": [list(i) for i in occ.yield_surplus()],
        "active": [[cid(c), list(i)] for c, i in occ.yield_active_cells()],
    }


def run_occ(cfg):
    reset_all()
    dim = cfg["dim"]
    hypercuboid_setting.HypercuboidSetting(system_lengths=[b2f(x) for x in cfg["lengths"]], beta=1.0, dimension=dim)
    levels = cfg["levels"]
    setting.set_number_of_root_nodes(len(cfg["roots"]))
    setting.set_number_of_nodes_per_root_node(cfg["n_per_root"])
    setting.set_number_of_node_levels(levels)
    charge = "q" if cfg.get("charge_filter") else None
    with quiet():
        cells = CuboidPeriodicCells(cells_per_side=cfg["cells_per_side"], neighbor_layers=cfg["layers"])
        occ = SingleActiveCellOccupancy(cells, cell_level=cfg["cell_level"],
                                        maximum_number_occupants=cfg["max_occ"], charge=charge)
        potential = InversePowerPotential(power=2.0, prefactor=1.0)
        est = StubEstimator(potential)
        nh = cfg["n_handlers"]
        first_leaf = tuple(cfg["steps"][0]["leaf"])
        no_veto = all(c in cells.nearby_cells(cells.zero_cell) for c in cells.yield_cells())
        TAGS = [t for t in ALL_TAGS if not (no_veto and t == "cell_veto")]
        taggers = [
            NoInStateTagger(create=TAGS, trash=["start_of_run"],
                            event_handler=InitialChainStartOfRunEventHandler(0, 1.0, first_leaf), tag="start_of_run"),
            CellVetoTagger(create=TAGS, trash=TAGS, event_handler=LeafUnitCellVetoEventHandler(est),
                           internal_state_label=LABEL, tag="cell_veto"),
            CellBoundingPotentialTagger(create=TAGS, trash=TAGS,
                                        event_handler=TwoLeafUnitCellBoundingPotentialEventHandler(
                                            potential, CellBoundingPotential(est)),
                                        number_event_handlers=nh, internal_state_label=LABEL, tag="cell_bounding"),
            ExcludedCellsTagger(create=TAGS, trash=TAGS, event_handler=TwoLeafUnitEventHandler(potential),
                                number_event_handlers=nh, internal_state_label=LABEL, tag="nearby"),
            SurplusCellsTagger(create=TAGS, trash=TAGS, event_handler=TwoLeafUnitEventHandler(potential),
                               number_event_handlers=nh, internal_state_label=LABEL, tag="surplus"),
            CellBoundaryTagger(create=TAGS, trash=TAGS, event_handler=CellBoundaryEventHandler(),
                               internal_state_label=LABEL, tag="cell_boundary"),
        ]
        if no_veto:
            # every cell is nearby: the real CellVetoEventHandler cannot be initialised (empty walker); the
            # configuration is then run without the cell-veto tagger
            del taggers[1]
        activator = TagActivator(taggers, [occ])
        sh = TreeStateHandler(TreePhysicalState(), TreeLiftingState())
        sh.initialize(build_nodes(cfg))
        activator.initialize(sh.extract_global_state())
    out = {"cells": [cid(c) for c in cells.yield_cells()],
           "zero": cid(cells.zero_cell),
           "nearby_zero": sorted(cid(c) for c in cells.nearby_cells(cells.zero_cell))}
    # units on the cell level, their cells by the REAL position_to_cell, relevance by the REAL filter
    units = []
    from jellyfysh.base.node import yield_nodes_on_level_below
    for root in sh.extract_global_state():
        for cn in yield_nodes_on_level_below(root, cfg["cell_level"] - 1):
            u = cn.value
            units.append([list(u.identifier), cid(cells.position_to_cell(u.position)),
                          bool(indep_relevant(u, charge))])
    out["units"] = units
    out["init"] = snapshot(occ, cells)
    # the cell-veto handler's walker domain (real initialize): items of the alias tables + keys of the bound table
    dom = set()
    veto_handler = None
    if taggers[1].tag == "cell_veto":
        veto_handler = taggers[1].get_event_handlers()[0]
        for w in list(veto_handler._upper_bound_walker) + list(veto_handler._lower_bound_walker):
            for row in w._table:
                for it in row:
                    dom.add(it.item)
    out["veto_domain"] = sorted(cid(c) for c in dom)
    out["veto_keys"] = sorted(cid(c) for c in veto_handler._derivative_bounds.keys()) if veto_handler else []
    tagger_of = activator._event_handler_tagger_dictionary
    # start of run
    d = activator.get_event_handlers_to_run([], None)
    (sor, _), = d.items()
    prev = sor
    running = True
    steps_out = []
    cur_leaf = None
    for st in cfg["steps"]:
        leaf = tuple(st["leaf"])
        so = {"leaf": list(leaf)}
        try:
            if cur_leaf is not None and cur_leaf != leaf:
                set_branch(sh, cur_leaf, None, None)
            if st.get("move") is not None:
                # move the active unit on the cell level (time-sliced position after an event)
                ident = leaf[:cfg["cell_level"]]
                sh._physical_state.set(ident, [b2f(x) for x in st["move"]])
            set_branch(sh, leaf, [1.0] + [0.0] * (dim - 1), Time(0.0, 0.0))
            cur_leaf = leaf
            if running:
                activator.get_trashable_events(prev)
            active_state = sh.extract_active_global_state()
            nodes = [cn for root in active_state for cn in yield_nodes_on_level_below(root, cfg["cell_level"] - 1)]
            so["update_args"] = [[list(n.value.identifier), bool(indep_relevant(n.value, charge)),
                                  cid(cells.position_to_cell(n.value.position))] for n in nodes]
            d = activator.get_event_handlers_to_run(active_state, prev)
            by_tag = {t: [] for t in ALL_TAGS}
            for h, ids in d.items():
                by_tag[tagger_of[h].tag].append([list(i) for i in ids])
                prev = h
            running = bool(d)
            so["taggers"] = by_tag
            so["state"] = snapshot(occ, cells)
            # cell-veto targets: exactly what the mediator does with the cell returned by send_event_time
            targets = []
            act = list(occ.yield_active_cells())
            if act and by_tag["cell_veto"]:
                active_cell = act[0][0]
                shim = types.SimpleNamespace(_activator=activator, _state_handler=sh,
                                             _event_handler_with_shortest_event_time=veto_handler)
                for rel in sorted(dom, key=lambda c: c.identifier):
                    target_cell = veto_handler._cells.translate(active_cell, rel)
                    args = Mediator.get_arguments_cell_veto_event_handler(shim, target_cell)
                    ids = []
                    for a in args:
                        if a is None:
                            continue
                        # the mediator hands over the branch root -> target unit; descend to the cell level
                        while len(a.value.identifier) < cfg["cell_level"]:
                            assert len(a.children) == 1
                            a = a.children[0]
                        ids.append(list(a.value.identifier))
                    targets.append([cid(rel), cid(target_cell), ids])
            so["veto_targets"] = targets
        except Exception as e:  # noqa
            so["exc"] = exc_enum(e)
            import traceback
            so["tb"] = traceback.format_exc()[-800:]
            steps_out.append(so)
            break
        steps_out.append(so)
    out["steps"] = steps_out
    return out


# ------------------------------------------------------------------------------------------------
def run_fmap(job):
    """job = {"text": file content, "n": nodes per root, "nroot": root nodes, "queries": [[name, [active leaf ids...]]]}"""
    reset_all()
    hypercuboid_setting.HypercuboidSetting(system_lengths=[1.0, 1.0, 1.0], beta=1.0, dimension=3)
    setting.set_number_of_root_nodes(job["nroot"])
    setting.set_number_of_nodes_per_root_node(job["n"])
    setting.set_number_of_node_levels(1 if job["n"] == 1 else 2)
    fd, path = tempfile.mkstemp(suffix=".txt")
    res = {}
    try:
        with os.fdopen(fd, "w", newline="") as f:
            f.write(job["text"])
        try:
            maps = FactorTypeMaps(path)
        except Exception as e:  # noqa
            res["load"] = ["EXC", exc_enum(e)]
            return res
        res["load"] = ["OK", sorted(maps._factors.keys())]
        res["maps"] = {k: {"local": v._local, "map": [[i, s] for i, s in v._map.items()]}
                       for k, v in maps._factors.items()}
        qs = []
        import logging
        logging.disable(logging.CRITICAL)
        for name, actives in job["queries"]:
            q = {}
            m = maps[name]
            per = []
            for a in actives:
                try:
                    per.append(["OK", [[list(i) for i in f] for f in m.yield_factor_identifier(tuple(a))]])
                except Exception as e:  # noqa
                    per.append(["EXC", exc_enum(e)])
            q["yield"] = per
            # the real tagger (its event handler is never used by yield_identifiers_send_event_time)
            try:
                tagger = FactorTypeMapInStateTagger(create=[], trash=[], event_handler=None, number_event_handlers=1,
                                                    factor_type_maps=maps, tag="x", factor_type_maps_label=name)
                tagger.initialize_with_internal_states([])
                tagger.initialize()
                roots = []
                for a in actives:
                    n = Node(types.SimpleNamespace(identifier=tuple(a)))
                    roots.append(n)
                q["tagger"] = ["OK", [[list(i) for i in f] for f in tagger.yield_identifiers_send_event_time(roots)]]
            except Exception as e:  # noqa
                q["tagger"] = ["EXC", exc_enum(e)]
            qs.append(q)
        res["queries"] = qs
        return res
    finally:
        os.unlink(path)


payload = read_payload()
result = {"occ": [], "fmap": []}
for cfg in payload.get("occ", []):
    try:
        result["occ"].append(run_occ(cfg))
    except Exception as e:  # noqa
        import traceback
        result["occ"].append({"exc": exc_enum(e), "tb": traceback.format_exc()[-1500:]})
for job in payload.get("fmap", []):
    try:
        result["fmap"].append(run_fmap(job))
    except Exception as e:  # noqa
        import traceback
        result["fmap"].append({"exc": exc_enum(e), "tb": traceback.format_exc()[-1500:]})
emit(result)
