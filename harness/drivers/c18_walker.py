"""Driver C18: run the real jellyfysh.event_handler.walker.Walker under controlled draws.

payload = {"jobs": [job, ...]}
job = {"mode": "X" | "F",           X: exact numbers (wrapper around fractions.Fraction, see c05_lifting.X), F: floats
       "rates": [rate, ...],         rate = [num, den] (X) or 64-bit pattern (F); the item of cell i is the integer i
       "samples": [[row, u], ...]}   row = index returned by random.choice's _randbelow, u behind random.uniform
result: {"exc": name}  (constructor failed)  or
        {"total": v, "mean": v, "table": [[[id, rate], [id, rate]] | [[id, rate]], ...],
         "samples": [[id | ["EXC", name], value returned by random.uniform], ...]}
walker.py calls exactly random.choice(self._table) and random.uniform(0.0, self._mean_rate); both are replaced:
choice(seq) = seq[row], uniform(a, b) = a + (b - a) * u (CPython's formula).
"""
import random

from drvutil import read_payload, emit, f2b, b2f, exc_enum, assert_scratch
from c05_lifting import X, enc, dec          # also installs a fake random.uniform, replaced below
from jellyfysh.event_handler.walker import Walker, WalkerItem

assert_scratch()


class Draw(object):
    row = 0
    u = None
    last = None


def fake_uniform(a, b):
    r = a + (b - a) * Draw.u
    Draw.last = r
    return r


def fake_choice(seq):
    if not len(seq):
        raise IndexError("Cannot choose from an empty sequence")
    return seq[Draw.row]


random.uniform = fake_uniform
random.choice = fake_choice


def run_job(job):
    mode = job["mode"]
    rates = [dec(mode, r) for r in job["rates"]]
    try:
        w = Walker([WalkerItem(i, r) for i, r in enumerate(rates)])
    except Exception as e:  # noqa
        return {"exc": exc_enum(e)}
    res = {"total": enc(mode, w.total_rate), "mean": enc(mode, w._mean_rate),
           "table": [[[it.item, enc(mode, it.rate)] for it in row] for row in w._table], "samples": []}
    for row, u in job["samples"]:
        Draw.row = row
        Draw.u = dec(mode, u)
        Draw.last = None
        try:
            res["samples"].append([w.sample_cell(), enc(mode, Draw.last)])
        except Exception as e:  # noqa
            res["samples"].append([["EXC", exc_enum(e)], enc(mode, Draw.last)])
    return res


if __name__ == "__main__":
    jobs = read_payload()["jobs"]
    emit({"out": [run_job(j) for j in jobs]})
