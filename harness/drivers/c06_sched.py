"""Driver C06: apply operation sequences to the REAL HeapScheduler and the REAL ListScheduler.

payload {"seqs": [[op, ...], ...]}   op = ["push", q, r, hd] | ["trash", hd] | ["get"] | ["pickle"]
                                          | ["bump", hd, n] | ["dump"]
(q, r = 64-bit patterns of the quotient / remainder floats, hd = handler index).

Per sequence: a fresh HeapScheduler, a fresh ListScheduler and fresh handler objects; every op is applied
to both schedulers; every call is wrapped separately, so a failure of one scheduler stops neither the
other scheduler nor the sequence.  Recorded per op: [heap_obs, list_obs] with
    obs = ["none"] | ["got", hd, q, r, lq, lr] | ["exc", code, "TypeName: message"]
      (q, r)   = bits of the time the returned handler was last pushed with (plain dict, shared by both)
      (lq, lr) = bits of scheduler._last_returned_event[0] after the call (what the scheduler itself
                 recorded as the returned time; only needed when a handler has several live events)
and for dump   ["dump", [[q, r, hd, ctr], ...], allocated_entries]   (heap array read through lib.entry).
No oracle logic here: the only bookkeeping besides the last-push dict are measurements (allocated
size, number of stored entries, whether the OverflowError branch of push_event ran).
"""
import time as _time

import dill

from drvutil import read_payload, emit, f2b, b2f, assert_scratch
from jellyfysh.base.time import Time
from jellyfysh.scheduler.heap_scheduler import HeapScheduler
from jellyfysh.scheduler.list_scheduler import ListScheduler
from jellyfysh.scheduler.heap_scheduler._heap import ffi, lib

assert_scratch()

ENTRY_BYTES = ffi.sizeof("struct HeapEntry")
TWO32 = 2 ** 32
MAX_DUMP = 1 << 20


class Hd(object):
    """Event handler stand-in: the schedulers only use its identity."""

    def __init__(self, idx):
        self.idx = idx


def exc_obs(e):
    n = type(e).__name__
    msg = str(e)
    if n == "SchedulerError":
        if "does not contain any events" in msg:
            code = 0
        elif "is greater than the new smallest event time" in msg:
            code = 1
        elif "not present in scheduler" in msg:
            code = 2
        else:
            code = 99
    elif isinstance(e, MemoryError):
        code = 3
    elif isinstance(e, RuntimeError):
        code = 4
    else:
        code = 99
    return ["exc", code, ("%s: %s" % (n, msg))[:120]]


def n_entries(hs):
    """Number of stored heap entries (= heap->length - 1, or 0): smallest i with entry(i).event_handler == NULL."""
    heap = hs._heap
    if lib.entry(heap, 0).event_handler == ffi.NULL:
        return 0
    lo, hi = 0, 1                      # invariant: entry(lo) != NULL
    while hi < MAX_DUMP and lib.entry(heap, hi).event_handler != ffi.NULL:
        lo, hi = hi, hi * 2
    while hi - lo > 1:                 # entry(lo) != NULL, entry(hi) == NULL
        mid = (lo + hi) // 2
        if lib.entry(heap, mid).event_handler != ffi.NULL:
            lo = mid
        else:
            hi = mid
    return hi


def dump(hs):
    out = []
    i = 0
    while i < MAX_DUMP:
        e = lib.entry(hs._heap, i)
        if e.event_handler == ffi.NULL:
            break
        out.append([f2b(e.time_quotient), f2b(e.time_remainder), ffi.from_handle(e.event_handler).idx,
                    int(e.counter)])
        i += 1
    return out


def got(sched, h, cur):
    q, r = cur.get(h.idx, (None, None))
    t = sched._last_returned_event[0]
    return ["got", h.idx, q, r, f2b(t.quotient), f2b(t.remainder)]


def run_seq(ops):
    hs = HeapScheduler()
    ls = ListScheduler()
    handlers = {}
    cur = {}
    out = []
    meta = {"cap": 0, "ovf": 0, "min_slack": None, "min_slack_op": None, "max_entries": 0,
            "entry_bytes": ENTRY_BYTES}

    def hd(i):
        if i not in handlers:
            handlers[i] = Hd(i)
        return handlers[i]

    for k, op in enumerate(ops):
        kind = op[0]
        if kind == "push":
            h = hd(op[3])
            cur[op[3]] = (op[1], op[2])
            before = hs._minimal_valid_counter.get(h, 0)
            oh = ["none"]
            try:
                hs.push_event(Time(b2f(op[1]), b2f(op[2])), h)
            except Exception as e:  # noqa
                oh = exc_obs(e)
            if before >= TWO32 and hs._minimal_valid_counter.get(h, None) == 0:
                meta["ovf"] += 1
            ol = ["none"]
            try:
                ls.push_event(Time(b2f(op[1]), b2f(op[2])), h)
            except Exception as e:  # noqa
                ol = exc_obs(e)
            out.append([oh, ol])
            # measurement: allocated entries vs stored entries (heap->size - heap->length)
            cap = hs._allocated_memory_bytes // ENTRY_BYTES
            if cap:
                n = n_entries(hs)
                slack = cap - (n + 1)
                meta["cap"] = max(meta["cap"], cap)
                meta["max_entries"] = max(meta["max_entries"], n)
                if meta["min_slack"] is None or slack < meta["min_slack"]:
                    meta["min_slack"] = slack
                    meta["min_slack_op"] = k
        elif kind == "trash":
            h = hd(op[1])
            oh = ["none"]
            try:
                hs.trash_event(h)
            except Exception as e:  # noqa
                oh = exc_obs(e)
            ol = ["none"]
            try:
                ls.trash_event(h)
            except Exception as e:  # noqa
                ol = exc_obs(e)
            out.append([oh, ol])
        elif kind == "get":
            try:
                oh = got(hs, hs.get_succeeding_event(), cur)
            except Exception as e:  # noqa
                oh = exc_obs(e)
            try:
                ol = got(ls, ls.get_succeeding_event(), cur)
            except Exception as e:  # noqa
                ol = exc_obs(e)
            out.append([oh, ol])
        elif kind == "pickle":
            try:
                hs, ls, handlers = dill.loads(dill.dumps((hs, ls, handlers)))
                out.append([["none"], ["none"]])
                meta["cap"] = max(meta["cap"], hs._allocated_memory_bytes // ENTRY_BYTES)
            except Exception as e:  # noqa
                out.append([exc_obs(e), exc_obs(e)])
        elif kind == "bump":
            h = hd(op[1])
            oh = ["none"]
            try:
                d = hs._minimal_valid_counter
                d[h] = d.get(h, 0) + int(op[2])
            except Exception as e:  # noqa
                oh = exc_obs(e)
            out.append([oh, ["none"]])
        elif kind == "dump":
            try:
                out.append(["dump", dump(hs), hs._allocated_memory_bytes // ENTRY_BYTES])
            except Exception as e:  # noqa
                out.append(["dumpexc", exc_obs(e)])
        else:
            out.append(["err", "unknown op %r" % (kind,)])
    return out, meta


def main():
    seqs = read_payload()["seqs"]
    t0 = _time.time()
    outs, metas = [], []
    for ops in seqs:
        o, m = run_seq(ops)
        outs.append(o)
        metas.append(m)
    emit({"out": outs, "meta": metas, "t": round(_time.time() - t0, 4), "nops": sum(len(s) for s in seqs)})


if __name__ == "__main__":
    main()
