"""Driver C01 (handler glue): run the REAL send_event_time / send_out_state of the interaction event handlers
on real Node/Unit in-states, with STUB potentials (record arguments, return prescribed values) and patched
random.expovariate / random.uniform (record arguments, return prescribed values).

job:
  kind     "TL"   TwoLeafUnitEventHandler
           "TLB"  TwoLeafUnitBoundingPotentialEventHandler
           "PW2"  TwoLeafUnitEventHandlerWithPiecewiseConstantBoundingPotential
           "FIXED" FixedSeparationsEventHandlerWithPiecewiseConstantBoundingPotential
           "SUMMED" TwoCompositeObjectSummedBoundingPotentialEventHandler
           "CELLB" TwoLeafUnitCellBoundingPotentialEventHandler (stub cells: cell of a position = prescribed token)
           "CCELLB" TwoCompositeObjectCellBoundingPotentialEventHandler (stub cells)
           "ROOTTL" RootUnitActiveTwoLeafUnitEventHandler, "ROOTSUM" RootUnitActiveTwoCompositeObjectSummedBounding...
                    ("units2": the fresh root cnodes the mediator hands to send_out_state)
           "LCV" / "CCV" LeafUnit- / CompositeObjectCellVetoEventHandler, send_out_state only: the state that
                    send_event_time leaves behind is produced with the handler's own base-class methods
                    (_store_in_state, _construct_leaf_cnodes, _extract_active_leaf_unit, _time_slice_all_units_in_state)
                    for the prescribed event time "T", the stored bounding event rate is "b"; "target": the units of
                    the target root cnode or None (empty target cell).  send_event_time itself: C18 glue.
  beta, L  bits; dim
  charge   bool: the handler is configured with the charge name "q"; ncharge: number_charge_arguments of the stubs
  change_required  (TL) potential_change_required of the stub potential
  units    pre-order flat list {"id", "pos", "vel"|None, "ts"|None, "charge"|None, "parent"|None, "weight"}
  ret      {"disp": [...], "bdisp": [...], "der": [...], "bder": [...]}   return values (bits; FIXED der: vectors)
  expo, unif   return values of expovariate / the u of uniform(a, b) = a + (b - a) * u   (bits)
  lifting  "inside" | "outside" | "ratio";  offset, max_disp (bits), separations (FIXED)
  cells    (CELLB) {"tokens": [active cell, other cell, active cell at out-state], "relative": token}
All floats cross as 64-bit patterns.
"""
import random
from types import SimpleNamespace

from drvutil import read_payload, emit, f2b, b2f, exc_enum, assert_scratch
import jellyfysh.setting as setting
from jellyfysh.setting import hypercubic_setting
from jellyfysh.base.node import Node
from jellyfysh.base.time import Time
from jellyfysh.base.unit import Unit
from jellyfysh.lifting.inside_first_lifting import InsideFirstLifting
from jellyfysh.lifting.outside_first_lifting import OutsideFirstLifting
from jellyfysh.lifting.ratio_lifting import RatioLifting
from jellyfysh.event_handler.two_leaf_unit_event_handler import TwoLeafUnitEventHandler
from jellyfysh.event_handler.two_leaf_unit_bounding_potential_event_handler import \
    TwoLeafUnitBoundingPotentialEventHandler
from jellyfysh.event_handler.two_leaf_unit_event_handler_with_piecewise_constant_bounding_potential import \
    TwoLeafUnitEventHandlerWithPiecewiseConstantBoundingPotential
from jellyfysh.event_handler.fixed_separations_event_handler_with_piecewise_constant_bounding_potential import \
    FixedSeparationsEventHandlerWithPiecewiseConstantBoundingPotential
from jellyfysh.event_handler.two_composite_object_summed_bounding_potential_event_handler import \
    TwoCompositeObjectSummedBoundingPotentialEventHandler
from jellyfysh.event_handler.two_leaf_unit_cell_bounding_potential_event_handler import \
    TwoLeafUnitCellBoundingPotentialEventHandler
from jellyfysh.event_handler.two_composite_object_cell_bounding_potential_event_handler import \
    TwoCompositeObjectCellBoundingPotentialEventHandler
from jellyfysh.event_handler.root_unit_active_two_leaf_unit_event_handler import RootUnitActiveTwoLeafUnitEventHandler
from jellyfysh.event_handler.root_unit_active_two_composite_object_summed_bounding_potential_event_handler import \
    RootUnitActiveTwoCompositeObjectSummedBoundingPotentialEventHandler
from jellyfysh.event_handler.leaf_unit_cell_veto_event_handler import LeafUnitCellVetoEventHandler
from jellyfysh.event_handler.composite_object_cell_veto_event_handler import CompositeObjectCellVetoEventHandler
from jellyfysh.potential.cell_bounding_potential import CellBoundingPotential
from jellyfysh.activator.internal_state.cell_occupancy.cells import PeriodicCells

assert_scratch()
LIFTINGS = {"inside": InsideFirstLifting, "outside": OutsideFirstLifting, "ratio": RatioLifting}
LOG = SimpleNamespace(expo=[], unif=[], calls=[], inserts=[], cells=[])
Q = SimpleNamespace(expo=[], unif=[])


def fake_expovariate(lambd):
    LOG.expo.append(f2b(lambd))
    return Q.expo.pop(0)


def fake_uniform(a, b):
    LOG.unif.append([f2b(a), f2b(b)])
    return a + (b - a) * Q.unif.pop(0)


random.expovariate = fake_expovariate
random.uniform = fake_uniform


def enc_sep(s):
    if isinstance(s, (list, tuple)):
        return [f2b(x) for x in s]
    return ["cell", s.token]


class Stub(object):
    """Potential stub: which = 0 potential, 2 bounding potential (+1 for derivative)."""

    def __init__(self, which, nsep, ncharge, change_required, disp, der):
        self.which = which
        self.number_separation_arguments = nsep
        self.number_charge_arguments = ncharge
        self.potential_change_required = change_required
        self._disp, self._der = disp, der

    def _rec(self, which, velocity, rest, kw):
        n, c = self.number_separation_arguments, self.number_charge_arguments
        seps = rest[:n]
        charges = []
        for x in rest[n:n + c]:             # the composite cell-bounding handler hands (q, (q_1, q_2, ...))
            charges += list(x) if isinstance(x, (tuple, list)) else [x]
        extra = rest[n + c:]
        change = kw.get("potential_change", extra[0] if extra else None)
        assert len(extra) <= 1 and set(kw) <= {"potential_change"}
        LOG.calls.append([which, [f2b(x) for x in velocity], [enc_sep(s) for s in seps], [f2b(x) for x in charges],
                          None if change is None else f2b(change)])

    def displacement(self, velocity, *rest, **kw):
        self._rec(self.which, velocity, rest, kw)
        return self._disp.pop(0)

    def derivative(self, velocity, *rest, **kw):
        self._rec(self.which + 1, velocity, rest, kw)
        return self._der.pop(0)


class CellStub(CellBoundingPotential):
    """isinstance(CellBoundingPotential) is required by the handler; nothing of the base class is used."""

    def __init__(self, stub):  # noqa
        self.__dict__["_s"] = stub

    def __getattr__(self, name):
        return getattr(self.__dict__["_s"], name)

    def displacement(self, *a, **k):
        return self._s.displacement(*a, **k)

    def derivative(self, *a, **k):
        return self._s.derivative(*a, **k)

    def initialize(self, *a, **k):
        return None


class Tok(object):
    def __init__(self, token):
        self.token = token

    def __eq__(self, other):
        return isinstance(other, Tok) and other.token == self.token

    def __hash__(self):
        return hash(self.token)


class CellsStub(PeriodicCells):
    def __init__(self, tokens, relative):  # noqa
        self._tokens, self._relative = list(tokens), relative

    def position_to_cell(self, position):
        LOG.cells.append(["p2c", [f2b(x) for x in position]])
        return Tok(self._tokens.pop(0))

    def nearby_cells(self, cell):
        return []

    def relative_cell(self, cell, reference_cell):
        LOG.cells.append(["rel", cell.token, reference_cell.token])
        return Tok(self._relative)

    # abstract methods of the base classes that the handler does not use
    def yield_cells(self):
        return iter(())

    @property
    def zero_cell(self):
        return Tok("zero")

    def excluded_cells(self, cell):
        return []

    def successor(self, cell, direction):
        return cell

    def cell_min(self, cell):
        return None

    def cell_max(self, cell):
        return None

    def neighbor_cell(self, cell, direction, positive):
        return cell

    def translate(self, cell, position):
        return position

    def update(self, *a):
        return None


def recording(cls):
    class Rec(cls):
        def insert(self, lifting_rate, associated_identifier, is_active):
            LOG.inserts.append([f2b(lifting_rate), list(associated_identifier), bool(is_active)])
            return super().insert(lifting_rate, associated_identifier, is_active)
    return Rec()


def build_state(job):
    nodes = []
    for u in job["units"]:
        unit = Unit(identifier=tuple(u["id"]), position=[b2f(x) for x in u["pos"]],
                    charge=None if u["charge"] is None else {"q": b2f(u["charge"])},
                    velocity=None if u["vel"] is None else [b2f(x) for x in u["vel"]],
                    time_stamp=None if u["ts"] is None else Time(b2f(u["ts"][0]), b2f(u["ts"][1])))
        nodes.append(Node(unit, weight=b2f(u["weight"])))
    roots = []
    for n, u in zip(nodes, job["units"]):
        if u["parent"] is None:
            roots.append(n)
        else:
            nodes[u["parent"]].add_child(n)
    return roots, nodes


def dump(nodes):
    out = []
    for n in nodes:
        u = n.value
        out.append([list(u.identifier), [f2b(x) for x in u.position],
                    None if u.velocity is None else [f2b(x) for x in u.velocity],
                    None if u.time_stamp is None else [f2b(u.time_stamp.quotient), f2b(u.time_stamp.remainder)]])
    return out


def run_job(job):
    """A job without "rounds" is one round.  With "rounds": the SAME handler instance (and lifting object, stub
    potentials) serves all rounds, as in the real program; every round has its own in-state, return values and draws
    and an optional "do_out": False (send_event_time only: the candidate was trashed)."""
    rounds = job.get("rounds") or [job]
    first = rounds[0]
    setting.reset()
    dim = job["dim"]
    hypercubic_setting.HypercubicSetting(beta=b2f(job["beta"]), dimension=dim, system_length=b2f(job["L"]))
    levels = 2 if any(u["parent"] is not None for u in first["units"]) else 1
    setting.set_number_of_node_levels(levels)
    nroots = sum(1 for u in first["units"] if u["parent"] is None)
    setting.set_number_of_root_nodes(nroots)
    setting.set_number_of_nodes_per_root_node(max(1, (len(first["units"]) - nroots) // max(1, nroots))
                                              if levels == 2 else 1)
    kind = job["kind"]
    ch = "q" if job["charge"] else None
    nc = job["ncharge"]
    pot = bpot = None
    if kind == "TL":
        pot = Stub(0, 1, nc, job["change_required"], [], [])
        h = TwoLeafUnitEventHandler(potential=pot, charge=ch)
    elif kind == "TLB":
        pot = Stub(0, 1, nc, False, [], [])
        bpot = Stub(2, 1, nc, True, [], [])
        h = TwoLeafUnitBoundingPotentialEventHandler(potential=pot, bounding_potential=bpot, charge=ch)
    elif kind == "PW2":
        pot = Stub(0, 1, nc, False, [], [])
        h = TwoLeafUnitEventHandlerWithPiecewiseConstantBoundingPotential(
            potential=pot, offset=b2f(job["offset"]), max_displacement=b2f(job["max_disp"]), charge=ch)
    elif kind == "FIXED":
        pot = Stub(0, len(job["separations"]) // 2, nc, False, [], [])
        h = FixedSeparationsEventHandlerWithPiecewiseConstantBoundingPotential(
            potential=pot, lifting=recording(LIFTINGS[job["lifting"]]), offset=b2f(job["offset"]),
            max_displacement=b2f(job["max_disp"]), separations=list(job["separations"]))
    elif kind == "SUMMED":
        pot = Stub(0, 1, nc, False, [], [])
        bpot = Stub(2, 1, nc, True, [], [])
        h = TwoCompositeObjectSummedBoundingPotentialEventHandler(
            potential=pot, bounding_potential=bpot, lifting=recording(LIFTINGS[job["lifting"]]), charge=ch)
    elif kind == "CELLB":
        pot = Stub(0, 1, nc, False, [], [])
        bpot = Stub(2, 1, nc, True, [], [])
        h = TwoLeafUnitCellBoundingPotentialEventHandler(potential=pot, bounding_potential=CellStub(bpot), charge=ch)
    elif kind == "CCELLB":
        pot = Stub(0, 1, nc, False, [], [])
        bpot = Stub(2, 1, nc, True, [], [])
        h = TwoCompositeObjectCellBoundingPotentialEventHandler(
            potential=pot, bounding_potential=CellStub(bpot), lifting=recording(LIFTINGS[job["lifting"]]), charge=ch)
    elif kind == "ROOTTL":
        pot = Stub(0, 1, nc, job["change_required"], [], [])
        h = RootUnitActiveTwoLeafUnitEventHandler(potential=pot, charge=ch)
    elif kind == "ROOTSUM":
        pot = Stub(0, 1, nc, False, [], [])
        bpot = Stub(2, 1, nc, True, [], [])
        h = RootUnitActiveTwoCompositeObjectSummedBoundingPotentialEventHandler(
            potential=pot, bounding_potential=bpot, charge=ch)
    elif kind == "LCV":
        pot = Stub(0, 1, nc, False, [], [])
        h = LeafUnitCellVetoEventHandler(estimator=SimpleNamespace(potential=pot), potential=pot, charge=ch)
    elif kind == "CCV":
        pot = Stub(0, 1, nc, False, [], [])
        h = CompositeObjectCellVetoEventHandler(estimator=SimpleNamespace(potential=pot),
                                                lifting=recording(LIFTINGS[job["lifting"]]), potential=pot, charge=ch)
    else:
        raise ValueError(kind)
    if kind in ("LCV", "CCV"):
        # CellVetoEventHandler.initialize = Initializer.initialize (frees the public methods) + the Walker tables of
        # send_event_time, which send_out_state does not use
        from jellyfysh.base.initializer import Initializer
        Initializer.initialize(h)
    results = []
    for rd in rounds:
        results.append(run_round(kind, h, pot, bpot, rd))
    if job.get("rounds"):
        return {"rounds": results}
    return results[0]


def run_round(kind, h, pot, bpot, rd):
    for k in ("expo", "unif", "calls", "inserts", "cells"):
        getattr(LOG, k)[:] = []
    Q.expo[:] = [b2f(x) for x in rd["expo"]]
    Q.unif[:] = [b2f(x) for x in rd["unif"]]
    ret = rd["ret"]

    def vals(key):
        v = ret.get(key, [])
        return [[b2f(y) for y in x] if isinstance(x, list) else b2f(x) for x in v]
    pot._disp, pot._der = vals("disp"), vals("der")
    if bpot is not None:
        bpot._disp, bpot._der = vals("bdisp"), vals("bder")
    if kind in ("CELLB", "CCELLB"):
        cells = CellsStub(rd["cells"]["tokens"], rd["cells"]["relative"])
        if h._cells is None:
            h.initialize(cells)
        else:
            h._cells = cells
    roots, nodes = build_state(rd)
    roots2 = nodes2 = None
    if kind in ("ROOTTL", "ROOTSUM"):
        roots2, nodes2 = build_state({"units": rd["units2"]})
    res = {}
    if kind in ("LCV", "CCV"):
        return run_cv_round(h, rd, roots, nodes, res)
    try:
        t = h.send_event_time(roots)
        if isinstance(t, tuple):
            t = t[0]
        res["time"] = [f2b(t.quotient), f2b(t.remainder)]
        res["state1"] = dump(nodes)
        res["n_calls1"] = len(LOG.calls)
        if rd.get("do_out", True):
            out = h.send_out_state() if roots2 is None else h.send_out_state(roots2)
            if out is None:
                res["out"] = None
            else:
                want = roots if roots2 is None else roots2
                res["out_is_state"] = (len(out) == len(want) and all(a is b for a, b in zip(out, want)))
                res["out"] = dump(nodes if nodes2 is None else nodes2)
        else:
            res["out"] = "skipped"
    except Exception as e:  # noqa
        import traceback
        res["exc"] = exc_enum(e) + ": " + str(e)[:200]
        res["tb"] = traceback.format_exc()[-600:]
    return finish(res)


def finish(res):
    res["expo_args"] = list(LOG.expo)
    res["unif_args"] = [list(x) for x in LOG.unif]
    res["calls"] = [list(x) for x in LOG.calls]
    res["inserts"] = [list(x) for x in LOG.inserts]
    res["cells"] = [list(x) for x in LOG.cells]
    res["left"] = [len(Q.expo), len(Q.unif)]
    return res


def run_cv_round(h, rd, roots, nodes, res):
    troots, tnodes = (None, []) if rd["target"] is None else build_state({"units": rd["target"]})
    try:
        # what CellVetoEventHandler.send_event_time leaves behind (its own code: C18 glue)
        h._store_in_state(roots)
        h._construct_leaf_cnodes()
        h._extract_active_leaf_unit()
        h._event_time = Time(b2f(rd["T"][0]), b2f(rd["T"][1]))
        h._time_slice_all_units_in_state()
        h._bounding_event_rate = b2f(rd["b"])
        res["time"] = list(rd["T"])
        res["state1"] = dump(nodes + tnodes)
        res["n_calls1"] = 0
        out = h.send_out_state(None if troots is None else troots[0])
        res["out_is_state"] = out is roots
        res["out"] = dump(nodes + tnodes)
        res["out_len"] = len(out)
    except Exception as e:  # noqa
        import traceback
        res["exc"] = exc_enum(e) + ": " + str(e)[:200]
        res["tb"] = traceback.format_exc()[-600:]
    return finish(res)


if __name__ == "__main__":
    jobs = read_payload()["jobs"]
    emit({"out": [run_job(j) for j in jobs]})
