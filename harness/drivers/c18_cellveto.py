"""Driver C18 (handler glue): run the real LeafUnitCellVetoEventHandler.send_event_time (the method is defined in
CellVetoEventHandler and shared with CompositeObjectCellVetoEventHandler) on a real CuboidPeriodicCells grid with a
stub estimator, under controlled draws.

payload = {"cases": [case, ...]};  all floats are 64-bit patterns
case = {"lengths": [L_d], "cells_per_side": [n_d], "beta": b, "cell_level": 1 | 2, "charge": None | "q",
        "cf_scale": s              stub: charge_correction_factor(c) = c * s
        "bound_seed": int          stub: derivative_bound(...) = next pair of a seeded stream (zeros and negatives included)
        "queries": [{"root_pos": [x_d], "leaf_pos": [x_d] | None (None: the root node is the leaf), "dir": k, "speed": v,
                     "charge": c, "stamp": [q, r], "row": int | "zero" | ["frac", f], "u": u, "e": Exp draw}]}
random.choice(seq) = seq[row]; random.uniform(a, b) = a + (b - a) * u; random.expovariate(beta) = e.
"""
import contextlib
import io
import random

from drvutil import read_payload, emit, f2b, b2f, exc_enum, assert_scratch
import jellyfysh.setting as setting
from jellyfysh.setting import hypercuboid_setting
from jellyfysh.activator.internal_state.cell_occupancy.cells.cuboid_periodic_cells import CuboidPeriodicCells
from jellyfysh.event_handler.leaf_unit_cell_veto_event_handler import LeafUnitCellVetoEventHandler
from jellyfysh.base.node import Node
from jellyfysh.base.unit import Unit
from jellyfysh.base.time import Time

assert_scratch()
RealRandom = random.Random


class Draw(object):
    row = 0
    u = 0.0
    e = 1.0
    last_uniform = None
    n_choice = 0
    n_uniform = 0
    n_expo = 0
    beta_seen = None
    uniform_args = []


def fake_choice(seq):
    Draw.n_choice += 1
    if not len(seq):
        raise IndexError("Cannot choose from an empty sequence")
    return seq[Draw.row]


def fake_uniform(a, b):
    Draw.n_uniform += 1
    Draw.uniform_args.append([f2b(a), f2b(b)])
    Draw.last_uniform = a + (b - a) * Draw.u
    return Draw.last_uniform


def fake_expovariate(lambd):
    Draw.n_expo += 1
    Draw.beta_seen = lambd
    return Draw.e


random.choice = fake_choice
random.uniform = fake_uniform
random.expovariate = fake_expovariate


class Pot(object):
    """stub potential: derivative returns the prescribed value and records its arguments"""
    number_separation_arguments = 1
    number_charge_arguments = 2
    der = 0.0
    ders = None
    calls = []

    def derivative(self, velocity, separation, *charges):
        Pot.calls.append([[f2b(x) for x in velocity], [f2b(x) for x in separation], [f2b(x) for x in charges]])
        if Pot.ders is not None:
            return Pot.ders[(len(Pot.calls) - 1) % len(Pot.ders)]
        return Pot.der


class Estimator(object):
    potential = Pot()

    def __init__(self, seed, cf_scale):
        self.rng = RealRandom(seed)
        self.cf_scale = cf_scale
        self.dipole_charge = 1.0
        self.calls = []

    def derivative_bound(self, lower_corner, upper_corner, direction, calculate_lower_bound=False):
        k = self.rng.random()

        def val():
            x = self.rng.random()
            if x < 0.15:
                return 0.0
            if x < 0.35:
                return -self.rng.random() * 2.0
            return self.rng.random() * 10.0 ** self.rng.randrange(-3, 2)
        ub, lb = val(), -val()
        if k < 0.1:
            ub = -abs(ub)
        if len(self.calls) < 3:      # keep every walker's total positive (at least one positive rate per direction)
            ub, lb = 0.25 + self.rng.random(), -0.25 - self.rng.random()
        self.calls.append([[f2b(x) for x in lower_corner], [f2b(x) for x in upper_corner], direction, f2b(ub), f2b(lb)])
        return ub, lb

    def charge_correction_factor(self, charge, target_charges=None):
        """like the dipole estimators: the factor of the active unit alone, or (two arguments) corrected by the largest
        |charge| of the target composite object relative to the estimator's reference dipole charge"""
        if target_charges is None:
            return charge * self.cf_scale
        return charge * self.cf_scale * max(abs(c) for c in target_charges) / self.dipole_charge


def walker_dump(w, index):
    return {"total": f2b(w.total_rate), "mean": f2b(w._mean_rate),
            "table": [[[index[it.item], f2b(it.rate)] for it in row] for row in w._table]}


def run_case(case):
    setting.reset()
    lengths = [b2f(x) for x in case["lengths"]]
    dim = len(lengths)
    hypercuboid_setting.HypercuboidSetting(beta=b2f(case["beta"]), dimension=dim, system_lengths=lengths)
    levels = 1 if case["cell_level"] == 1 and not case.get("composite") else 2
    setting.set_number_of_node_levels(levels)
    setting.set_number_of_root_nodes(4)
    npts = case.get("n_points", 2)
    setting.set_number_of_nodes_per_root_node(1 if levels == 1 else npts)
    out = {}
    try:
        cells = CuboidPeriodicCells(cells_per_side=list(case["cells_per_side"]))
        est = Estimator(case["bound_seed"], b2f(case["cf_scale"]))
        est.dipole_charge = b2f(case["dipole_charge"]) if "dipole_charge" in case else 1.0
        if case.get("handler") == "composite":
            from jellyfysh.event_handler.composite_object_cell_veto_event_handler import \
                CompositeObjectCellVetoEventHandler
            from jellyfysh.lifting.inside_first_lifting import InsideFirstLifting
            handler = CompositeObjectCellVetoEventHandler(estimator=est, lifting=InsideFirstLifting(),
                                                          charge=case["charge"])
        else:
            handler = LeafUnitCellVetoEventHandler(estimator=est, charge=case["charge"])
        with contextlib.redirect_stdout(io.StringIO()):
            handler.initialize(cells, case["cell_level"])
    except Exception as e:  # noqa
        return {"init_exc": exc_enum(e)}
    seps = list(handler._derivative_bounds)
    index = {c: i for i, c in enumerate(seps)}
    out["seps"] = [list(c.identifier) for c in seps]
    out["bounds"] = [[[f2b(a), f2b(b)] for a, b in handler._derivative_bounds[c]] for c in seps]
    out["estimator_calls"] = est.calls
    out["nearby_zero"] = sorted(list(c.identifier) for c in cells.nearby_cells(cells.zero_cell))
    out["n_cells"] = sum(1 for _ in cells.yield_cells())
    out["upper"] = [walker_dump(w, index) for w in handler._upper_bound_walker]
    out["lower"] = [walker_dump(w, index) for w in handler._lower_bound_walker]
    out["queries"] = []
    for q in case["queries"]:
        d = q["dir"]
        vel = [0.0] * dim
        vel[d] = b2f(q["speed"])
        charge = {"q": b2f(q["charge"])}
        stamp = Time(b2f(q["stamp"][0]), b2f(q["stamp"][1]))
        root_pos = [b2f(x) for x in q["root_pos"]]
        if q["leaf_pos"] is None:
            root = Node(Unit(identifier=(0,), position=root_pos, charge=charge, velocity=vel, time_stamp=stamp))
            leaf = root
        else:
            root = Node(Unit(identifier=(0,), position=root_pos, charge=None, velocity=[v / npts for v in vel],
                             time_stamp=Time(stamp.quotient, stamp.remainder)), weight=1)
            leaf = Node(Unit(identifier=(0, 0), position=[b2f(x) for x in q["leaf_pos"]], charge=charge, velocity=vel,
                             time_stamp=stamp), weight=1.0 / npts)
            root.add_child(leaf)
            lch = q.get("lcharges") or [q["charge"]] * (npts - 1)
            for k in range(1, npts):
                root.add_child(Node(Unit(identifier=(0, k), position=[b2f(x) for x in q["leaf_pos"]],
                                         charge={"q": b2f(lch[k - 1])})))
        cf = est.charge_correction_factor(charge["q"] if case["charge"] else 1.0)
        w = (handler._upper_bound_walker if cf > 0.0 else handler._lower_bound_walker)[d]
        row = q["row"]
        if row == "zero":
            zs = [i for i, r in enumerate(w._table) if r[0].rate == 0.0]
            row = zs[0] if zs else 0
        elif isinstance(row, list):
            row = min(int(b2f(row[1]) * len(w._table)), len(w._table) - 1)
        rel_node = leaf
        while len(rel_node.value.identifier) > case["cell_level"]:
            rel_node = rel_node.parent
        active_cell = list(cells.position_to_cell(rel_node.value.position).identifier)
        Draw.row, Draw.u, Draw.e = row, b2f(q["u"]), b2f(q["e"])
        Draw.n_choice = Draw.n_uniform = Draw.n_expo = 0
        Draw.last_uniform = None
        Draw.beta_seen = None
        res = {"row": row, "active_cell": active_cell}
        in_state = [root]
        try:
            t, extra = handler.send_event_time(in_state)
            res.update({"time": [f2b(t.quotient), f2b(t.remainder)], "target": list(extra[0].identifier),
                        "n_extra": len(extra), "ber": f2b(handler._bounding_event_rate),
                        "leaf_pos_after": [f2b(x) for x in leaf.value.position],
                        "leaf_stamp_after": [f2b(leaf.value.time_stamp.quotient), f2b(leaf.value.time_stamp.remainder)]})
        except Exception as e:  # noqa
            res["exc"] = exc_enum(e)
        res["uniform"] = None if Draw.last_uniform is None else f2b(Draw.last_uniform)
        res["calls"] = [Draw.n_choice, Draw.n_uniform, Draw.n_expo]
        res["beta_seen"] = None if Draw.beta_seen is None else f2b(Draw.beta_seen)
        out_q = q.get("out")
        if out_q is not None and "exc" not in res and case.get("handler") == "composite":
            # CompositeObjectCellVetoEventHandler.send_out_state: empty cell (None) or a target composite object
            Draw.n_uniform = 0
            Draw.uniform_args = []
            Pot.calls = []
            o = {"vel_before": [f2b(x) for x in leaf.value.velocity]}
            leaves = [c for c in root.children]
            try:
                if out_q["mode"] == "empty":
                    st = handler.send_out_state(None)
                else:
                    Pot.ders = [b2f(x) for x in out_q["ders"]]
                    Draw.u = b2f(out_q["uc"])
                    troot = Node(Unit(identifier=(1,), position=[b2f(x) for x in out_q["tpos"]], charge=None), weight=1)
                    for k, tc in enumerate(out_q["tcharges"]):
                        troot.add_child(Node(Unit(identifier=(1, k), position=[b2f(x) for x in out_q["tleafpos"][k]],
                                                  charge={"q": b2f(tc)}), weight=1.0 / npts))
                    leaves = leaves + list(troot.children)
                    st = handler.send_out_state(troot)
                o["same_list"] = st is in_state
                o["state_ids"] = [list(n.value.identifier) for n in st]
                o["leaf_vels"] = [[list(c.value.identifier),
                                   None if c.value.velocity is None else [f2b(x) for x in c.value.velocity]]
                                  for c in leaves]
            except Exception as e:  # noqa
                o["exc"] = exc_enum(e)
            finally:
                Pot.ders = None
            o["n_uniform"] = Draw.n_uniform
            o["uniform_args"] = Draw.uniform_args
            o["pot_calls"] = Pot.calls
            res["out"] = o
        elif out_q is not None and "exc" not in res:
            # LeafUnitCellVetoEventHandler.send_out_state: empty target cell (None) or a root-level target unit
            Draw.n_uniform = 0
            Draw.last_uniform = None
            Pot.calls = []
            vel_before = [f2b(x) for x in leaf.value.velocity]
            o = {"vel_before": vel_before}
            try:
                if out_q["mode"] == "empty":
                    st = handler.send_out_state(None)
                    tnode = None
                else:
                    Pot.der = b2f(out_q["der"])
                    Draw.u = b2f(out_q["uc"])
                    tnode = Node(Unit(identifier=(1,), position=[b2f(x) for x in out_q["tpos"]],
                                      charge={"q": b2f(out_q["tcharge"])}))
                    st = handler.send_out_state(tnode)
                o["same_list"] = st is in_state
                o["state_ids"] = [list(n.value.identifier) for n in st]
                o["active_vel"] = None if leaf.value.velocity is None else [f2b(x) for x in leaf.value.velocity]
                o["active_stamp_none"] = leaf.value.time_stamp is None
                if tnode is not None:
                    tu = tnode.value
                    o["target_vel"] = None if tu.velocity is None else [f2b(x) for x in tu.velocity]
                    o["target_stamp"] = None if tu.time_stamp is None else [f2b(tu.time_stamp.quotient),
                                                                            f2b(tu.time_stamp.remainder)]
                    o["target_pos"] = [f2b(x) for x in tu.position]
            except Exception as e:  # noqa
                o["exc"] = exc_enum(e)
            o["n_uniform"] = Draw.n_uniform
            o["uniform"] = None if Draw.last_uniform is None else f2b(Draw.last_uniform)
            o["pot_calls"] = Pot.calls
            res["out"] = o
        out["queries"].append(res)
    setting.reset()
    return out


if __name__ == "__main__":
    cases = read_payload()["cases"]
    emit({"out": [run_case(c) for c in cases]})
