"""Driver C07 (handler level): the end-of-chain event handlers (periodic / sequential direction) on constructed branches:
send_event_time, then send_out_state, and the handler's stored last committed event time afterwards."""
from drvutil import read_payload, emit, f2b, b2f, exc_enum, assert_scratch
import jellyfysh.setting as setting
from jellyfysh.setting.hypercubic_setting import HypercubicSetting
from jellyfysh.base.node import Node
from jellyfysh.base.unit import Unit
from jellyfysh.base.time import Time
from jellyfysh.event_handler.single_independent_active_periodic_direction_end_of_chain_event_handler import \
    SingleIndependentActivePeriodicDirectionEndOfChainEventHandler as Periodic
from jellyfysh.event_handler.single_independent_active_sequential_direction_end_of_chain_event_handler import \
    SingleIndependentActiveSequentialDirectionEndOfChainEventHandler as Sequential

assert_scratch()
cases = read_payload()["cases"]
out = []


def build(branch):
    """branch = {"id", "pos":[bits], "vel":[bits]|None, "ts":[q,r]|None, "w": bits, "children":[…]}"""
    u = Unit(tuple(branch["id"]), [b2f(x) for x in branch["pos"]], None,
             None if branch["vel"] is None else [b2f(x) for x in branch["vel"]],
             None if branch["ts"] is None else Time(b2f(branch["ts"][0]), b2f(branch["ts"][1])))
    n = Node(u, weight=b2f(branch["w"]))
    for c in branch.get("children", []):
        n.add_child(build(c))
    return n


def flat(nodes, acc):
    for n in nodes:
        u = n.value
        acc.append({"id": list(u.identifier), "pos": [f2b(x) for x in u.position],
                    "vel": None if u.velocity is None else [f2b(x) for x in u.velocity],
                    "ts": None if u.time_stamp is None else [f2b(u.time_stamp.quotient), f2b(u.time_stamp.remainder)]})
        flat(n.children, acc)
    return acc


for c in cases:
    o = {}
    try:
        HypercubicSetting(beta=1.0, dimension=c["dim"], system_length=b2f(c["L"]))
        setting.set_number_of_node_levels(c["levels"])
        setting.set_number_of_root_nodes(5)
        setting.set_number_of_nodes_per_root_node(c["per_root"])
        if c["delta_phi"] is None:
            h = Periodic(chain_time=b2f(c["chain"]))
        else:
            h = Sequential(chain_time=b2f(c["chain"]), delta_phi_degree=b2f(c["delta_phi"]))
            o["cs"] = [f2b(h._cos_delta_phi), f2b(h._sin_delta_phi)]
        h._last_committed_event_time = Time(b2f(c["last"][0]), b2f(c["last"][1]))
        old = build(c["old"])
        new = build(c["new"])
        try:
            t, ids = h.send_event_time([old])
            o["T"] = [f2b(t.quotient), f2b(t.remainder)]
            o["n_ids"] = len(ids)
        except Exception as e:  # noqa
            o["T"] = None
            o["exc_T"] = exc_enum(e)
        if o["T"] is not None:
            try:
                res = h.send_out_state([old], [new])
                o["out"] = flat(res, [])
                o["n_branches"] = len(res)
            except Exception as e:  # noqa
                o["out"] = None
                o["exc_out"] = exc_enum(e) + ": " + str(e)[:100]
            lt = h._last_committed_event_time
            o["last_after"] = [f2b(lt.quotient), f2b(lt.remainder)]
    except Exception as e:  # noqa
        o = {"exc": exc_enum(e), "msg": str(e)[:200]}
    finally:
        setting.reset()
    out.append(o)
emit({"out": out})
