"""Driver C14: run jellyfysh.base.time.Time on bit-level inputs."""
from drvutil import read_payload, emit, f2b, b2f, exc_enum, assert_scratch
from jellyfysh.base.time import Time, inf

import copy
import pickle

assert_scratch()
GARBAGE = (12345.0, 0.8125)


def _clone(t, how):
    if how == "copy":
        return copy.copy(t)
    if how == "deepcopy":
        return copy.deepcopy(t)
    if how == "pickle":
        return pickle.loads(pickle.dumps(t))
    if how == "dill":
        import dill
        return dill.loads(dill.dumps(t))
    raise ValueError(how)


class Keeper(object):
    """Keeps every Time object returned so far alive and re-reads it after every mutation: only the object that was
    deliberately mutated may change; results of operations must be new objects and never the module constant."""

    def __init__(self):
        self.kept = []          # [object, snapshot, label]
        self.msgs = []

    @staticmethod
    def snap(t):
        return (f2b(t.quotient), f2b(t.remainder))

    def returned(self, obj, label):
        """obj was just returned by an operation that must produce a new Time"""
        if obj is inf:
            self.msgs.append("%s is the module constant jellyfysh.base.time.inf itself" % label)
        for o, _, lab in self.kept:
            if o is obj:
                self.msgs.append("%s is the same object as %s" % (label, lab))
                break
        self.kept.append([obj, self.snap(obj), label])

    def mutated(self, obj):
        """obj was deliberately changed in place: everything else must be what it was"""
        for e in self.kept:
            if e[0] is obj:
                e[1] = self.snap(obj)
        self.recheck()

    def recheck(self):
        for e in self.kept:
            if self.snap(e[0]) != e[1]:
                self.msgs.append("%s was changed by a mutation of another object" % e[2])
                e[1] = self.snap(e[0])
        if self.snap(inf) != (f2b(float("inf")), f2b(float("inf"))):
            m = "the module constant jellyfysh.base.time.inf is no longer Time(inf, inf)"
            if m not in self.msgs:
                self.msgs.append(m)


def scheduler_probe(msgs):
    """a finite event pushed into fresh schedulers (together with an infinite one) comes back"""
    from jellyfysh.scheduler.heap_scheduler import HeapScheduler
    from jellyfysh.scheduler.list_scheduler import ListScheduler

    class H(object):
        pass
    for cls in (HeapScheduler, ListScheduler):
        try:
            sch = cls()
            a, b = H(), H()
            sch.push_event(Time(1.0, 0.5) + float("inf"), b)
            sch.push_event(Time(3.0, 0.25), a)
            if sch.get_succeeding_event() is not a:
                msgs.append("%s did not hand back the finite event pushed after the object history" % cls.__name__)
        except Exception as e:  # noqa
            msgs.append("%s raised %s for a finite event pushed after the object history" % (cls.__name__, exc_enum(e)))


def run_hist(op):
    """["hist", steps, [q2, r2], d]: build ONE Time object through a history of constructions, results of + and
    from_float, update() calls and copies, then apply every operation to the final object.  Every Time object that was
    ever returned is kept alive and re-read after each mutation; sources of update() and originals of copies are
    overwritten afterwards, so aliasing would show."""
    t = None
    alias_ok = 1
    K = Keeper()
    trail = []
    for n, st in enumerate(op[1]):
        k = st[0]
        if k == "new":
            t = Time(b2f(st[1]), b2f(st[2]))
            K.returned(t, "the Time constructed in step %d" % n)
        elif k == "from":
            t = Time.from_float(b2f(st[1]))
            K.returned(t, "the result of from_float in step %d" % n)
        elif k == "add":
            t = t + b2f(st[1])
            K.returned(t, "the result of + %r in step %d" % (b2f(st[1]), n))
        elif k in ("upd", "updadd", "updfrom", "updinf"):
            if k == "upd":
                src = Time(b2f(st[1]), b2f(st[2]))
            elif k == "updadd":
                src = Time(b2f(st[1]), b2f(st[2])) + b2f(st[3])
            elif k == "updfrom":
                src = Time.from_float(b2f(st[1]))
            else:
                src = inf
            if src is not inf:
                K.returned(src, "the source of update() in step %d" % n)
            before = K.snap(src)
            r = t.update(src)
            if r is not None or K.snap(src) != before:
                alias_ok = 0
            K.mutated(t)
            if src is not inf:
                src.update(Time(*GARBAGE))      # must not reach t
                K.mutated(src)
        elif k in ("copy", "deepcopy", "pickle", "dill"):
            old = t
            t = _clone(old, k)
            if t is old or type(t) is not Time:
                alias_ok = 0
            K.returned(t, "the %s made in step %d" % (k, n))
            if old is not inf:
                old.update(Time(*GARBAGE))      # must not reach the copy
                K.mutated(old)
        else:
            raise ValueError("unknown step " + str(k))
        trail.append([f2b(t.quotient), f2b(t.remainder)])
    b = Time(b2f(op[2][0]), b2f(op[2][1]))
    d = b2f(op[3])
    res = [f2b(t.quotient), f2b(t.remainder),
           int(t == b), int(t != b), int(t < b), int(t > b), int(t <= b), int(t >= b),
           int(b == t), int(b != t), int(b < t), int(b > t), int(b <= t), int(b >= t)]
    s = t + d
    K.returned(s, "the result of the final +")
    res += [f2b(s.quotient), f2b(s.remainder), f2b(t - b), f2b(b - t)]
    K.recheck()
    # a fresh t + inf is infinite, equals the module constant and is greater than a finite time
    z = Time(1.0, 0.5) + float("inf")
    fin = Time(2.0 ** 52, 0.5)
    if K.snap(z) != (f2b(float("inf")), f2b(float("inf"))) or not (fin < z) or not (z > fin) or not (fin < inf) \
            or not (z == inf) or (z < fin):
        K.msgs.append("after the history a fresh t + inf is not an infinite time greater than every finite time")
    scheduler_probe(K.msgs)
    if K.msgs:
        alias_ok = 0
    res += [alias_ok]
    # and the object is still what it was (operations do not change it)
    res += [f2b(t.quotient), f2b(t.remainder), trail, K.msgs[:4]]
    return res


def run_heappurge(op):
    """["heappurge", times, victim, stale, new]: one event per handler (times[i] for handler i), the victim handler
    additionally pushed and trashed several stale events before; then its lazy-deletion counter is put beyond the range
    of a C unsigned int, so that the next push_event purges all its entries (delete_events) and re-inserts; finally the
    heap is drained.  Returns the order of handler indices."""
    from jellyfysh.scheduler.heap_scheduler import HeapScheduler

    class H(object):
        def __init__(self, i):
            self.i = i
    sch = HeapScheduler()
    times, victim, stale, new = op[1], int(op[2]), op[3], op[4]
    hs = [H(i) for i in range(len(times))]
    v = hs[victim]
    k = 0
    for i, (q, r) in enumerate(times):
        if i != victim:
            sch.push_event(Time(b2f(q), b2f(r)), hs[i])
        if k < len(stale):                       # interleave the victim's stale events
            sch.push_event(Time(b2f(stale[k][0]), b2f(stale[k][1])), v)
            sch.trash_event(v)
            k += 1
    while k < len(stale):
        sch.push_event(Time(b2f(stale[k][0]), b2f(stale[k][1])), v)
        sch.trash_event(v)
        k += 1
    sch._minimal_valid_counter[v] = 2 ** 32 + 5      # what 2^32 trash_event calls lead to
    sch.push_event(Time(b2f(new[0]), b2f(new[1])), v)
    if sch._minimal_valid_counter[v] != 0:
        return ["ERR", "no purge happened (counter %r)" % sch._minimal_valid_counter[v]]
    order = []
    for _ in hs:
        h = sch.get_succeeding_event()
        order.append(h.i)
        sch.trash_event(h)
    return order


ops = read_payload()["ops"]
out = []
for op in ops:
    k = op[0]
    try:
        if k == "add":
            t = Time(b2f(op[1]), b2f(op[2])) + b2f(op[3])
            out.append([f2b(t.quotient), f2b(t.remainder)])
        elif k == "from":
            t = Time.from_float(b2f(op[1]))
            out.append([f2b(t.quotient), f2b(t.remainder)])
        elif k == "sub":
            out.append([f2b(Time(b2f(op[1]), b2f(op[2])) - Time(b2f(op[3]), b2f(op[4])))])
        elif k == "cmpinf":
            # comparisons against the MODULE-LEVEL singleton `inf` (what the schedulers use), in both orders, and of an
            # infinite time built by arithmetic (t + inf, from_float(inf)) against it
            a = Time(b2f(op[1]), b2f(op[2]))
            which = op[3]
            if which == 1:
                a = a + float("inf")
            elif which == 2:
                a = Time.from_float(float("inf"))
            out.append([int(a == inf), int(a != inf), int(a < inf), int(a > inf), int(a <= inf), int(a >= inf),
                        int(inf == a), int(inf != a), int(inf < a), int(inf > a), int(inf <= a), int(inf >= a)])
        elif k == "cmp":
            a = Time(b2f(op[1]), b2f(op[2]))
            b = Time(b2f(op[3]), b2f(op[4]))
            out.append([int(a == b), int(a != b), int(a < b), int(a > b), int(a <= b), int(a >= b)])
        elif k == "heap":
            from jellyfysh.scheduler.heap_scheduler import HeapScheduler

            class H(object):
                def __init__(self, i):
                    self.i = i
            sch = HeapScheduler()
            hs = [H(i) for i in range(len(op[1]))]
            for h, (q, r) in zip(hs, op[1]):
                sch.push_event(Time(b2f(q), b2f(r)), h)
            order = []
            for _ in hs:
                h = sch.get_succeeding_event()
                order.append(h.i)
                sch.trash_event(h)
            out.append(order)
        elif k == "hist":
            out.append(run_hist(op))
        elif k == "heappurge":
            out.append(run_heappurge(op))
        elif k == "inf":
            out.append([f2b(inf.quotient), f2b(inf.remainder)])
        else:
            out.append(["ERR", "unknown op"])
    except Exception as e:  # noqa
        out.append(["EXC", exc_enum(e)])
emit({"out": out})
