"""Driver C14: run jellyfysh.base.time.Time on bit-level inputs."""
from drvutil import read_payload, emit, f2b, b2f, exc_enum, assert_scratch
from jellyfysh.base.time import Time, inf

assert_scratch()
ops = read_payload()["ops"]
out = []
for op in ops:
    k = op[0]
    try:
        if k == "add":
            t = Time(b2f(op[1]), b2f(op[2])) + b2f(op[3])
            out.append([f2b(t.quotient), f2b(t.remainder)])
        elif k == "from":
            t = Time.from_float(b2f(op[1]))
            out.append([f2b(t.quotient), f2b(t.remainder)])
        elif k == "sub":
            out.append([f2b(Time(b2f(op[1]), b2f(op[2])) - Time(b2f(op[3]), b2f(op[4])))])
        elif k == "cmpinf":
            # comparisons against the MODULE-LEVEL singleton `inf` (what the schedulers use), in both orders, and of an
            # infinite time built by arithmetic (t + inf, from_float(inf)) against it
            a = Time(b2f(op[1]), b2f(op[2]))
            which = op[3]
            if which == 1:
                a = a + float("inf")
            elif which == 2:
                a = Time.from_float(float("inf"))
            out.append([int(a == inf), int(a != inf), int(a < inf), int(a > inf), int(a <= inf), int(a >= inf),
                        int(inf == a), int(inf != a), int(inf < a), int(inf > a), int(inf <= a), int(inf >= a)])
        elif k == "cmp":
            a = Time(b2f(op[1]), b2f(op[2]))
            b = Time(b2f(op[3]), b2f(op[4]))
            out.append([int(a == b), int(a != b), int(a < b), int(a > b), int(a <= b), int(a >= b)])
        elif k == "heap":
            from jellyfysh.scheduler.heap_scheduler import HeapScheduler

            class H(object):
                def __init__(self, i):
                    self.i = i
            sch = HeapScheduler()
            hs = [H(i) for i in range(len(op[1]))]
            for h, (q, r) in zip(hs, op[1]):
                sch.push_event(Time(b2f(q), b2f(r)), h)
            order = []
            for _ in hs:
                h = sch.get_succeeding_event()
                order.append(h.i)
                sch.trash_event(h)
            out.append(order)
        elif k == "inf":
            out.append([f2b(inf.quotient), f2b(inf.remainder)])
        else:
            out.append(["ERR", "unknown op"])
    except Exception as e:  # noqa
        out.append(["EXC", exc_enum(e)])
emit({"out": out})
