"""Driver C16: build real CuboidPeriodicCells / CuboidCells grids and report, bit-exactly,
the recorded extents, position_to_cell on boundary-adjacent and random positions, and the
neighbour / nearby / relative / translate / zero relations as flat indices into yield_cells()."""
import math
import random

from drvutil import read_payload, emit, f2b, b2f, exc_enum, assert_scratch
import jellyfysh.setting as setting
from jellyfysh.setting import hypercuboid_setting
from jellyfysh.activator.internal_state.cell_occupancy.cells.cuboid_periodic_cells import CuboidPeriodicCells
from jellyfysh.activator.internal_state.cell_occupancy.cells.cuboid_cells import CuboidCells
from jellyfysh.activator.internal_state.cell_occupancy.cells import cuboid_cells as cc_module

assert_scratch()


def neighbours_of(x, k):
    """x and the k floats above and below it."""
    out = [x]
    a = b = x
    for _ in range(k):
        a = math.nextafter(a, math.inf)
        b = math.nextafter(b, -math.inf)
        out += [a, b]
    return out


def auto_positions(g, lengths, ns, cell_list, rng):
    """Per direction: all floats within 3 ulps of every recorded cell_min / cell_max, of i*L/n, of 0 and of L
    (kept in [0, L)), plus random positions; combined into position vectors."""
    dim = len(lengths)
    per_dir = []
    for k in range(dim):
        L = lengths[k]
        cand = set()
        ext = {}
        for c in cell_list:
            ext[c.identifier[k]] = (c.cell_min[k], c.cell_max[k])
        for i, (mn, mx) in ext.items():
            for v in neighbours_of(mn, 3) + neighbours_of(mx, 3):
                cand.add(v)
        for i in range(ns[k] + 1):
            for v in neighbours_of(i * (L / ns[k]), 1) + [L * i / ns[k]]:
                cand.add(v)
        for v in neighbours_of(0.0, 3) + neighbours_of(L, 3):
            cand.add(v)
        for _ in range(g.get("nrand", 20)):
            u = rng.random()
            cand.add(u * L)
            i = rng.randrange(ns[k])
            cand.add((i + rng.choice([0.0, 1e-16, 1 - 1e-16, 0.5, rng.random()])) * (L / ns[k]))
        vals = sorted(v for v in cand if 0.0 <= v < L)
        vals = [0.0 if v == 0.0 else v for v in vals]  # no negative zero (the code asserts 0.0 <= x, true for -0.0 too)
        if g.get("with_L", False):
            vals.append(L)
        rng.shuffle(vals)
        per_dir.append(vals)
    m = max(len(v) for v in per_dir)
    return [[per_dir[k][j % len(per_dir[k])] for k in range(dim)] for j in range(m)]


def run_grid(g):
    lengths = [b2f(b) for b in g["lengths"]]
    ns = list(g["ns"])
    dim = len(lengths)
    out = {"exc": None}
    hypercuboid_setting.HypercuboidSetting(beta=1.0, dimension=dim, system_lengths=lengths)
    setting.set_number_of_node_levels(1)
    setting.set_number_of_root_nodes(1)
    setting.set_number_of_nodes_per_root_node(1)
    try:
        cls = CuboidPeriodicCells if g["periodic"] else CuboidCells
        try:
            # "cps" = the cells_per_side argument as given (may be shorter than the dimension: the first entry is
            # reused for the remaining directions); "ns" = the harness's expectation of the padded counts
            cells = cls(cells_per_side=list(g.get("cps", ns)), neighbor_layers=g["layers"])
        except Exception as e:  # noqa
            out["exc"] = exc_enum(e)
            return out
        cell_list = list(cells.yield_cells())
        index_of = {c: k for k, c in enumerate(cell_list)}
        out["cells"] = [[list(c.identifier), [f2b(v) for v in c.cell_min], [f2b(v) for v in c.cell_max]]
                        for c in cell_list]
        out["sides"] = [f2b(v) for v in cells._cell_side_lengths]
        out["cells_per_side"] = [int(v) for v in cells._cells_per_side]
        if g.get("positions") is not None:
            vecs = [[b2f(b) for b in v] for v in g["positions"]]
        else:
            vecs = auto_positions(g, lengths, ns, cell_list, random.Random(g.get("seed", 0)))
        pos = []
        for v in vecs:
            try:
                c = cells.position_to_cell(list(v))
                pos.append([[f2b(x) for x in v], index_of[c]])
            except Exception as e:  # noqa
                pos.append([[f2b(x) for x in v], "EXC:" + exc_enum(e)])
        out["pos"] = pos
        if g.get("torus", False):
            t = {}
            try:
                nbr = []
                for c in cell_list:
                    row = []
                    for d in range(dim):
                        for positive in (True, False):
                            r = cells.neighbor_cell(c, d, positive)
                            row.append(-1 if r is None else index_of[r])
                    nbr.append(row)
                t["nbr"] = nbr
                t["nearby"] = [sorted(index_of[x] for x in cells.nearby_cells(c)) for c in cell_list]
                t["nearby_sizes"] = [len(cells.nearby_cells(c)) for c in cell_list]
                if g["periodic"]:
                    t["zero"] = index_of[cells.zero_cell]
                    t["rel"] = [[index_of[cells.relative_cell(c, r)] for r in cell_list] for c in cell_list]
                    t["trans"] = [[index_of[cells.translate(c, r)] for r in cell_list] for c in cell_list]
            except Exception as e:  # noqa
                t["exc"] = exc_enum(e)
            out["torus"] = t
        return out
    finally:
        setting.reset()


payload = read_payload()
res = {"grids": [run_grid(g) for g in payload.get("grids", [])]}
nx = []
for b in payload.get("next", []):
    x = b2f(b)
    nx.append([b, f2b(cc_module._next_float_up(x)), f2b(cc_module._next_float_down(x))])
res["next"] = nx
emit(res)
