"""Driver C04: the REAL bounding-potential event handlers and the compiled Coulomb potentials.

Payload {"mode": ...}:
  "dom"      domination monitor: evaluate MergedImageCoulombPotential.derivative and
             InversePowerCoulombBoundingPotential.derivative (through the Python classes, i.e. including prefactor
             and charge glue) on generated separations; returns the K highest ratios true/bound with raw bits.
  "handlers" drive send_event_time / send_out_state of the handlers with patched random.uniform / expovariate.
  "runs"     run a shipped configuration with bounding_potential_warning intercepted at every call site.
"""
import copy
import math
import os
import random
import sys

from drvutil import read_payload, emit, f2b, b2f, exc_enum, assert_scratch
import jellyfysh.setting as setting
from jellyfysh.setting import hypercubic_setting

assert_scratch()


# ----------------------------------------------------------------------------------------------------
def make_potentials(cfg):
    from jellyfysh.potential.merged_image_coulomb_potential import MergedImageCoulombPotential
    from jellyfysh.potential.inverse_power_coulomb_bounding_potential import InversePowerCoulombBoundingPotential
    kw = {}
    for k in ("alpha", "fourier_cutoff", "position_cutoff"):
        if cfg.get(k) is not None:
            kw[k] = cfg[k]
    if cfg.get("km") is not None:
        kw["prefactor"] = cfg["km"]
    pot = MergedImageCoulombPotential(**kw)
    bnd = InversePowerCoulombBoundingPotential(**({} if cfg.get("kb") is None else {"prefactor": cfg["kb"]}))
    return pot, bnd


def default_prefactor():
    import inspect
    from jellyfysh.potential.inverse_power_coulomb_bounding_potential import InversePowerCoulombBoundingPotential
    return inspect.signature(InversePowerCoulombBoundingPotential.__init__).parameters["prefactor"].default


def gen_points(rng, L, n, strata):
    """separations in the minimum-image cube [-L/2, L/2]^3, stratified (see harness/c04.py)."""
    h = L / 2.0
    pts = []
    for _ in range(n):
        s = rng.choice(strata)
        if s == "uniform":
            p = [rng.uniform(-h, h) for _ in range(3)]
        elif s == "origin":          # log-uniform radius, uniform direction
            r = h * 10.0 ** rng.uniform(-6.0, 0.0)
            v = [rng.gauss(0, 1) for _ in range(3)]
            nv = math.sqrt(sum(x * x for x in v)) or 1.0
            p = [max(-h, min(h, r * x / nv)) for x in v]
        elif s == "faces":           # one or more coordinates within 10^-k of a face
            p = [rng.uniform(-h, h) for _ in range(3)]
            for d in rng.sample(range(3), rng.randrange(1, 4)):
                p[d] = rng.choice([-1, 1]) * (h - h * 10.0 ** rng.uniform(-9.0, -0.5))
        elif s == "faces_exact":
            p = [rng.uniform(-h, h) for _ in range(3)]
            for d in rng.sample(range(3), rng.randrange(1, 4)):
                p[d] = rng.choice([-h, h, math.nextafter(h, 0), -math.nextafter(h, 0)])
        elif s == "axis":            # small component along one direction, others anywhere (incl. near faces)
            p = [rng.uniform(-h, h) for _ in range(3)]
            d = rng.randrange(3)
            p[d] = rng.choice([-1, 1]) * h * 10.0 ** rng.uniform(-9.0, -0.3)
            if rng.random() < 0.5:
                for e in range(3):
                    if e != d and rng.random() < 0.7:
                        p[e] = rng.choice([-1, 1]) * (h - h * 10.0 ** rng.uniform(-6.0, -0.3))
        elif s == "edge":            # the supremum of the ratio: component along one direction -> 0, the other two at +-L/2
            d = rng.randrange(3)
            p = [0.0, 0.0, 0.0]
            for e in range(3):
                if e == d:
                    p[e] = rng.choice([-1, 1]) * h * 10.0 ** rng.uniform(-17.0, -1.0)
                else:
                    q = rng.random()
                    p[e] = rng.choice([-1, 1]) * (h if q < 0.3 else math.nextafter(h, 0) if q < 0.4
                                                  else h - h * 10.0 ** rng.uniform(-12.0, -1.0))
        elif s == "tiny":            # zero / denormal / tiny component along one direction (rounding residues)
            p = [rng.uniform(-h, h) for _ in range(3)]
            p[rng.randrange(3)] = rng.choice([0.0, -0.0, 5e-324, -5e-324, 1e-300, -1e-200, 1e-30, -1e-60,
                                              10.0 ** rng.uniform(-300, -17) * rng.choice([-1, 1])])
        elif s == "peak":            # neighbourhood of the best point found so far by the caller
            c = rng.choice(strata_peaks) if strata_peaks else [0.0, 0.0, 0.0]
            w = h * 10.0 ** rng.uniform(-5.0, -1.0)
            p = [max(-h, min(h, c[d] * L + rng.uniform(-w, w))) for d in range(3)]
        else:
            raise ValueError(s)
        pts.append(p)
    return pts


strata_peaks = []


def run_dom(cfg):
    global strata_peaks
    setting.reset()
    L = b2f(cfg["L"])
    hypercubic_setting.HypercubicSetting(beta=1.0, dimension=3, system_length=L)
    setting.set_number_of_root_nodes(2)
    setting.set_number_of_nodes_per_root_node(1)
    setting.set_number_of_node_levels(1)
    pot, bnd = make_potentials(cfg)
    orig_pot, orig_bnd = pot, bnd
    deep = bool(cfg.get("deepcopy"))
    if deep and cfg.get("deepcopy") == "dill":
        # what resume.py does with the whole mediator: the potentials go through dill (__getstate__ / __setstate__)
        import dill
        pot, bnd = dill.loads(dill.dumps(pot)), dill.loads(dill.dumps(bnd))
    elif deep:
        # MergedImageCoulombPotential.__deepcopy__ copies the C structure (copy_merged_image_coulomb_potential)
        pot, bnd = copy.deepcopy(pot), copy.deepcopy(bnd)
    copy_mismatch = []
    ncompared = 0
    rng = random.Random(cfg["seed"])
    strata_peaks = cfg.get("peaks") or []
    K = cfg.get("top", 20)
    if cfg.get("points") is not None:
        pts = [[b2f(x) for x in p] for p in cfg["points"]]
    else:
        pts = gen_points(rng, L, cfg["n"], cfg["strata"])
    vel = [[1.0, 0.0, 0.0], [0.0, 1.0, 0.0], [0.0, 0.0, 1.0]]
    charges = [(1.0, 1.0), (1.0, -1.0), (-1.0, 1.0), (-1.0, -1.0)]
    top = []       # (score, record)
    big = []       # (true rate, record) of violating evaluations
    clean = []     # (score, record) with |component along the motion| >= 1e-9 L (outside the rounding-noise region)
    floor = cfg.get("floor", 0.0) / (L * L)
    residues = 0
    max_residue = 0.0
    nviol = 0
    neval = 0
    npos = 0
    hist = [0] * 22   # ratio histogram in steps of 0.05 (last bin: > 1.05 or bound <= 0)
    for p in pts:
        for d in cfg.get("directions", [0, 1, 2]):
            for (c1, c2) in (charges if cfg.get("all_charges") else charges[:2]):
                t = pot.derivative(vel[d], p, c1, c2)
                b = bnd.derivative(vel[d], p, c1, c2)
                neval += 1
                if deep and neval % 4 == 0:
                    # a deep copy must report the rates of the configured potential, bit for bit
                    t0 = orig_pot.derivative(vel[d], p, c1, c2)
                    b0 = orig_bnd.derivative(vel[d], p, c1, c2)
                    ncompared += 1
                    if (f2b(t0) != f2b(t) or f2b(b0) != f2b(b)) and len(copy_mismatch) < 5:
                        copy_mismatch.append([[f2b(x) for x in p], d, [c1, c2], f2b(t), f2b(b), f2b(t0), f2b(b0)])
                if not t > 0.0:
                    if t != t:      # NaN from the implementation
                        nviol += 1
                        top.append((math.inf, [[f2b(x) for x in p], d, [c1, c2], f2b(t), f2b(b)]))
                    continue
                if t <= floor:
                    if not b > 0.0:          # rounding residue of the lattice sum where the bound vanishes
                        residues += 1
                        max_residue = max(max_residue, t)
                    continue
                npos += 1
                score = t / b if b > 0.0 else math.inf
                hist[min(21, int(score / 0.05)) if score != math.inf else 21] += 1
                if score > 1.0 + 1e-12:
                    nviol += 1
                    # keep the violations with the largest true rate as well (the ratio peaks where rates vanish)
                    if len(big) < K or t > big[-1][0]:
                        big.append((t, [[f2b(x) for x in p], d, [c1, c2], f2b(t), f2b(b)]))
                        big.sort(key=lambda x: -x[0])
                        del big[K:]
                if abs(p[d]) >= 1e-9 * L and score != math.inf and (len(clean) < 3 or score > clean[-1][0]):
                    clean.append((score, [[f2b(x) for x in p], d, [c1, c2], f2b(t), f2b(b)]))
                    clean.sort(key=lambda x: -x[0])
                    del clean[3:]
                if len(top) < K or score > top[-1][0]:
                    top.append((score, [[f2b(x) for x in p], d, [c1, c2], f2b(t), f2b(b)]))
                    top.sort(key=lambda x: -x[0])
                    del top[K:]
    setting.reset()
    return {"deepcopy": deep, "copy_compared": ncompared, "copy_mismatch": copy_mismatch,
            "neval": neval, "npos": npos, "nviol": nviol, "hist": hist, "residues": residues,
            "max_residue": f2b(max_residue),
            "top": [[("inf" if s == math.inf else f2b(s)), r] for s, r in top] + [["big", r] for _, r in big]
            + [["clean", r] for _, r in clean],
            "kb": f2b(cfg["kb"] if cfg.get("kb") is not None else default_prefactor())}


# ----------------------------------------------------------------------------------------------------
# handlers
def unit_rec(u):
    return {"id": list(u.identifier), "pos": [f2b(x) for x in u.position],
            "vel": None if u.velocity is None else [f2b(x) for x in u.velocity],
            "ts": None if u.time_stamp is None else [f2b(u.time_stamp.quotient), f2b(u.time_stamp.remainder)],
            "charge": None if u.charge is None else f2b(u.charge["charge"])}


def flatten(cnodes):
    out = []
    for c in cnodes:
        out.append(unit_rec(c.value))
        out += flatten(c.children)
    return out


class Recorder:
    """patched random + intercepted bounding_potential_warning for one handler run."""

    def __init__(self):
        self.uniform_calls = []
        self.expo_calls = []
        self.warn_calls = []
        self.umode = None
        self.expo_values = []

    def uniform(self, a, b):
        m = self.umode
        if m[0] == "u":         # CPython: a + (b - a) * random()
            x = a + (b - a) * b2f(m[1])
        else:                   # exact value
            x = b2f(m[1])
        self.uniform_calls.append([f2b(a), f2b(b), f2b(x)])
        return x

    def expovariate(self, lambd):
        v = self.expo_values[len(self.expo_calls) % len(self.expo_values)]
        self.expo_calls.append([f2b(lambd), v])
        return b2f(v)

    def warning(self, name, bounding, real):
        self.warn_calls.append([name, f2b(bounding), f2b(real)])


def wrap_derivative(obj, log):
    orig = obj.derivative

    def w(velocity, separation, *charges):
        flat = []
        for c in charges:
            flat += list(c) if isinstance(c, tuple) else [c]
        rec = {"vel": [f2b(x) for x in velocity],
               "sep": "cell" if hasattr(separation, "cell_min") else [f2b(x) for x in separation],
               "charges": [f2b(c) for c in flat]}      # the arguments as passed (before the call)
        r = orig(velocity, separation, *charges)
        rec["res"] = f2b(r)
        log.append(rec)
        return r
    obj.derivative = w


def unwrap_derivative(obj):
    if "derivative" in obj.__dict__:
        del obj.__dict__["derivative"]


PATCH_MODULES = [
    "jellyfysh.event_handler.abstracts.event_handler_with_bounding_potential",
    "jellyfysh.event_handler.two_leaf_unit_bounding_potential_event_handler",
    "jellyfysh.event_handler.two_composite_object_summed_bounding_potential_event_handler",
    "jellyfysh.event_handler.two_leaf_unit_cell_bounding_potential_event_handler",
    "jellyfysh.event_handler.two_composite_object_cell_bounding_potential_event_handler",
    "jellyfysh.event_handler.composite_object_cell_veto_event_handler",
    "jellyfysh.event_handler.abstracts.cell_veto_event_handler",
    "jellyfysh.event_handler.leaf_unit_cell_veto_event_handler",
]


class FakeRandom:
    """stands in for the module 'random' inside the handler modules"""

    def __init__(self, rec):
        self.uniform = rec.uniform
        self.expovariate = rec.expovariate

    def __getattr__(self, name):
        return getattr(random, name)


def patch(rec):
    import importlib
    saved = []
    for name in PATCH_MODULES:
        m = importlib.import_module(name)
        if "random" in m.__dict__:
            saved.append((m, "random", m.random))
            m.random = FakeRandom(rec)
        if "bounding_potential_warning" in m.__dict__:
            saved.append((m, "bounding_potential_warning", m.bounding_potential_warning))
            m.bounding_potential_warning = rec.warning
    return saved


def unpatch(saved):
    for m, k, v in saved:
        setattr(m, k, v)


class StubEstimator:
    """cell bounds from a seeded stream (the acceptance logic is driven, not the estimator): always a positive
    upper and a negative lower bound, so that every relative cell has a positive bounding rate."""

    def __init__(self, potential, seed):
        self.potential = potential
        self._rng = random.Random(seed)

    def derivative_bound(self, lower_corner, upper_corner, direction, calculate_lower_bound=False):
        ub = self._rng.choice([0.3, 1.0, 3.0, 10.0]) * (0.5 + self._rng.random())
        lb = -self._rng.choice([0.3, 1.0, 3.0, 10.0]) * (0.5 + self._rng.random())
        return [ub, lb] if calculate_lower_bound else [ub]

    def charge_correction_factor(self, active_charges, target_charges=1.0):
        if isinstance(target_charges, tuple):
            target_charges = target_charges[0]
        return active_charges * target_charges


def build_state(case):
    """in-state from the case description: list of root cnodes; leaves carry charge {'charge': c}."""
    from jellyfysh.base.node import Node
    from jellyfysh.base.unit import Unit
    from jellyfysh.base.time import Time

    def mk(u):
        return Unit(identifier=tuple(u["id"]), position=[b2f(x) for x in u["pos"]],
                    charge=None if u.get("charge") is None else {"charge": b2f(u["charge"])},
                    velocity=None if u.get("vel") is None else [b2f(x) for x in u["vel"]],
                    time_stamp=None if u.get("ts") is None else Time(b2f(u["ts"][0]), b2f(u["ts"][1])))
    roots = []
    for r in case["state"]:
        root = Node(mk(r), weight=1)
        for ch in r.get("children", []):
            root.add_child(Node(mk(ch), weight=b2f(ch["w"])))
        roots.append(root)
    return roots


def make_handler(cfg, case, pots, cells):
    import contextlib
    import io
    from jellyfysh.lifting.ratio_lifting import RatioLifting
    from jellyfysh.lifting.inside_first_lifting import InsideFirstLifting
    pot, bnd = pots
    fam = cfg["family"]
    charge = "charge" if case.get("use_charge", True) else None
    lifting = RatioLifting() if case.get("lifting") == "ratio" else InsideFirstLifting()
    bounding = bnd
    if fam == "leaf":
        from jellyfysh.event_handler.two_leaf_unit_bounding_potential_event_handler import \
            TwoLeafUnitBoundingPotentialEventHandler
        h = TwoLeafUnitBoundingPotentialEventHandler(potential=pot, bounding_potential=bnd, charge=charge)
    elif fam == "summed":
        from jellyfysh.event_handler.two_composite_object_summed_bounding_potential_event_handler import \
            TwoCompositeObjectSummedBoundingPotentialEventHandler
        h = TwoCompositeObjectSummedBoundingPotentialEventHandler(
            potential=pot, bounding_potential=bnd, lifting=lifting, charge=charge)
    elif fam in ("cell_leaf", "cell_comp"):
        from jellyfysh.potential.cell_bounding_potential import CellBoundingPotential
        bounding = CellBoundingPotential(estimator=StubEstimator(pot, cfg["est_seed"]))
        if fam == "cell_leaf":
            from jellyfysh.event_handler.two_leaf_unit_cell_bounding_potential_event_handler import \
                TwoLeafUnitCellBoundingPotentialEventHandler
            h = TwoLeafUnitCellBoundingPotentialEventHandler(potential=pot, bounding_potential=bounding, charge=charge)
        else:
            from jellyfysh.event_handler.two_composite_object_cell_bounding_potential_event_handler import \
                TwoCompositeObjectCellBoundingPotentialEventHandler
            h = TwoCompositeObjectCellBoundingPotentialEventHandler(
                potential=pot, bounding_potential=bounding, lifting=lifting, charge=charge)
        with contextlib.redirect_stdout(io.StringIO()):
            h.initialize(cells)
    elif fam in ("veto_leaf", "veto_comp"):
        est = StubEstimator(pot, cfg["est_seed"])
        bounding = None
        if fam == "veto_leaf":
            from jellyfysh.event_handler.leaf_unit_cell_veto_event_handler import LeafUnitCellVetoEventHandler
            h = LeafUnitCellVetoEventHandler(estimator=est, potential=pot, charge=charge)
        else:
            from jellyfysh.event_handler.composite_object_cell_veto_event_handler import \
                CompositeObjectCellVetoEventHandler
            h = CompositeObjectCellVetoEventHandler(estimator=est, lifting=lifting, potential=pot, charge=charge)
        with contextlib.redirect_stdout(io.StringIO()):
            h.initialize(cells, 1)
    else:
        raise ValueError(fam)
    return h, bounding


REF = {"pots": None}


def one_run(cfg, case, pots, cells, mode, seed):
    pot, bnd = pots
    fam = cfg["family"]
    rec = Recorder()
    rec.umode = mode
    rec.expo_values = case["expo"]
    res = {"mode": mode}
    saved = patch(rec)
    pot_calls, bnd_calls = [], []
    bounding = None
    try:
        random.seed(seed)
        h, bounding = make_handler(cfg, case, pots, cells)
        if case.get("deep") == "dill":
            # what resume.py does with the whole mediator: the handler goes through dill
            import dill
            h = dill.loads(dill.dumps(h))
        elif case.get("deep"):
            # exactly what Tagger.initialize does for the 2nd..n-th event handler of a tagger
            h = copy.deepcopy(h)
        res["deep"] = bool(case.get("deep"))
        res["deep_kind"] = "dill" if case.get("deep") == "dill" else ("deepcopy" if case.get("deep") else None)
        # the potentials the handler really uses (copies, if the handler was deep-copied)
        pot = h._potential
        bounding = getattr(h, "_bounding_potential", None)
        wrap_derivative(pot, pot_calls)
        if bounding is not None:
            wrap_derivative(bounding, bnd_calls)
        state = build_state(case)
        target = None
        if fam.startswith("veto"):
            active_roots = [c for c in state if c.value.velocity is not None]
            target = [c for c in state if c.value.velocity is None][0]
            state = active_roots
        res["in"] = flatten(state) + (flatten([target]) if target is not None else [])
        t = h.send_event_time(state)
        if fam.startswith("veto"):
            t = t[0]
            res["veto_rate"] = f2b(h._bounding_event_rate)
        res["time"] = [f2b(t.quotient), f2b(t.remainder)]
        res["sliced"] = flatten(state) + (flatten([target]) if target is not None else [])
        nb, npot = len(bnd_calls), len(pot_calls)
        o = h.send_out_state(target) if fam.startswith("veto") else h.send_out_state()
        if o is None:
            res["skipped"] = True
        else:
            res["out"] = flatten(o)
        res["pot_calls"] = pot_calls[npot:]
        res["bnd_calls"] = bnd_calls[nb:]
        # the same evaluations on independently, freshly constructed potentials of the same configuration
        ref_pot, ref_bnd = REF["pots"]
        for c in res["pot_calls"]:
            c["ref"] = f2b(ref_pot.derivative([b2f(x) for x in c["vel"]], [b2f(x) for x in c["sep"]],
                                              *[b2f(x) for x in c["charges"]]))
        if fam in ("leaf", "summed"):
            for c in res["bnd_calls"]:
                c["ref"] = f2b(ref_bnd.derivative([b2f(x) for x in c["vel"]], [b2f(x) for x in c["sep"]],
                                                  *[b2f(x) for x in c["charges"]]))
        if fam.startswith("cell") and bnd_calls[nb:]:
            res["stub_rate"] = bnd_calls[nb]["res"]
    except Exception as e:  # noqa
        import traceback
        res["exc"] = exc_enum(e) + ": " + traceback.format_exc()[-700:]
    finally:
        unwrap_derivative(pot)
        if bounding is not None:
            unwrap_derivative(bounding)
        unpatch(saved)
    res["uniform"] = rec.uniform_calls
    res["expo"] = rec.expo_calls
    res["warn"] = rec.warn_calls
    return res


def shift(x, k):
    for _ in range(abs(k)):
        x = math.nextafter(x, math.inf if k > 0 else -math.inf)
    return x


def run_handler_case(cfg, case, pots, cells, seed):
    out = []
    probe = None
    for mode in case["umodes"]:
        if mode[0] == "tie":
            if probe is None:
                probe = one_run(cfg, case, pots, cells, ["u", f2b(0.5)], seed)
            if "exc" in probe or probe.get("skipped") or not probe.get("pot_calls"):
                continue
            if probe["warn"]:
                r = b2f(probe["warn"][-1][2])
            else:
                r = b2f(probe["pot_calls"][-1]["res"])
            mode = ["x", f2b(max(0.0, shift(r, mode[1])))]     # random.uniform(0, b) is never negative
        out.append(one_run(cfg, case, pots, cells, mode, seed))
    return out


class Dispatch:
    """patched random / warning for a POOL of handlers: delegates to the recorder of the member that is running"""

    def __init__(self):
        self.cur = None

    def uniform(self, a, b):
        return self.cur.uniform(a, b)

    def expovariate(self, lambd):
        return self.cur.expovariate(lambd)

    def warning(self, name, bounding, real):
        return self.cur.warning(name, bounding, real)


def ref_values(fam, res):
    ref_pot, ref_bnd = REF["pots"]
    for c in res["pot_calls"]:
        c["ref"] = f2b(ref_pot.derivative([b2f(x) for x in c["vel"]], [b2f(x) for x in c["sep"]],
                                          *[b2f(x) for x in c["charges"]]))
    if fam in ("leaf", "summed"):
        for c in res["bnd_calls"]:
            c["ref"] = f2b(ref_bnd.derivative([b2f(x) for x in c["vel"]], [b2f(x) for x in c["sep"]],
                                              *[b2f(x) for x in c["charges"]]))


def run_pool(cfg, pots, cells):
    """Handler pool as built by Tagger.initialize: the configured handler and k deep copies of it (made once, after
    initialize).  The schedule interleaves the members: several send_event_time calls (in-states with different
    charge products) before any send_out_state, then the send_out_state calls in another order; several rounds on the
    same pool.  Every member's run is reported like a single run."""
    fam = cfg["family"]
    pool_cfg = cfg["pool"]
    cases = cfg["cases"]
    disp = Dispatch()
    saved = patch(disp)
    results = [[] for _ in cases]
    wrapped = []
    try:
        random.seed(cfg["est_seed"])
        h0, _ = make_handler(cfg, dict(cases[0], use_charge=True, lifting=pool_cfg.get("lifting")), pots, cells)
        members = [h0] + [copy.deepcopy(h0) for _ in range(pool_cfg["k"])]
        logs = []
        for h in members:
            pc, bc = [], []
            wrap_derivative(h._potential, pc)
            wrapped.append(h._potential)
            bnd = getattr(h, "_bounding_potential", None)
            if bnd is not None:
                wrap_derivative(bnd, bc)
                wrapped.append(bnd)
            logs.append((pc, bc))
        for rnd in pool_cfg["rounds"]:
            running = {}
            for mi, ci in zip(rnd["members"], rnd["cases"]):
                case = cases[ci]
                rec = Recorder()
                rec.umode = case["umodes"][0] if case["umodes"][0][0] != "tie" else ["u", f2b(0.5)]
                rec.expo_values = case["expo"]
                res = {"mode": rec.umode, "pool_member": mi, "deep": mi > 0, "pool": True}
                disp.cur = rec
                try:
                    state = build_state(case)
                    res["in"] = flatten(state)
                    t = members[mi].send_event_time(state)
                    res["time"] = [f2b(t.quotient), f2b(t.remainder)]
                    res["sliced"] = flatten(state)
                except Exception as e:  # noqa
                    import traceback
                    res["exc"] = exc_enum(e) + ": " + traceback.format_exc()[-700:]
                running[mi] = (ci, rec, res, len(logs[mi][0]), len(logs[mi][1]))
            for mi in rnd["out_order"]:
                ci, rec, res, npot, nb = running[mi]
                if "exc" not in res:
                    disp.cur = rec
                    try:
                        o = members[mi].send_out_state()
                        if o is None:
                            res["skipped"] = True
                        else:
                            res["out"] = flatten(o)
                        res["pot_calls"] = logs[mi][0][npot:]
                        res["bnd_calls"] = logs[mi][1][nb:]
                        if fam.startswith("cell") and logs[mi][1][nb:]:
                            res["stub_rate"] = logs[mi][1][nb]["res"]
                        ref_values(fam, res)
                    except Exception as e:  # noqa
                        import traceback
                        res["exc"] = exc_enum(e) + ": " + traceback.format_exc()[-700:]
                res["uniform"] = rec.uniform_calls
                res["expo"] = rec.expo_calls
                res["warn"] = rec.warn_calls
                results[ci].append(res)
    finally:
        for o in wrapped:
            unwrap_derivative(o)
        unpatch(saved)
    return results


def run_handlers(cfg):
    setting.reset()
    L = b2f(cfg["L"])
    hypercubic_setting.HypercubicSetting(beta=b2f(cfg["beta"]), dimension=3, system_length=L)
    setting.set_number_of_root_nodes(cfg.get("roots", 2))
    setting.set_number_of_nodes_per_root_node(cfg.get("npr", 1))
    setting.set_number_of_node_levels(1 if cfg.get("npr", 1) == 1 else 2)
    pots = make_potentials(cfg)
    REF["pots"] = make_potentials(cfg)       # never handed to a handler, never copied
    cells = None
    if cfg["family"].startswith(("cell", "veto")):
        from jellyfysh.activator.internal_state.cell_occupancy.cells.cuboid_periodic_cells import CuboidPeriodicCells
        cells = CuboidPeriodicCells(cells_per_side=[cfg["cells_per_side"]] * 3)
    if cfg.get("pool"):
        res = run_pool(cfg, pots, cells)
    else:
        res = [run_handler_case(cfg, c, pots, cells, cfg["est_seed"] + i) for i, c in enumerate(cfg["cases"])]
    setting.reset()
    return res


# ----------------------------------------------------------------------------------------------------
def run_config(cfg):
    """real run of a shipped configuration; every call of bounding_potential_warning is observed."""
    from configparser import ConfigParser
    import importlib
    from jellyfysh import run as jf_run
    stats = {"config": cfg["ini"], "calls": {}, "exceeded": [], "n_exceeded": 0, "n_calls": 0, "max_ratio": {}}

    def warning(name, bounding, real):
        stats["n_calls"] += 1
        c = stats["calls"]
        c[name] = c.get(name, 0) + 1
        if real > 0:
            ratio = real / bounding if bounding > 0 else math.inf
            if ratio > stats["max_ratio"].get(name, 0.0):
                stats["max_ratio"][name] = ratio
            if bounding < real:
                stats["n_exceeded"] += 1
                if len(stats["exceeded"]) < 5:
                    stats["exceeded"].append({"handler": name, "bounding": f2b(bounding), "real": f2b(real),
                                              "call": stats["n_calls"]})

    saved = []
    for name in PATCH_MODULES:
        m = importlib.import_module(name)
        if hasattr(m, "bounding_potential_warning"):
            saved.append((m, "bounding_potential_warning", m.bounding_potential_warning))
            m.bounding_potential_warning = warning
    try:
        parser = ConfigParser()
        with open(cfg["ini"]) as f:
            parser.read_file(f)
        for sec, key, value in cfg.get("override", []):
            if not parser.has_section(sec):
                parser.add_section(sec)
            parser.set(sec, key, value)
        random.seed(cfg["seed"])
        argv = sys.argv
        orig_read = jf_run.read_config
        jf_run.read_config = lambda _path: parser
        jf_run.print_start_message = lambda: None
        sys.argv = ["jellyfysh", cfg["ini"]]
        so = sys.stdout
        sys.stdout = open(os.devnull, "w")
        try:
            jf_run.main()
        except SystemExit:
            pass
        finally:
            sys.stdout.close()
            sys.stdout = so
            jf_run.read_config = orig_read
            sys.argv = argv
    except Exception as e:  # noqa
        import traceback
        stats["exc"] = exc_enum(e) + ": " + traceback.format_exc()[-600:]
    finally:
        unpatch(saved)
        try:
            setting.reset()
        except Exception:  # noqa
            pass
    stats["max_ratio"] = {k: (f2b(v) if v != math.inf else "inf") for k, v in stats["max_ratio"].items()}
    return stats


payload = read_payload()
mode = payload["mode"]
if mode == "dom":
    emit({"out": run_dom(payload)})
elif mode == "handlers":
    emit({"out": run_handlers(payload)})
elif mode == "runs":
    emit({"out": run_config(payload["config"])})
elif mode == "info":
    emit({"out": {"default_prefactor": f2b(default_prefactor())}})
else:
    raise RuntimeError("unknown mode")
