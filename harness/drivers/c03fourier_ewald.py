"""Driver C03 (lattice-sum clause): read the precomputed Fourier table and the cutoffs out of the REAL compiled
merged_image_coulomb_potential extension and evaluate its derivative.

The struct is opaque in the extension's cffi cdef; it is read through a second FFI instance that declares the
struct exactly as merged_image_coulomb_potential.c does and casts the pointer's address (same process memory).
Payload: {"lengths": [L_bits, ...], "points": [[sx, sy, sz] bits ... in units given by the harness], "params": null
          or {"alpha": bits, "fc": int, "pc": int}}.
"""
import copy
import inspect
import re

from cffi import FFI

from drvutil import read_payload, emit, f2b, b2f, exc_enum, assert_scratch
import jellyfysh.setting as setting
from jellyfysh.setting import hypercubic_setting
from jellyfysh.potential.merged_image_coulomb_potential import merged_image_coulomb_potential as m
from jellyfysh.potential.merged_image_coulomb_potential import _merged_image_coulomb_potential as ext

assert_scratch()

STRUCT = """
struct MergedImageCoulombPotential {
    const int fourier_cutoff;
    const int fourier_cutoff_sq;
    const int position_cutoff;
    const int position_cutoff_sq;
    const double alpha_over_length;
    const double alpha_over_length_sq;
    const double two_alpha_over_length_root_pi;
    const double system_length;
    const double two_pi_over_length;
    double *** const fourier_array;
};
"""


def struct_fields_of_source():
    """Field list of the struct in the current C source (fail closed if the layout assumed above is stale)."""
    import os
    src = open(os.path.join(os.path.dirname(m.__file__), "merged_image_coulomb_potential.c")).read()
    body = re.search(r"struct MergedImageCoulombPotential \{(.*?)\n\};", src, re.S).group(1)
    body = re.sub(r"/\*.*?\*/", "", body, flags=re.S)
    return [re.sub(r"\s+", " ", x.strip()) for x in body.split(";") if x.strip()]


def read_struct(ffi2, ptr):
    addr = int(ext.ffi.cast("uintptr_t", ptr))
    s = ffi2.cast("struct MergedImageCoulombPotential *", addr)
    n = s.fourier_cutoff
    arr = {}
    for i in range(1, n + 1):
        for j in range(0, n + 1):
            for k in range(0, n + 1):
                arr["%d,%d,%d" % (i, j, k)] = f2b(s.fourier_array[i][j][k])
    return {"fourier_cutoff": s.fourier_cutoff, "fourier_cutoff_sq": s.fourier_cutoff_sq,
            "position_cutoff": s.position_cutoff, "position_cutoff_sq": s.position_cutoff_sq,
            "alpha_over_length": f2b(s.alpha_over_length), "alpha_over_length_sq": f2b(s.alpha_over_length_sq),
            "two_alpha_over_length_root_pi": f2b(s.two_alpha_over_length_root_pi),
            "system_length": f2b(s.system_length), "two_pi_over_length": f2b(s.two_pi_over_length),
            "fourier_array": arr}


def main():
    pl = read_payload()
    ffi2 = FFI()
    ffi2.cdef(STRUCT)
    expected = [re.sub(r"\s+", " ", x.strip()) for x in
                re.search(r"\{(.*)\}", STRUCT, re.S).group(1).split(";") if x.strip()]
    out = {"struct_layout_matches_source": struct_fields_of_source() == expected, "settings": []}
    sig = inspect.signature(m.MergedImageCoulombPotential.__init__)
    defaults = {k: v.default for k, v in sig.parameters.items() if v.default is not inspect.Parameter.empty}
    out["defaults"] = {"alpha": f2b(defaults["alpha"]), "fourier_cutoff": defaults["fourier_cutoff"],
                       "position_cutoff": defaults["position_cutoff"], "prefactor": f2b(defaults["prefactor"])}
    for Lb in pl["lengths"]:
        L = b2f(Lb)
        rec = {"L": Lb}
        try:
            setting.reset()
            hypercubic_setting.HypercubicSetting(beta=1.0, dimension=3, system_length=L)
            setting.set_number_of_root_nodes(2)
            setting.set_number_of_nodes_per_root_node(2)
            setting.set_number_of_node_levels(2)
            kw = {}
            if pl.get("params"):
                kw = {"alpha": b2f(pl["params"]["alpha"]), "fourier_cutoff": int(pl["params"]["fc"]),
                      "position_cutoff": int(pl["params"]["pc"])}
            pot = m.MergedImageCoulombPotential(**kw)
            pot2 = copy.deepcopy(pot)
            rec["alpha"] = f2b(pot._alpha)
            rec["struct"] = read_struct(ffi2, pot._potential)
            rec["struct_copy"] = read_struct(ffi2, pot2._potential)
            vals, vals_copy, vals_cls = [], [], []
            for p in pl["points"]:
                s = [b2f(x) * L for x in p]      # points are given in units of L
                vals.append([f2b(s[0]), f2b(s[1]), f2b(s[2]), f2b(ext.lib.derivative(pot._potential, *s))])
                vals_copy.append(f2b(ext.lib.derivative(pot2._potential, *s)))
                vals_cls.append(f2b(pot.derivative([1.0, 0.0, 0.0], s, 1.0, 1.0)))
            rec["values"] = vals
            rec["values_copy"] = vals_copy
            rec["values_class_x"] = vals_cls
        except Exception as e:  # noqa
            rec["exc"] = exc_enum(e) + ": " + str(e)[:200]
        out["settings"].append(rec)
    emit(out)


main()
