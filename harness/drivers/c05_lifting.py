"""Driver C05: run the real lifting classes (jellyfysh.lifting.*) under controlled draws.

payload = {"jobs": [job, ...]}
job = {"mode": "X" | "F",            X: exact numbers (class X below wraps fractions.Fraction; the classes
                                        are duck-typed and run unmodified), F: Python floats (bit patterns)
       "table": [[rate, id], ...],   rate = [num, den] (X) or 64-bit pattern (F); insertion order
       "queries": [[scheme, active, u1, u2, want_state, u2b], ...]}
         scheme in "inside" | "outside" | "ratio"; active = index of the active unit or a list of indices
         (edge stream) or -1 (none); u1/u2/u2b encoded like rates; u2b != None: call get_active_identifier twice.
result per query: {"r": id | ["EXC", name], "pos": position compared with the cumulative rates (encoded) or None,
                   "state": [neg, ids, random_position, sum_pos, active_recorded] (if want_state),
                   "r2": second result (if u2b given)}
random.uniform is replaced by  a + (b - a) * u  (CPython's formula with random() = u): u1 during the inserts,
u2 (then u2b) during get_active_identifier.
"""
import random
from fractions import Fraction

from drvutil import read_payload, emit, f2b, b2f, exc_enum, assert_scratch
from jellyfysh.lifting.inside_first_lifting import InsideFirstLifting
from jellyfysh.lifting.outside_first_lifting import OutsideFirstLifting
from jellyfysh.lifting.ratio_lifting import RatioLifting

assert_scratch()


class X(object):
    """Exact rational number that absorbs the float/int literals of the code (0.0, 0., 0) exactly."""
    __slots__ = ("v",)

    def __init__(self, v):
        self.v = v.v if isinstance(v, X) else Fraction(v)

    @staticmethod
    def c(o):
        return o.v if isinstance(o, X) else Fraction(o)

    def __add__(self, o): return X(self.v + X.c(o))
    def __radd__(self, o): return X(X.c(o) + self.v)
    def __sub__(self, o): return X(self.v - X.c(o))
    def __rsub__(self, o): return X(X.c(o) - self.v)
    def __mul__(self, o): return X(self.v * X.c(o))
    def __rmul__(self, o): return X(X.c(o) * self.v)
    def __truediv__(self, o): return X(self.v / X.c(o))
    def __rtruediv__(self, o): return X(X.c(o) / self.v)
    def __neg__(self): return X(-self.v)
    def __pos__(self): return self
    def __abs__(self): return X(abs(self.v))
    def __lt__(self, o): return self.v < X.c(o)
    def __le__(self, o): return self.v <= X.c(o)
    def __gt__(self, o): return self.v > X.c(o)
    def __ge__(self, o): return self.v >= X.c(o)
    def __eq__(self, o): return self.v == X.c(o)
    def __ne__(self, o): return self.v != X.c(o)
    def __hash__(self): return hash(self.v)
    def __float__(self): return float(self.v)
    def __bool__(self): return self.v != 0
    def __repr__(self): return "X(%s)" % self.v


CLASSES = {"inside": InsideFirstLifting, "outside": OutsideFirstLifting, "ratio": RatioLifting}


class Draw(object):
    u = None
    last = None


def fake_uniform(a, b):
    r = a + (b - a) * Draw.u
    Draw.last = r
    return r


random.uniform = fake_uniform


def dec(mode, v):
    if v is None:
        return None
    return X(Fraction(int(v[0]), int(v[1]))) if mode == "X" else b2f(v)


def enc(mode, v):
    if v is None:
        return None
    if mode == "X":
        f = X.c(v)
        return [f.numerator, f.denominator]
    return f2b(v)


OBJS = {k: c() for k, c in CLASSES.items()}


def run_job(job):
    mode = job["mode"]
    table = [(dec(mode, r), i) for r, i in job["table"]]
    out = []
    # ONE lifting object per scheme for all tables of this driver process, reset() between uses — as the event handlers
    # use theirs for a whole run (seeded change C05-10: a total cached across reset() shows only on the second table)
    objs = OBJS
    for q in job["queries"]:
        scheme, active, u1, u2, want_state, u2b = q
        actives = set(active) if isinstance(active, list) else {active}
        lift = objs[scheme]
        res = {}
        try:
            lift.reset()
            Draw.u = dec(mode, u1)
            for idx, (r, i) in enumerate(table):
                lift.insert(r, i, idx in actives)
            if want_state:
                res["state"] = [[enc(mode, x) for x in lift._negative_lifting_rates],
                                list(lift._associated_identifiers), enc(mode, lift._random_position),
                                enc(mode, lift._sum_positive_lifting_rates), bool(lift._active_recorded)]
            Draw.u = dec(mode, u2)
            Draw.last = None
            res["r"] = lift.get_active_identifier()
            if scheme == "ratio":
                res["pos"] = enc(mode, Draw.last)
            else:
                res["pos"] = enc(mode, lift._random_position)
            if u2b is not None:
                Draw.u = dec(mode, u2b)
                try:
                    res["r2"] = lift.get_active_identifier()
                except Exception as e:  # noqa
                    res["r2"] = ["EXC", exc_enum(e)]
        except Exception as e:  # noqa
            res["r"] = ["EXC", exc_enum(e) if type(e).__name__ != "LiftingSchemeError" else "LiftingSchemeError"]
        out.append(res)
    return out


if __name__ == "__main__":
    jobs = read_payload()["jobs"]
    emit({"out": [run_job(j) for j in jobs]})
