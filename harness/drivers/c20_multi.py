"""Driver C20: one run of the REAL SingleProcessMediator or MultiProcessMediator on a (possibly
edited) shipped configuration, with per-event-handler random streams and a recorded trace.

payload:
  ini        path of the .ini relative to the jellyfysh package directory (= cwd)
  set        [[section, option, value], ...]       overrides applied to the ConfigParser
  drop_tags  [tag, ...]                            taggers removed from [TagActivator] and from every
                                                   create/trash/activate/deactivate list
  mediator   "single" | "multi"
  cores      number_cores of the MultiProcessMediator
  seed       seed of the run (input handler + per-handler streams)
  delay_seed seed of the artificial worker delays (multi only)
  max_delay_ms upper bound of one artificial delay
  stream     "handler": one sequential PRNG per event handler (the property's setting)
             "call":    PRNG re-seeded per call from (seed, handler, number of the handler's
                        event-time request); an out-state is then a function of its in-state even if it
                        draws random numbers (extension beyond the property's quantifier)
  timeout    seconds before the run is declared deadlocked
  slow_out   (multi only) {"seed": s, "prob": p, "per_worker": k, "min_s": a, "max_s": b}: the worker-side out-state
             computation (send_out_state inside the worker, i.e. between the continue event and the send on the pipe) of
             some calls — chosen from (s, handler index, number of the handler's out-state call), at most k per worker —
             takes a..b SECONDS longer (longer than any plausible mediator-side timeout): an out-state requested ahead
             of time is then still in flight when another handler's event is committed and trashes it.
  pause      (multi only) schedule perturbation AT the worker's synchronisation operations:
             {"seed": s, "prob": p, "min_ms": a, "max_ms": b, "ops": ["release", "send", "clear", "wait"]}
             the objects handed to run_in_process (semaphore, pipe end, start/continue events) are wrapped by
             forwarding proxies; derived from (s, handler index, operation, per-operation counter) a worker
             sometimes sleeps a..b ms right AFTER semaphore.release / AFTER pipe.send / BEFORE event.clear /
             AFTER the or-event wait returned.  Program logic is untouched (every call is forwarded).

Nothing of the implementation is replaced: class-level / instance-level wrappers call the original
code and only record.  The only semantic additions are the random streams and the sleeps.
"""
import hashlib
import json
import multiprocessing
import os
import random
import signal
import sys
import tempfile
import time
from configparser import ConfigParser

from drvutil import read_payload, emit, f2b, assert_scratch

import jellyfysh.setting as setting  # noqa: E402
from jellyfysh.base import factory  # noqa: E402
from jellyfysh.base.exceptions import EndOfRun  # noqa: E402
from jellyfysh.base.strings import to_camel_case  # noqa: E402

assert_scratch()
P = read_payload()
SEED = int(P["seed"])
DSEED = int(P.get("delay_seed", 0))
MAXD = float(P.get("max_delay_ms", 3.0)) / 1000.0
STREAM = P.get("stream", "handler")
MULTI = P["mediator"] == "multi"

STAGE = {"idle": 0, "event_time_started": 1, "suspended": 2, "out_state_started": 3}


def stream_seed(idx, k=None):
    s = "c20|%d|%d" % (SEED, idx) if k is None else "c20|%d|%d|%s" % (SEED, idx, k)
    return int.from_bytes(hashlib.sha256(s.encode()).digest()[:8], "big")


def delay(idx, kind, count):
    h = hashlib.sha256(("d|%d|%d|%s|%d" % (DSEED, idx, kind, count)).encode()).digest()
    x = int.from_bytes(h[:4], "big") / 2.0 ** 32
    if h[4] < 64:           # a quarter of the calls answer immediately
        return 0.0
    return x * MAXD


# ------------------------------------------------------------------------------------------------
# configuration
def load_config():
    cfg = ConfigParser()
    if not cfg.read(P["ini"]):
        raise RuntimeError("cannot read " + P["ini"])
    drop = set(P.get("drop_tags", []))
    if drop:
        tags = []
        for entry in cfg.get("TagActivator", "taggers").replace("\n", "").split(","):
            entry = entry.strip()
            if entry and entry.split("(")[0].strip() not in drop:
                tags.append(entry)
        cfg.set("TagActivator", "taggers", ",\n".join(tags))
        for sec in cfg.sections():
            for opt in ("create", "trash", "activate", "deactivate"):
                if cfg.has_option(sec, opt):
                    vals = [v.strip() for v in cfg.get(sec, opt).replace("\n", "").split(",")]
                    cfg.set(sec, opt, ", ".join(v for v in vals if v and v not in drop))
    for sec, opt, val in P.get("set", []):
        if not cfg.has_section(sec):
            cfg.add_section(sec)
        cfg.set(sec, opt, val)
    old = to_camel_case(cfg.get("Run", "mediator"))
    if MULTI:
        cfg.set("Run", "mediator", "multi_process_mediator")
        if not cfg.has_section("MultiProcessMediator"):
            cfg.add_section("MultiProcessMediator")
        for k, v in cfg.items(old):
            cfg.set("MultiProcessMediator", k, v)
        cfg.set("MultiProcessMediator", "number_cores", str(int(P["cores"])))
        if old != "MultiProcessMediator":
            cfg.remove_section(old)
    else:
        cfg.set("Run", "mediator", "single_process_mediator")
        if old != "SingleProcessMediator":
            if not cfg.has_section("SingleProcessMediator"):
                cfg.add_section("SingleProcessMediator")
            for k, v in cfg.items(old):
                if k != "number_cores":
                    cfg.set("SingleProcessMediator", k, v)
            cfg.remove_section(old)
    return cfg


# ------------------------------------------------------------------------------------------------
# canonical serialisation of out-states / global states (floats as bit patterns)
def ser_time(t):
    return None if t is None else [f2b(t.quotient), f2b(t.remainder)]


def ser_node(n):
    u = n.value
    return [list(u.identifier) if isinstance(u.identifier, tuple) else u.identifier,
            [f2b(x) for x in u.position],
            None if u.velocity is None else [f2b(x) for x in u.velocity],
            ser_time(u.time_stamp),
            None if u.charge is None else sorted((k, f2b(v)) for k, v in u.charge.items() if not k.startswith("pad_")),
            [ser_node(c) for c in n.children]]


def ser_nodes(nodes):
    return [ser_node(n) for n in nodes]


def digest(obj):
    return hashlib.sha1(json.dumps(obj, sort_keys=True).encode()).hexdigest()[:20]


# ------------------------------------------------------------------------------------------------
EV = []                 # mediator-side event log
HL = []                 # event handler list (set when the mediator exists / in _start_processes)
HIDX = {}
N_MAX = 512
CALLS_ET = multiprocessing.RawArray("i", N_MAX)     # per handler: send_event_time calls (worker side in multi)
CALLS_OS = multiprocessing.RawArray("i", N_MAX)     # per handler: send_out_state calls
DRAWS_OS = multiprocessing.RawArray("i", N_MAX)     # per handler: send_out_state calls that drew random numbers
DRAWS_ET = multiprocessing.RawArray("i", N_MAX)
WORKER_ERR = multiprocessing.RawArray("i", N_MAX)   # worker loop left by an exception
PAUSES = multiprocessing.RawArray("i", 4 * N_MAX)   # per handler: number of pauses, last op code, last op counter, in-pause
PAUSE = P.get("pause")
SLOW = P.get("slow_out")
SLOWED = multiprocessing.RawArray("i", N_MAX)       # per handler: out-state computations delayed by 0.3-0.8 s
SLOW_MS = multiprocessing.RawArray("i", N_MAX)      # per handler: total such delay in ms


def slow_out_delay(idx, count):
    """Seconds by which the count-th out-state computation of worker idx is prolonged (0.0: not chosen)."""
    if not SLOW or SLOWED[idx] >= int(SLOW.get("per_worker", 1)):
        return 0.0
    h = hashlib.sha256(("s|%d|%d|%d" % (int(SLOW["seed"]), idx, count)).encode()).digest()
    if int.from_bytes(h[:4], "big") / 2.0 ** 32 >= float(SLOW.get("prob", 0.2)):
        return 0.0
    lo, hi = float(SLOW.get("min_s", 0.3)), float(SLOW.get("max_s", 0.8))
    return lo + (hi - lo) * int.from_bytes(h[4:8], "big") / 2.0 ** 32
OPS = {"release": 1, "send": 2, "clear": 3, "wait": 4}


def maybe_pause(idx, op, counter):
    h = hashlib.sha256(("p|%d|%d|%s|%d" % (int(PAUSE["seed"]), idx, op, counter)).encode()).digest()
    if op not in PAUSE.get("ops", ["release", "send", "clear"]):
        return
    if int.from_bytes(h[:4], "big") / 2.0 ** 32 >= float(PAUSE.get("prob", 0.1)):
        return
    lo, hi = float(PAUSE.get("min_ms", 10.0)), float(PAUSE.get("max_ms", 30.0))
    PAUSES[4 * idx] += 1
    PAUSES[4 * idx + 1] = OPS[op]
    PAUSES[4 * idx + 2] = counter
    PAUSES[4 * idx + 3] = 1
    time.sleep((lo + (hi - lo) * int.from_bytes(h[4:8], "big") / 2.0 ** 32) / 1000.0)
    PAUSES[4 * idx + 3] = 0


class SyncProxy(object):
    """Forwards everything to the real object; the listed methods pause before / after the real call."""

    def __init__(self, real, idx, before=(), after=()):
        self.__dict__.update(_real=real, _idx=idx, _before=dict.fromkeys(before, 0), _after=dict.fromkeys(after, 0))

    def __getattr__(self, name):
        attr = getattr(self._real, name)
        if name in self._before or name in self._after:
            def call(*a, **k):
                op = {"release": "release", "send": "send", "clear": "clear", "wait": "wait"}[name]
                if name in self._before:
                    self._before[name] += 1
                    maybe_pause(self._idx, op, self._before[name])
                r = attr(*a, **k)
                if name in self._after:
                    self._after[name] += 1
                    maybe_pause(self._idx, op, self._after[name])
                return r
            return call
        return attr


def hidx(h):
    return HIDX[id(h)]


def set_handlers(lst):
    global HL
    HL = list(lst)
    HIDX.clear()
    for i, h in enumerate(HL):
        HIDX[id(h)] = i


def instrument_handler_calls(h, idx, in_worker):
    """Per-handler random stream (+ artificial delay in a worker) around the two handler methods."""
    orig_et, orig_os = h.send_event_time, h.send_out_state
    st = {"state": None, "net": 0}
    if STREAM == "handler":
        if in_worker:
            random.seed(stream_seed(idx))
        else:
            st["state"] = random.Random(stream_seed(idx)).getstate()

    def around(kind, fn, args):
        if kind == "et":
            st["net"] += 1
        outer = None
        if STREAM == "call":
            outer = random.getstate()
            random.seed(stream_seed(idx, "%s%d" % (kind, st["net"])))
        elif not in_worker:
            outer = random.getstate()
            random.setstate(st["state"])
        before = random.getstate()
        try:
            if in_worker and MAXD > 0:
                d = delay(idx, kind, CALLS_ET[idx] if kind == "et" else CALLS_OS[idx])
                if d > 0:
                    time.sleep(d)
            if in_worker and kind == "os":
                d = slow_out_delay(idx, CALLS_OS[idx])
                if d > 0:
                    SLOWED[idx] += 1
                    SLOW_MS[idx] += int(d * 1000)
                    time.sleep(d)
            return fn(*args)
        finally:
            if random.getstate() != before:
                (DRAWS_ET if kind == "et" else DRAWS_OS)[idx] += 1
            (CALLS_ET if kind == "et" else CALLS_OS)[idx] += 1
            if STREAM == "handler" and not in_worker:
                st["state"] = random.getstate()
            if outer is not None:
                random.setstate(outer)

    def send_event_time(*a):
        return around("et", orig_et, a)

    def send_out_state(*a):
        return around("os", orig_os, a)

    h.send_event_time = send_event_time
    h.send_out_state = send_out_state


# ------------------------------------------------------------------------------------------------
class LogDict(dict):
    """dict that records writes/deletes; keys are mapped to handler indices by keyfn."""

    def __init__(self, src, tag, keyfn, valfn):
        super().__init__(src)
        self._tag, self._keyfn, self._valfn = tag, keyfn, valfn

    def __setitem__(self, k, v):
        EV.append([self._tag, self._keyfn(k), self._valfn(v)])
        super().__setitem__(k, v)

    def __delitem__(self, k):
        EV.append([self._tag + "_del", self._keyfn(k)])
        super().__delitem__(k)


def wrap_common(mediator):
    """Recording wrappers shared by both mediators (mediator process)."""
    set_handlers(mediator._event_handlers_list)
    sched = mediator._scheduler
    sh = mediator._state_handler
    ioh = mediator._input_output_handler
    last_time = {}
    o_push, o_get, o_trash = sched.push_event, sched.get_succeeding_event, sched.trash_event

    def push_event(t, h):
        last_time[id(h)] = ser_time(t)
        EV.append(["push", hidx(h), ser_time(t)])
        return o_push(t, h)

    def get_succeeding_event():
        h = o_get()
        EV.append(["get", hidx(h)])
        return h

    def trash_event(h):
        EV.append(["trash", hidx(h)])
        return o_trash(h)

    sched.push_event, sched.get_succeeding_event, sched.trash_event = push_event, get_succeeding_event, trash_event
    o_ins = sh.insert_into_global_state
    depth = [0]

    def insert_into_global_state(nodes):
        if depth[0] == 0:
            h = mediator._event_handler_with_shortest_event_time
            EV.append(["commit", hidx(h), last_time.get(id(h)), digest(ser_nodes(nodes))])
        depth[0] += 1
        try:
            return o_ins(nodes)
        finally:
            depth[0] -= 1

    sh.insert_into_global_state = insert_into_global_state
    o_write = ioh.write

    def write(name, *args):
        what = []
        for a in args:
            if isinstance(a, list):
                what.append(digest(ser_nodes(a)))
            else:
                what.append(type(a).__name__)
        EV.append(["write", name, what])
        return o_write(name, *args)

    ioh.write = write


def install_multi_patches():
    import jellyfysh.mediator.multi_process_mediator.multi_process_mediator as mpm
    import ctypes
    orig_rip = mpm.run_in_process
    orig_start = mpm.MultiProcessMediator._start_processes

    def run_in_process(self, pipe, *rest):
        # --- worker process, right after fork ---
        try:
            ctypes.CDLL("libc.so.6").prctl(1, signal.SIGKILL)   # PR_SET_PDEATHSIG: never outlive the driver
        except Exception:
            pass
        signal.signal(signal.SIGALRM, signal.SIG_DFL)
        signal.alarm(0)
        idx = HIDX[id(self)]
        instrument_handler_calls(self, idx, True)
        if PAUSE:
            start_event, continue_event, or_event, semaphore = rest
            pipe = SyncProxy(pipe, idx, after=("send",))
            rest = (SyncProxy(start_event, idx, before=("clear",)), SyncProxy(continue_event, idx, before=("clear",)),
                    SyncProxy(or_event, idx, after=("wait",)), SyncProxy(semaphore, idx, after=("release",)))
        try:
            return orig_rip(self, pipe, *rest)
        except BaseException:
            WORKER_ERR[idx] += 1
            raise

    def _start_processes(self):
        set_handlers(self._event_handlers_list)
        return orig_start(self)

    mpm.run_in_process = run_in_process
    mpm.MultiProcessMediator._start_processes = _start_processes
    return mpm


def wrap_multi(mediator, mpm):
    pipe_idx = {id(p): hidx(h) for p, h in mediator._event_handlers.items()}
    mediator._event_handlers_state = LogDict(mediator._event_handlers_state, "st",
                                             lambda p: pipe_idx[id(p)], lambda s: STAGE[s.name])
    mediator._out_states = LogDict(mediator._out_states, "os", hidx,
                                   lambda v: "None" if v is None else digest(ser_nodes(v)))
    real_conn = mpm.connection

    class ConnShim(object):
        @staticmethod
        def wait(pipes, *a, **k):
            ready = real_conn.wait(pipes, *a, **k)
            EV.append(["wait", [pipe_idx[id(p)] for p in ready]])
            return ready

        def __getattr__(self, name):
            return getattr(real_conn, name)

    mpm.connection = ConnShim()


def children_of(pid):
    out = []
    for d in os.listdir("/proc"):
        if d.isdigit():
            try:
                f = open("/proc/%s/stat" % d).read()
                rest = f[f.rindex(")") + 2:].split()
                if int(rest[1]) == pid:
                    out.append([int(d), rest[0]])
            except (OSError, ValueError):
                pass
    return out


class Deadlock(Exception):
    pass


def on_alarm(signum, frame):
    raise Deadlock()


def install_fat_charges(n):
    """every point mass gets n additional named charges (legal: the charge of a unit is a Mapping[str, float]); the
    charge map is shared by reference with every in-state, so that pickled in-states become large"""
    from jellyfysh.state_handler.tree_state_handler import TreeStateHandler
    orig = TreeStateHandler.initialize

    def initialize(self, global_physical_state):
        def walk(node):
            if node.children:
                for c in node.children:
                    walk(c)
            elif isinstance(getattr(node.value, "charge", None), dict):
                for i in range(n):
                    node.value.charge["pad_%05d" % i] = float(i)
        for root in global_physical_state:
            walk(root)
        return orig(self, global_physical_state)
    TreeStateHandler.initialize = initialize


def main():
    out = {"status": "ok"}
    cfg = load_config()
    if P.get("fat_charges"):
        install_fat_charges(int(P["fat_charges"]))
    tmp = tempfile.mkdtemp(prefix="c20out_", dir="/tmp")
    for sec in cfg.sections():
        if sec.endswith("OutputHandler") and cfg.has_option(sec, "filename"):
            cfg.set(sec, "filename", os.path.join(tmp, sec + ".dat"))
    random.seed(SEED)
    mpm = install_multi_patches() if MULTI else None
    mediator = None
    signal.signal(signal.SIGALRM, on_alarm)
    signal.alarm(int(P.get("timeout", 120)))
    t0 = time.time()
    try:
        factory.build_from_config(cfg, to_camel_case(cfg.get("Run", "setting")), "jellyfysh.setting")
        mediator = factory.build_from_config(cfg, to_camel_case(cfg.get("Run", "mediator")), "jellyfysh.mediator")
        wrap_common(mediator)
        if MULTI:
            wrap_multi(mediator, mpm)
        else:
            for i, h in enumerate(HL):
                instrument_handler_calls(h, i, False)
                o = h.send_event_time

                def et(*a, _o=o, _i=i):
                    EV.append(["et", _i])
                    return _o(*a)
                h.send_event_time = et
        out["handlers"] = [[type(h).__name__, h.number_send_event_time_arguments, h.number_send_out_state_arguments]
                           for h in HL]
        try:
            mediator.run()
            out["status"] = "run-returned"
        except EndOfRun:
            pass
        out["run_s"] = round(time.time() - t0, 3)
        out["children_before_post_run"] = len(multiprocessing.active_children())
        mediator.post_run()
    except Deadlock:
        out["status"] = "timeout"
        if mediator is not None and MULTI:
            out["stages_at_timeout"] = [[k, v] for k, v in
                                        sorted((hidx(mediator._event_handlers[p]), s.name)
                                               for p, s in mediator._event_handlers_state.items())]
    except Exception as e:  # noqa
        import traceback
        out["status"] = "exception"
        out["exception"] = type(e).__name__ + ": " + str(e)[:300]
        out["traceback"] = traceback.format_exc()[-1500:]
    signal.alarm(0)
    # processes left behind (the property's last sentence)
    left = multiprocessing.active_children()
    out["active_children_after_post_run"] = len(left)
    out["proc_children_after_post_run"] = children_of(os.getpid())
    for p in left:
        try:
            p.kill()
            p.join(5)
        except Exception:
            pass
    for pid, _ in children_of(os.getpid()):
        try:
            os.kill(pid, signal.SIGKILL)
        except OSError:
            pass
    out["events"] = EV
    n = len(HL)
    out["calls_et"] = list(CALLS_ET[:n])
    out["calls_os"] = list(CALLS_OS[:n])
    out["draws_os"] = list(DRAWS_OS[:n])
    out["draws_et"] = list(DRAWS_ET[:n])
    out["worker_err"] = list(WORKER_ERR[:n])
    if SLOW:
        out["slowed_out_states"] = [[i, SLOWED[i], SLOW_MS[i]] for i in range(n) if SLOWED[i]]
    if PAUSE:
        opn = {v: k for k, v in OPS.items()}
        out["pauses"] = [{"worker": i, "n": PAUSES[4 * i], "last_op": opn.get(PAUSES[4 * i + 1]),
                          "last_op_counter": PAUSES[4 * i + 2], "inside_pause_at_end": bool(PAUSES[4 * i + 3])}
                         for i in range(n) if PAUSES[4 * i]]
    files = {}
    for fn in sorted(os.listdir(tmp)):
        data = open(os.path.join(tmp, fn), "rb").read()
        data = b"\n".join(l for l in data.split(b"\n") if not l.startswith(b"# Run identification hash"))
        files[fn] = hashlib.sha1(data).hexdigest()[:20]
        os.remove(os.path.join(tmp, fn))
    os.rmdir(tmp)
    out["files"] = files
    setting.reset()
    try:
        from jellyfysh.activator.tagger.factor_type_maps import FactorTypeMaps
        FactorTypeMaps._instance = None
    except Exception:
        pass
    emit(out)
    sys.stdout.flush()
    os._exit(0)     # do not run multiprocessing's atexit join: every child was killed above


main()
