"""Driver C13: run op sequences on the REAL TreeStateHandler (mode "ops") and observe the commits of
real runs of the shipped configurations (mode "runs").

Payload: {"mode": "ops", "seqs": [seq, ...]} with
  seq = {"dim": d, "roots": n, "children": m, "tree": [[pos_bits, [child_pos_bits, ...]], ...], "ops": [...]}
  ops: ["ext", [i]] | ["ext", [i, j]] | ["act"] | ["glob"] | ["write", h, k, f, bits] | ["new", h, k, f, bits]
       | ["clear", h, k] | ["share", h, k, h2, k2, f] | ["ins", [h, ...]]        (f in "p", "v", "t")
  h = index into the list of all branches handed out so far, k = 0 root cnode / k >= 1 child cnode k-1.
Per op the driver reports the branches returned, the global state read back with extract_global_state()
(only if it differs from the previous read), for "ins" the values of the inserted branches just before the call,
and the number of attribute slots of held branches whose object IS (id()) an object of the global state.
"""
import os
import sys

from drvutil import read_payload, emit, f2b, b2f, exc_enum, assert_scratch
import jellyfysh.setting as setting
from jellyfysh.base.node import Node
from jellyfysh.base.particle import Particle
from jellyfysh.base.time import Time
from jellyfysh.setting import hypercubic_setting
from jellyfysh.state_handler.tree_state_handler import TreeStateHandler
from jellyfysh.state_handler.lifting_state.tree_lifting_state import TreeLiftingState
from jellyfysh.state_handler.physical_state.tree_physical_state import TreePhysicalState

assert_scratch()

DEBUG_LOGGERS = ("jellyfysh.state_handler.tree_state_handler",
                 "jellyfysh.state_handler.lifting_state.tree_lifting_state",
                 "jellyfysh.state_handler.physical_state.tree_physical_state")


class debug_logging:
    """Logging is one more input dimension: the state-handler loggers are enabled for DEBUG BEFORE the state
    handler is constructed (TreeStateHandler caches isEnabledFor(DEBUG) in __init__ / update_logging).  Nothing is
    printed (NullHandler, no propagation); everything is restored afterwards."""

    def __init__(self, on):
        self.on = on
        self.saved = []

    def __enter__(self):
        import logging
        if self.on:
            for name in DEBUG_LOGGERS:
                lg = logging.getLogger(name)
                h = logging.NullHandler()
                self.saved.append((lg, lg.level, lg.propagate, h))
                lg.addHandler(h)
                lg.propagate = False
                lg.setLevel(logging.DEBUG)
        return self

    def __exit__(self, *exc):
        for lg, level, propagate, h in self.saved:
            lg.setLevel(level)
            lg.propagate = propagate
            lg.removeHandler(h)
        return False


def vec_bits(v):
    return None if v is None else [f2b(x) for x in v]


def ts_bits(t):
    return None if t is None else [f2b(t.quotient), f2b(t.remainder)]


def unit_view(u):
    return [list(u.identifier), vec_bits(u.position), vec_bits(u.velocity), ts_bits(u.time_stamp)]


def cnodes(branch):
    """root cnode followed by its child cnodes (trees have at most two levels)."""
    out = [branch]
    for ch in branch.children:
        out.append(ch)
        assert not ch.children
    return out


def branch_view(branch):
    return [unit_view(c.value) for c in cnodes(branch)]


def global_view(sh):
    out = []
    for b in sh.extract_global_state():
        out += branch_view(b)
    return out


def global_objects(sh):
    ids = set()
    charges = set()
    for b in sh.extract_global_state():
        for c in cnodes(b):
            u = c.value
            for o in (u.position, u.velocity, u.time_stamp):
                if o is not None:
                    ids.add(id(o))
            if u.charge is not None:
                charges.add(id(u.charge))
    return ids, charges


def alias_count(sh, held):
    gl, ch = global_objects(sh)
    n = 0
    nch = 0
    for b in held:
        for c in cnodes(b):
            u = c.value
            for o in (u.position, u.velocity, u.time_stamp):
                if o is not None and id(o) in gl:
                    n += 1
            if u.charge is not None and id(u.charge) in ch:
                nch += 1
    return n, nch


def sort_key(branch):
    """extract_active_global_state iterates over a Python set: order is a representation detail."""
    ident = branch.value.identifier
    first = branch.children[0].value.identifier if branch.children else ()
    return (tuple(ident), tuple(first))


def build(seq):
    setting.reset()
    hypercubic_setting.HypercubicSetting(beta=1.0, dimension=seq["dim"], system_length=1.0)
    setting.set_number_of_root_nodes(seq["roots"])
    setting.set_number_of_nodes_per_root_node(max(seq["children"], 1))
    setting.set_number_of_node_levels(1 if seq["children"] == 0 else 2)
    roots = []
    for i, (pb, cps) in enumerate(seq["tree"]):
        if cps:
            root = Node(Particle(position=[b2f(x) for x in pb]))
            for j, cp in enumerate(cps):
                root.add_child(Node(Particle(position=[b2f(x) for x in cp], charge={"e": float((-1) ** j)})))
        else:
            root = Node(Particle(position=[b2f(x) for x in pb], charge={"e": 1.0}))
        roots.append(root)
    sh = TreeStateHandler(TreePhysicalState(), TreeLiftingState())
    sh.initialize(roots)
    return sh


def get_unit(held, h, k):
    return cnodes(held[h])[k].value


ATTR = {"p": "position", "v": "velocity", "t": "time_stamp"}


def run_seq(seq):
    with debug_logging(seq.get("debug", False)):
        return run_seq_inner(seq)


def run_seq_inner(seq):
    sh = build(seq)
    held = []
    out = {"init": global_view(sh), "steps": []}
    prev = out["init"]
    charge_alias = 0
    for op in seq["ops"]:
        rec = {}
        try:
            k = op[0]
            if k == "ext":
                b = sh.extract_from_global_state(tuple(op[1]))
                held.append(b)
                rec["ret"] = [branch_view(b)]
            elif k == "act":
                bs = sorted(sh.extract_active_global_state(), key=sort_key)
                held += bs
                rec["ret"] = [branch_view(b) for b in bs]
            elif k == "glob":
                bs = sh.extract_global_state()
                held += bs
                rec["ret"] = [branch_view(b) for b in bs]
            elif k == "write":
                u = get_unit(held, op[1], op[2])
                f = op[3]
                if f == "t":
                    u.time_stamp.update(Time(b2f(op[4][0]), b2f(op[4][1])))
                else:
                    obj = getattr(u, ATTR[f])
                    assert len(obj) == len(op[4])
                    for d, x in enumerate(op[4]):
                        obj[d] = b2f(x)
            elif k == "new":
                u = get_unit(held, op[1], op[2])
                f = op[3]
                if f == "t":
                    u.time_stamp = Time(b2f(op[4][0]), b2f(op[4][1]))
                else:
                    setattr(u, ATTR[f], [b2f(x) for x in op[4]])
            elif k == "clear":
                u = get_unit(held, op[1], op[2])
                u.velocity = None
                u.time_stamp = None
            elif k == "share":
                u = get_unit(held, op[1], op[2])
                u2 = get_unit(held, op[3], op[4])
                setattr(u, ATTR[op[5]], getattr(u2, ATTR[op[5]]))
            elif k == "ins":
                bs = [held[h] for h in op[1]]
                rec["pre"] = [branch_view(b) for b in bs]
                sh.insert_into_global_state(bs)
            else:
                raise RuntimeError("unknown op")
        except Exception as e:  # noqa
            rec["exc"] = exc_enum(e)
        g = global_view(sh)
        if g == prev:
            rec["same"] = True
        else:
            rec["glob"] = g
            prev = g
        rec["alias"], nch = alias_count(sh, held)
        charge_alias = max(charge_alias, nch)
        out["steps"].append(rec)
    out["final"] = [branch_view(b) for b in held]
    out["charge_alias"] = charge_alias
    setting.reset()
    return out


# ----------------------------------------------------------------------------------------------------
# real runs: every commit (depth-0 call of insert_into_global_state) is observed
def run_config(cfg):
    """Run one shipped configuration with a shortened end of run; at every commit compare the global state
    before the commit with the state after the previous commit, and the state after the commit with 'before,
    overridden by exactly the inserted values'."""
    import random
    from configparser import ConfigParser
    from jellyfysh import run as jf_run

    stats = {"config": cfg["ini"], "debug_logging": bool(cfg.get("debug", False)), "commits": 0, "changed_between_commits": 0, "insert_not_exact": 0,
             "units_inserted": 0, "examples": [], "extract_changed_state": 0, "extracts": 0}
    depth = [0]
    last_after = [None]
    orig_insert = TreeStateHandler.insert_into_global_state
    orig_extract = TreeStateHandler.extract_from_global_state

    def snap(sh):
        d = {}
        for u in global_view(sh):
            d[tuple(u[0])] = (u[1], u[2], u[3])
        return d

    def insert(self, extracted):
        if depth[0] > 0:
            return orig_insert(self, extracted)
        before = snap(self)
        if last_after[0] is not None and before != last_after[0]:
            stats["changed_between_commits"] += 1
            if len(stats["examples"]) < 3:
                diff = [k for k in before if before[k] != last_after[0].get(k)]
                stats["examples"].append({"what": "changed between commits", "commit": stats["commits"],
                                          "ids": [list(k) for k in diff[:5]]})
        expected = dict(before)
        for b in extracted:
            stack = [b]
            while stack:  # same visiting order as the recursion: node, then its children in order
                c = stack.pop(0)
                u = c.value
                expected[tuple(u.identifier)] = (vec_bits(u.position), vec_bits(u.velocity), ts_bits(u.time_stamp))
                stats["units_inserted"] += 1
                stack = list(c.children) + stack
        depth[0] += 1
        try:
            r = orig_insert(self, extracted)
        finally:
            depth[0] -= 1
        after = snap(self)
        if after != expected:
            stats["insert_not_exact"] += 1
            if len(stats["examples"]) < 3:
                diff = [k for k in after if after[k] != expected.get(k)]
                stats["examples"].append({"what": "insert not exact", "commit": stats["commits"],
                                          "ids": [list(k) for k in diff[:5]]})
        last_after[0] = after
        stats["commits"] += 1
        return r

    check_every = cfg.get("check_extract_every", 1)

    def extract(self, identifier):
        r = orig_extract(self, identifier)
        stats["extracts"] += 1
        if last_after[0] is not None and stats["extracts"] % check_every == 0 and snap(self) != last_after[0]:
            stats["extract_changed_state"] += 1
        return r

    TreeStateHandler.insert_into_global_state = insert
    TreeStateHandler.extract_from_global_state = extract
    try:
        parser = ConfigParser()
        parser.optionxform = str
        with open(cfg["ini"]) as f:
            parser.read_file(f)
        for sec, key, value in cfg.get("override", []):
            if parser.has_section(sec):
                parser.set(sec, key, value)
        random.seed(cfg["seed"])
        argv = sys.argv
        orig_read = jf_run.read_config
        jf_run.read_config = lambda _path: parser
        sys.argv = ["jellyfysh", cfg["ini"]]
        devnull = open(os.devnull, "w")
        so = sys.stdout
        sys.stdout = devnull
        try:
            with debug_logging(cfg.get("debug", False)):
                jf_run.main()
        except SystemExit:
            pass
        finally:
            sys.stdout = so
            devnull.close()
            jf_run.read_config = orig_read
            sys.argv = argv
    except Exception as e:  # noqa
        import traceback
        stats["exc"] = exc_enum(e) + ": " + traceback.format_exc()[-600:]
    finally:
        TreeStateHandler.insert_into_global_state = orig_insert
        TreeStateHandler.extract_from_global_state = orig_extract
        try:
            setting.reset()
        except Exception:  # noqa
            pass
    return stats


payload = read_payload()
if payload.get("mode", "ops") == "ops":
    emit({"out": [run_seq(s) for s in payload["seqs"]]})
else:
    emit({"out": [run_config(payload["config"])]})
