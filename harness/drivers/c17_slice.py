"""Driver C17 (handler level): FixedIntervalSamplingEventHandler / FinalTimeEndOfRunEventHandler.send_out_state on
constructed active states: several active branches, also several active point masses of ONE composite object."""
import copy
from drvutil import read_payload, emit, f2b, b2f, exc_enum, assert_scratch
import jellyfysh.setting as setting
from jellyfysh.setting.hypercubic_setting import HypercubicSetting
from jellyfysh.setting.hypercuboid_setting import HypercuboidSetting
from jellyfysh.base.node import Node
from jellyfysh.base.unit import Unit
from jellyfysh.base.time import Time
from jellyfysh.event_handler.fixed_interval_sampling_event_handler import FixedIntervalSamplingEventHandler
from jellyfysh.event_handler.final_time_end_of_run_event_handler import FinalTimeEndOfRunEventHandler

assert_scratch()
cases = read_payload()["cases"]
out = []


def build(branch):
    """branch = {"id":…, "pos":[bits], "vel":[bits]|None, "ts":[q,r]|None, "children":[…]}"""
    u = Unit(tuple(branch["id"]), [b2f(x) for x in branch["pos"]], None,
             None if branch["vel"] is None else [b2f(x) for x in branch["vel"]],
             None if branch["ts"] is None else Time(b2f(branch["ts"][0]), b2f(branch["ts"][1])))
    n = Node(u, weight=1.0)
    for c in branch.get("children", []):
        n.add_child(build(c))
    return n


def flat(nodes, acc):
    for n in nodes:
        u = n.value
        acc.append({"pos": [f2b(x) for x in u.position],
                    "vel": None if u.velocity is None else [f2b(x) for x in u.velocity],
                    "ts": None if u.time_stamp is None else [f2b(u.time_stamp.quotient), f2b(u.time_stamp.remainder)]})
        flat(n.children, acc)
    return acc


for c in cases:
    try:
        Ls = [b2f(x) for x in c["L"]]
        if len(set(Ls)) == 1:
            HypercubicSetting(beta=1.0, dimension=len(Ls), system_length=Ls[0])
        else:
            HypercuboidSetting(system_lengths=Ls, beta=1.0, dimension=len(Ls))
        setting.set_number_of_node_levels(2)
        setting.set_number_of_root_nodes(4)
        setting.set_number_of_nodes_per_root_node(3)
        if c["handler"] == "sampling":
            h = FixedIntervalSamplingEventHandler(sampling_interval=b2f(c["interval"]), output_handler="x")
            for _ in range(c["k"]):
                t = h.send_event_time()
        else:
            h = FinalTimeEndOfRunEventHandler(end_of_run_time=b2f(c["interval"]), output_handler=None)
            t = h.send_event_time()
        state = [build(b) for b in c["branches"]]
        before = flat(state, [])
        res = h.send_out_state(state)
        out.append({"T": [f2b(t.quotient), f2b(t.remainder)], "before": before, "after": flat(res, []),
                    "n_branches": len(res)})
    except Exception as e:  # noqa
        out.append({"exc": exc_enum(e), "msg": str(e)[:200]})
    finally:
        setting.reset()
emit({"out": out})
