"""Driver C15: run the periodic boundaries of jellyfysh.setting (hypercubic / hypercuboid) on bit-level inputs.

Payload: {"groups": [{"setting": ["cubic", dim, L_bits] | ["cuboid", [L_bits, ...]], "ops": [...],
                      "via": "own" | "cuboid"  (optional; "cuboid": use the HypercuboidPeriodicBoundaries class, which is
                             usable under a hypercubic setting because the cubic setter initialises the cuboid module),
                      "history": [setting, ...] (optional; settings initialised, used once and reset before, in the
                             same process)}, ...]}
All groups of a payload run in ONE process in the given order: the history of setting (re-)initialisations is part of
the input.  After every initialisation both classes are used once (touch) so that a group's effect on later groups
depends on its setting only.
Output:  {"out": [[result per op] per group], "init": ["ok" | ["EXC", name] | ["ERR", text] per group],
          "stored": [[length bits ...], [half-length bits ...]] per group (what the setting module holds)}
"""
from drvutil import read_payload, emit, f2b, b2f, exc_enum, assert_scratch
import jellyfysh  # noqa: F401
from jellyfysh import setting
from jellyfysh.setting import hypercubic_setting, hypercuboid_setting

assert_scratch()


def init_setting(st):
    """Initialise the setting package as the application does; returns (periodic boundaries instance, stored)."""
    if st[0] == "cubic":
        hypercubic_setting.HypercubicSetting(beta=1.0, dimension=int(st[1]), system_length=b2f(st[2]))
        cls = hypercubic_setting.HypercubicPeriodicBoundaries
        mod = hypercubic_setting
        stored = [[f2b(hypercubic_setting.system_length)], [f2b(hypercubic_setting.system_length_over_two)]]
    elif st[0] == "cuboid":
        lengths = [b2f(b) for b in st[1]]
        hypercuboid_setting.HypercuboidSetting(system_lengths=lengths, beta=1.0, dimension=len(lengths))
        cls = hypercuboid_setting.HypercuboidPeriodicBoundaries
        mod = hypercuboid_setting
        stored = [[f2b(x) for x in hypercuboid_setting.system_lengths],
                  [f2b(x) for x in hypercuboid_setting.system_lengths_over_two]]
    else:
        raise ValueError("unknown setting kind")
    pb = setting.periodic_boundaries
    if not isinstance(pb, cls) or mod.periodic_boundaries is not pb:
        return None, stored
    return pb, stored


def touch(st):
    """Use both periodic-boundaries classes once, as an application would, ignoring errors."""
    dim = int(st[1]) if st[0] == "cubic" else len(st[1])
    for cls in (hypercubic_setting.HypercubicPeriodicBoundaries, hypercuboid_setting.HypercuboidPeriodicBoundaries):
        for f in (lambda: cls.correct_position([0.0] * dim), lambda: cls.correct_separation([0.0] * dim),
                  lambda: cls.separation_vector([0.0] * dim, [0.0] * dim), lambda: cls.correct_position_entry(0.0, 0),
                  lambda: cls.correct_separation_entry(0.0, 0), lambda: cls.next_image(0.0, 0)):
            try:
                f()
            except Exception:  # noqa
                pass


def run_op(pb, op):
    k = op[0]
    if k == "pos_entry":
        return [f2b(pb.correct_position_entry(b2f(op[1]), int(op[2])))]
    if k == "sep_entry":
        return [f2b(pb.correct_separation_entry(b2f(op[1]), int(op[2])))]
    if k == "next":
        return [f2b(pb.next_image(b2f(op[1]), int(op[2])))]
    if k == "pos":
        v = [b2f(b) for b in op[1]]
        r = pb.correct_position(v)
        if r is not None:
            return ["ERR", "correct_position returned a value"]
        return [f2b(x) for x in v]
    if k == "sep":
        v = [b2f(b) for b in op[1]]
        r = pb.correct_separation(v)
        if r is not None:
            return ["ERR", "correct_separation returned a value"]
        return [f2b(x) for x in v]
    if k == "sepvec":
        ref = [b2f(b) for b in op[1]]
        tgt = [b2f(b) for b in op[2]]
        ref0, tgt0 = list(ref), list(tgt)
        r = pb.separation_vector(ref, tgt)
        if [f2b(x) for x in ref] != [f2b(x) for x in ref0] or [f2b(x) for x in tgt] != [f2b(x) for x in tgt0]:
            return ["ERR", "separation_vector changed its arguments"]
        return [f2b(x) for x in r]
    return ["ERR", "unknown op"]


groups = read_payload()["groups"]
out, inits, stored_all = [], [], []
for g in groups:
    setting.reset()
    for h in g.get("history") or []:
        try:
            init_setting(h)
            touch(h)
        except Exception:  # noqa
            pass
        setting.reset()
    pb, stored, init = None, [[], []], "ok"
    try:
        pb, stored = init_setting(g["setting"])
        if pb is None:
            init = ["ERR", "setting.periodic_boundaries is not an instance of the expected class"]
        else:
            touch(g["setting"])
            if g.get("via") == "cuboid":
                if hypercuboid_setting.system_lengths is None:
                    init = ["ERR", "hypercuboid_setting is not initialised under this setting"]
                else:
                    pb = hypercuboid_setting.HypercuboidPeriodicBoundaries
                    stored = [[f2b(x) for x in hypercuboid_setting.system_lengths],
                              [f2b(x) for x in hypercuboid_setting.system_lengths_over_two]]
    except Exception as e:  # noqa
        init = ["EXC", exc_enum(e)]
    res = []
    for op in g["ops"]:
        if init != "ok":
            res.append(list(init))
            continue
        try:
            res.append(run_op(pb, op))
        except Exception as e:  # noqa
            res.append(["EXC", exc_enum(e)])
    out.append(res)
    inits.append(init)
    stored_all.append(stored)
setting.reset()
emit({"out": out, "init": inits, "stored": stored_all})
