"""Driver C15: run the periodic boundaries of jellyfysh.setting (hypercubic / hypercuboid) on bit-level inputs.

Payload: {"groups": [{"setting": ["cubic", dim, L_bits] | ["cuboid", [L_bits, ...]], "ops": [...],
                      "via": "own" | "cuboid"  (optional; "cuboid": use the HypercuboidPeriodicBoundaries class, which is
                             usable under a hypercubic setting because the cubic setter initialises the cuboid module),
                      "history": [setting, ...] (optional; settings initialised, used once and reset before, in the
                             same process)}, ...]}
All groups of a payload run in ONE process in the given order: the history of setting (re-)initialisations is part of
the input.  After every initialisation both classes are used once (touch) so that a group's effect on later groups
depends on its setting only.
Output:  {"out": [[result per op] per group], "init": ["ok" | ["EXC", name] | ["ERR", text] per group],
          "stored": [[length bits ...], [half-length bits ...]] per group (what the setting module holds),
          "alias": [[victim op index, culprit op index, message] ...] per group: list objects of earlier calls (results of
                   separation_vector, lists corrected in place, argument lists) are kept alive for the whole group and
                   re-read after every later call}
"""
from drvutil import read_payload, emit, f2b, b2f, exc_enum, assert_scratch
import jellyfysh  # noqa: F401
from jellyfysh import setting
from jellyfysh.setting import hypercubic_setting, hypercuboid_setting

assert_scratch()


def init_setting(st):
    """Initialise the setting package as the application does; returns (periodic boundaries instance, stored)."""
    if st[0] == "cubic":
        hypercubic_setting.HypercubicSetting(beta=1.0, dimension=int(st[1]), system_length=b2f(st[2]))
        cls = hypercubic_setting.HypercubicPeriodicBoundaries
        mod = hypercubic_setting
        stored = [[f2b(hypercubic_setting.system_length)], [f2b(hypercubic_setting.system_length_over_two)]]
    elif st[0] == "cuboid":
        lengths = [b2f(b) for b in st[1]]
        hypercuboid_setting.HypercuboidSetting(system_lengths=lengths, beta=1.0, dimension=len(lengths))
        cls = hypercuboid_setting.HypercuboidPeriodicBoundaries
        mod = hypercuboid_setting
        stored = [[f2b(x) for x in hypercuboid_setting.system_lengths],
                  [f2b(x) for x in hypercuboid_setting.system_lengths_over_two]]
    else:
        raise ValueError("unknown setting kind")
    pb = setting.periodic_boundaries
    if not isinstance(pb, cls) or mod.periodic_boundaries is not pb:
        return None, stored
    return pb, stored


def touch(st):
    """Use both periodic-boundaries classes once, as an application would, ignoring errors."""
    dim = int(st[1]) if st[0] == "cubic" else len(st[1])
    for cls in (hypercubic_setting.HypercubicPeriodicBoundaries, hypercuboid_setting.HypercuboidPeriodicBoundaries):
        for f in (lambda: cls.correct_position([0.0] * dim), lambda: cls.correct_separation([0.0] * dim),
                  lambda: cls.separation_vector([0.0] * dim, [0.0] * dim), lambda: cls.correct_position_entry(0.0, 0),
                  lambda: cls.correct_separation_entry(0.0, 0), lambda: cls.next_image(0.0, 0)):
            try:
                f()
            except Exception:  # noqa
                pass


class Keeper(object):
    """Keeps the list objects of earlier calls alive (results of separation_vector, the lists corrected in place,
    the argument lists) and re-reads them after every later call: a kept list must stay bit for bit what it was, and a
    returned list must be a new object."""

    def __init__(self):
        self.kept = []          # (op index, role, list object, snapshot bits)
        self.alias = []         # [victim op index, culprit op index, message]
        self.cur = 0

    @staticmethod
    def bits(v):
        return [f2b(x) for x in v]

    def fresh(self, obj, role):
        """obj was returned by the current call: it must not be one of the kept objects"""
        for (j, r, o, _) in self.kept:
            if o is obj:
                self.alias.append([j, self.cur, "%s of op %d is the same list object as the %s of op %d"
                                   % (role, self.cur, r, j)])
                return

    def keep(self, obj, role):
        self.kept.append((self.cur, role, obj, self.bits(obj)))

    def recheck(self):
        for n, (j, r, o, snap) in enumerate(self.kept):
            try:
                now = self.bits(o)
            except Exception:  # noqa
                now = None
            if now != snap:
                self.alias.append([j, self.cur, "the %s of op %d was changed by op %d" % (r, j, self.cur)])
                self.kept[n] = (j, r, o, now if now is not None else snap)


KEEPER = Keeper()


def run_op(pb, op):
    k = op[0]
    if k == "pos_entry":
        return [f2b(pb.correct_position_entry(b2f(op[1]), int(op[2])))]
    if k == "sep_entry":
        return [f2b(pb.correct_separation_entry(b2f(op[1]), int(op[2])))]
    if k == "next":
        return [f2b(pb.next_image(b2f(op[1]), int(op[2])))]
    if k == "pos":
        v = [b2f(b) for b in op[1]]
        r = pb.correct_position(v)
        if r is not None:
            return ["ERR", "correct_position returned a value"]
        KEEPER.keep(v, "list corrected in place by correct_position")
        return [f2b(x) for x in v]
    if k == "sep":
        v = [b2f(b) for b in op[1]]
        r = pb.correct_separation(v)
        if r is not None:
            return ["ERR", "correct_separation returned a value"]
        KEEPER.keep(v, "list corrected in place by correct_separation")
        return [f2b(x) for x in v]
    if k == "sepvec":
        ref = [b2f(b) for b in op[1]]
        tgt = [b2f(b) for b in op[2]]
        ref0, tgt0 = list(ref), list(tgt)
        r = pb.separation_vector(ref, tgt)
        if [f2b(x) for x in ref] != [f2b(x) for x in ref0] or [f2b(x) for x in tgt] != [f2b(x) for x in tgt0]:
            return ["ERR", "separation_vector changed its arguments"]
        if r is ref or r is tgt:
            return ["ERR", "separation_vector returned one of its arguments"]
        if not isinstance(r, list):
            return ["ERR", "separation_vector did not return a list"]
        KEEPER.fresh(r, "result of separation_vector")
        KEEPER.keep(r, "result of separation_vector")
        KEEPER.keep(ref, "reference position passed to separation_vector")
        KEEPER.keep(tgt, "target position passed to separation_vector")
        return [f2b(x) for x in r]
    return ["ERR", "unknown op"]


groups = read_payload()["groups"]
out, inits, stored_all, alias_all = [], [], [], []
for g in groups:
    setting.reset()
    for h in g.get("history") or []:
        try:
            init_setting(h)
            touch(h)
        except Exception:  # noqa
            pass
        setting.reset()
    pb, stored, init = None, [[], []], "ok"
    try:
        pb, stored = init_setting(g["setting"])
        if pb is None:
            init = ["ERR", "setting.periodic_boundaries is not an instance of the expected class"]
        else:
            touch(g["setting"])
            if g.get("via") == "cuboid":
                if hypercuboid_setting.system_lengths is None:
                    init = ["ERR", "hypercuboid_setting is not initialised under this setting"]
                else:
                    pb = hypercuboid_setting.HypercuboidPeriodicBoundaries
                    stored = [[f2b(x) for x in hypercuboid_setting.system_lengths],
                              [f2b(x) for x in hypercuboid_setting.system_lengths_over_two]]
    except Exception as e:  # noqa
        init = ["EXC", exc_enum(e)]
    res = []
    KEEPER = Keeper()
    for opi, op in enumerate(g["ops"]):
        if init != "ok":
            res.append(list(init))
            continue
        KEEPER.cur = opi
        try:
            res.append(run_op(pb, op))
        except Exception as e:  # noqa
            res.append(["EXC", exc_enum(e)])
        KEEPER.recheck()
    out.append(res)
    inits.append(init)
    stored_all.append(stored)
    alias_all.append(KEEPER.alias)
setting.reset()
emit({"out": out, "init": inits, "stored": stored_all, "alias": alias_all})
