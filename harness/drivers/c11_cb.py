"""Driver C11 (handler level): CellBoundaryEventHandler on constructed branches in real CuboidPeriodicCells grids
(cubic and non-cubic boxes): send_event_time, the stored boundary / direction, send_out_state."""
from drvutil import read_payload, emit, f2b, b2f, exc_enum, assert_scratch
import jellyfysh.setting as setting
from jellyfysh.setting.hypercubic_setting import HypercubicSetting
from jellyfysh.setting.hypercuboid_setting import HypercuboidSetting
from jellyfysh.base.node import Node
from jellyfysh.base.unit import Unit
from jellyfysh.base.time import Time
from jellyfysh.activator.internal_state.cell_occupancy.cells.cuboid_periodic_cells import CuboidPeriodicCells
from jellyfysh.event_handler.cell_boundary_event_handler import CellBoundaryEventHandler

assert_scratch()
cases = read_payload()["cases"]
out = []


def build(branch):
    u = Unit(tuple(branch["id"]), [b2f(x) for x in branch["pos"]], None,
             None if branch["vel"] is None else [b2f(x) for x in branch["vel"]],
             None if branch["ts"] is None else Time(b2f(branch["ts"][0]), b2f(branch["ts"][1])))
    n = Node(u, weight=b2f(branch["w"]))
    for c in branch.get("children", []):
        n.add_child(build(c))
    return n


def flat(nodes, acc):
    for n in nodes:
        u = n.value
        acc.append({"id": list(u.identifier), "pos": [f2b(x) for x in u.position],
                    "vel": None if u.velocity is None else [f2b(x) for x in u.velocity],
                    "ts": None if u.time_stamp is None else [f2b(u.time_stamp.quotient), f2b(u.time_stamp.remainder)]})
        flat(n.children, acc)
    return acc


h = None
for c in cases:
    o = {}
    try:
        Ls = [b2f(x) for x in c["L"]]
        if len(set(Ls)) == 1 and c["cubic_class"]:
            HypercubicSetting(beta=1.0, dimension=len(Ls), system_length=Ls[0])
        else:
            HypercuboidSetting(beta=1.0, dimension=len(Ls), system_lengths=Ls)
        setting.set_number_of_node_levels(c["levels"])
        setting.set_number_of_root_nodes(5)
        setting.set_number_of_nodes_per_root_node(2)
        cells = CuboidPeriodicCells(cells_per_side=list(c["ns"]), neighbor_layers=1)
        if h is None or c["fresh"]:
            h = CellBoundaryEventHandler()
            h.initialize(cells, c["cell_level"])
        else:
            # ONE handler object for consecutive cases, as in a run (initialize can be called only once: the cell
            # system of the next case is put in place directly)
            h._cells = cells
            h._cell_level = c["cell_level"]
        root = build(c["branch"])
        node = root
        while len(node.value.identifier) < c["cell_level"]:
            node = node.children[0]
        rel = node.value
        cell = cells.position_to_cell(rel.position)
        o["bmins"] = [f2b(cells.neighbor_cell(cell, d, True).cell_min[d]) for d in range(len(Ls))]
        o["bmaxs"] = [f2b(cells.neighbor_cell(cell, d, False).cell_max[d]) for d in range(len(Ls))]
        o["cell"] = list(cell.identifier)
        try:
            t = h.send_event_time([root])
            o["T"] = [f2b(t.quotient), f2b(t.remainder)]
            o["bound"] = f2b(h._boundary)
            o["dir"] = int(h._direction)
        except Exception as e:  # noqa
            o["T"] = None
            o["exc_T"] = exc_enum(e)
        if o["T"] is not None:
            try:
                res = h.send_out_state()
                o["out"] = flat(res, [])
                relu = [u for u in o["out"] if u["id"] == list(rel.identifier)][0]
                o["cell_after"] = list(cells.position_to_cell([b2f(x) for x in relu["pos"]]).identifier)
            except Exception as e:  # noqa
                o["out"] = None
                o["exc_out"] = exc_enum(e) + ": " + str(e)[:100]
    except Exception as e:  # noqa
        o = {"exc": exc_enum(e), "msg": str(e)[:200]}
    finally:
        setting.reset()
    out.append(o)
emit({"out": out})
