"""Driver C19: (a) run a configuration with an added dumping tagger, keeping a copy of every dump written;
(b) resume from one dump file in this fresh process (jellyfysh.resume.main), with the same tracer.
payload (a): {"mode": "run", "config":…, "overrides":…, "seed":…, "max_legs":…, "dump_interval": float | null,
              "dump_name": "dumps_x_dump.dat"}     (dump_interval null = the same run WITHOUT dumping)
payload (b): {"mode": "resume", "dump_file": path, "max_legs":…}"""
import io
import os
import random
import shutil
import sys
import traceback
from configparser import ConfigParser

from drvutil import read_payload, emit, assert_scratch, exc_enum
import tracer

import jellyfysh.run as run
import jellyfysh.resume as resume
assert_scratch()
p = read_payload()
tracer.install()
DUMPS = []

from jellyfysh.input_output_handler.output_handler.dumping_output_handler import DumpingOutputHandler  # noqa
_orig_write = DumpingOutputHandler.write


def _write(self, mediator):
    out = io.StringIO()
    so = sys.stdout
    sys.stdout = out
    try:
        r = _orig_write(self, mediator)
    finally:
        sys.stdout = so
    if p["mode"] != "run":
        return r          # a resumed run must not overwrite the kept copies of the original run's dumps
    t = tracer.TRACER
    k = len(DUMPS)
    dst = "%s.%d" % (self._output_filename, k)
    shutil.copy(self._output_filename, dst)
    DUMPS.append({"leg": len(t.legs) if t is not None else None, "file": os.path.abspath(dst)})
    return r


DumpingOutputHandler.write = _write


def strip_list(value, tag):
    return ", ".join(x.strip() for x in value.replace("\n", " ").split(",") if x.strip() and x.strip() != tag)


def shipped_dumping(config, interval, name):
    """A configuration that SHIPS with a dumping tagger (power_bounded_dump.ini): its own [Dumping] lists are used as
    they are in the tree; with interval None the dumping tagger is removed from the configuration instead."""
    if interval is not None:
        config.set("FixedIntervalDumpingEventHandler", "dumping_interval", str(interval))
        config.set("DumpingOutputHandler", "filename", name)
        return
    tags = [x.strip() for x in config.get("TagActivator", "taggers").replace("\n", " ").split(",") if x.strip()]
    config.set("TagActivator", "taggers", ", ".join(t for t in tags if not t.startswith("dumping ")
                                                    and t != "dumping"))
    for sec in config.sections():
        for opt in ("create", "trash", "activate", "deactivate"):
            if config.has_option(sec, opt):
                config.set(sec, opt, strip_list(config.get(sec, opt), "dumping"))
    for sec in ("Dumping", "FixedIntervalDumpingEventHandler", "DumpingOutputHandler"):
        config.remove_section(sec)
    config.set("InputOutputHandler", "output_handlers",
               strip_list(config.get("InputOutputHandler", "output_handlers"), "dumping_output_handler"))


def add_dumping(config, interval, name):
    tag = config.get("TagActivator", "taggers")
    config.set("TagActivator", "taggers", tag.rstrip().rstrip(",") + ",\n    dumping (no_in_state_tagger)")
    config.add_section("Dumping")
    config.set("Dumping", "create", "dumping")
    config.set("Dumping", "trash", "dumping")
    config.set("Dumping", "event_handler", "fixed_interval_dumping_event_handler")
    config.add_section("FixedIntervalDumpingEventHandler")
    config.set("FixedIntervalDumpingEventHandler", "dumping_interval", str(interval))
    config.set("FixedIntervalDumpingEventHandler", "output_handler", "dumping_output_handler")
    config.add_section("DumpingOutputHandler")
    config.set("DumpingOutputHandler", "filename", name)
    oh = config.get("InputOutputHandler", "output_handlers")
    config.set("InputOutputHandler", "output_handlers", oh.rstrip().rstrip(",") + ", dumping_output_handler")
    config.set("StartOfRun", "create", config.get("StartOfRun", "create").rstrip().rstrip(",") + ", dumping")
    config.set("EndOfRun", "trash", config.get("EndOfRun", "trash").rstrip().rstrip(",") + ", dumping")


def read_config(config_file):
    config = ConfigParser()
    if not config.read(config_file):
        raise RuntimeError("Given configuration file does not exist.")
    for sec, kv in (p.get("overrides") or {}).items():
        if not config.has_section(sec):
            config.add_section(sec)
        for k, v in kv.items():
            config.set(sec, k, str(v))
    if config.has_section("Dumping"):
        shipped_dumping(config, p.get("dump_interval"), p.get("dump_name"))
    elif p.get("dump_interval") is not None:
        add_dumping(config, p["dump_interval"], p["dump_name"])
    return config


def leftover_name(name):
    a, b = name.split(".")
    return a + "_" + sys.implementation.name + "_" + "_".join(str(sys.version_info[i]) for i in range(3)) + "." + b


if p.get("leftover") and p.get("dump_name"):
    # a dump file of a previous run already exists at the dump path (re-running a configuration in place)
    with open(leftover_name(p["dump_name"]), "wb") as _f:
        _f.write(b"leftover of a previous run")

run.read_config = read_config
run.print_start_message = lambda: None
resume.print_start_message = lambda: None
tracer.TRACER = tracer.Tracer(p.get("max_legs", 300), record_fresh=False, record_instates=False)
err = None
try:
    so = sys.stdout
    sys.stdout = io.StringIO()
    try:
        if p["mode"] == "run":
            sys.argv = ["run.py", p["config"]]
            random.seed(p["seed"])
            run.main()
        else:
            sys.argv = ["resume.py", p["dump_file"]]
            resume.main()
        tracer.TRACER.ended = "end_of_run"
    finally:
        sys.stdout = so
except tracer.StopTrace:
    pass
except BaseException as e:  # noqa
    err = {"exc": exc_enum(e) if isinstance(e, Exception) else type(e).__name__, "msg": str(e)[:500],
           "tb": traceback.format_exc()[-3000:]}
    tracer.TRACER.ended = "exception"
tracer.TRACER.finish()
res = tracer.TRACER.result()
res["error"] = err
res["dumps"] = DUMPS
res["config"] = p.get("config")
res["seed"] = p.get("seed")
emit(res)
