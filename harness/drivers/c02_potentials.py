"""Driver C02/C03: run the real potentials (Python classes and the two cffi C extensions) on bit-level inputs.

payload: {"ops": [op, ...]}; every float crosses as a 64-bit integer.  op = dict with key "k":
  ip_disp / ip_der / ip_pot      p, pref, c1, c2, sep, dir, speed, dE
  lj_disp / lj_der / lj_pot      k_, sigma, sep, dir, speed, dE
  dep_disp / dep_der / dep_pot   k_, r0, p(int), sep, dir, speed, dE
  hs_disp                        radius, vel, sep
  hd_disp                        mn, mx, vel, sep
  cb_disp / cb_der               upper, lower, ac, tc, dir, speed, dE     (cell-bounding, stub estimator)
  bend_der                       k_, phi0, dir, speed, sep1, sep2
  ipc_disp / ipc_der             pref, c1, c2, sep, dir, speed, dE, L
  mic_der                        alpha, fc(int), pc(int), pref, c1, c2, sep, dir, speed, L, [via]
                                 via = orig (default) | deepcopy | tagger1 | tagger2 | dill | pickle:
                                 which instance of the potential is asked (copy.deepcopy, the deep copies a real
                                 Tagger.initialize with number_event_handlers = 3 makes of its event handler,
                                 dill / pickle round trip through __getstate__/__setstate__)
result per op: [bits] (or [bits, bits, bits] for bend_der), or ["EXC", exception class, message].
"""
from drvutil import read_payload, emit, f2b, b2f, assert_scratch

import jellyfysh.setting as setting
from jellyfysh.setting import hypercubic_setting
from jellyfysh.potential.inverse_power_potential import InversePowerPotential
from jellyfysh.potential.lennard_jones_potential import LennardJonesPotential
from jellyfysh.potential.displaced_even_power_potential import DisplacedEvenPowerPotential
from jellyfysh.potential.hard_sphere_potential import HardSpherePotential
from jellyfysh.potential.hard_dipole_potential import HardDipolePotential
from jellyfysh.potential.cell_bounding_potential import CellBoundingPotential
from jellyfysh.potential.bending_potential import BendingPotential

assert_scratch()

_cache = {}
_state = {"L": None, "dim": None}


def ensure_setting(L, dim=3):
    if _state["L"] == L and _state["dim"] == dim:
        return
    setting.reset()
    hypercubic_setting.HypercubicSetting(beta=1.0, dimension=dim, system_length=L)
    setting.set_number_of_root_nodes(2)
    setting.set_number_of_nodes_per_root_node(2)
    setting.set_number_of_node_levels(2)
    _state["L"] = L
    _state["dim"] = dim
    for key in [k for k in _cache if k[0] in ("ipc", "mic", "bend")]:
        del _cache[key]


def cached(key, make):
    if key not in _cache:
        _cache[key] = make()
    return _cache[key]


class StubEstimator:
    """Only the method CellBoundingPotential.displacement uses."""

    def charge_correction_factor(self, active, target=None):
        return active * target


def vel(op):
    v = [0.0] * len(op["sep"] if "sep" in op else op["sep1"])
    v[op["dir"]] = b2f(op["speed"])
    return v


def fl(op, name):
    return b2f(op[name])


def vec(op, name):
    return [b2f(b) for b in op[name]]


def run_op(op):
    k = op["k"]
    fam = k.split("_")[0]
    if fam == "ip":
        pw = fl(op, "p")
        if op.get("p_int"):
            pw = int(pw)
        pot = cached(("ip", op["p"], op["pref"], bool(op.get("p_int"))),
                     lambda: InversePowerPotential(power=pw, prefactor=fl(op, "pref")))
        if k == "ip_disp":
            return [f2b(pot.displacement(vel(op), vec(op, "sep"), fl(op, "c1"), fl(op, "c2"), fl(op, "dE")))]
        if k == "ip_der":
            return [f2b(pot.derivative(vel(op), vec(op, "sep"), fl(op, "c1"), fl(op, "c2")))]
        if k == "ip_pot":
            return [f2b(pot.potential(fl(op, "c1") * fl(op, "c2"), vec(op, "sep")))]
    if fam == "lj":
        pot = cached(("lj", op["k_"], op["sigma"]),
                     lambda: LennardJonesPotential(prefactor=fl(op, "k_"), characteristic_length=fl(op, "sigma")))
        if k == "lj_disp":
            return [f2b(pot.displacement(vel(op), vec(op, "sep"), fl(op, "dE")))]
        if k == "lj_der":
            return [f2b(pot.derivative(vel(op), vec(op, "sep")))]
        if k == "lj_pot":
            return [f2b(pot._potential(vec(op, "sep")))]
    if fam == "dep":
        pot = cached(("dep", op["k_"], op["r0"], op["p"]),
                     lambda: DisplacedEvenPowerPotential(equilibrium_separation=fl(op, "r0"), power=int(op["p"]),
                                                         prefactor=fl(op, "k_")))
        if k == "dep_disp":
            return [f2b(pot.displacement(vel(op), vec(op, "sep"), fl(op, "dE")))]
        if k == "dep_der":
            return [f2b(pot.derivative(vel(op), vec(op, "sep")))]
        if k == "dep_pot":
            return [f2b(pot._potential(vec(op, "sep")))]
    if k == "hs_disp":
        pot = cached(("hs", op["radius"]), lambda: HardSpherePotential(radius=fl(op, "radius")))
        return [f2b(pot.displacement(vec(op, "vel"), vec(op, "sep")))]
    if k == "hd_disp":
        pot = cached(("hd", op["mn"], op["mx"]),
                     lambda: HardDipolePotential(minimum_separation=fl(op, "mn"), maximum_separation=fl(op, "mx")))
        return [f2b(pot.displacement(vec(op, "vel"), vec(op, "sep")))]
    if fam == "cb":
        def make_cb():
            pot_ = CellBoundingPotential(estimator=StubEstimator())
            pot_._free_public_methods()   # what Initializer.initialize() does; the bound tables are set per op
            return pot_
        pot = cached(("cb",), make_cb)
        d = op["dir"]
        up = [None, None, None]
        lo = [None, None, None]
        up[d] = fl(op, "upper")
        lo[d] = fl(op, "lower")
        pot._derivative_bounds = ({7: up}, {7: lo})
        v = [0.0, 0.0, 0.0]
        v[d] = fl(op, "speed")
        disp = pot.displacement(v, 7, fl(op, "ac"), fl(op, "tc"), fl(op, "dE"))
        if k == "cb_disp":
            return [f2b(disp)]
        # the derivative reported is the rate stored by the preceding displacement call (as in the event handler)
        return [f2b(pot.derivative(v, 7, fl(op, "ac"), fl(op, "tc")))]
    if k == "bend_der":
        ensure_setting(_state["L"] or 1.0, len(op["sep1"]))
        pot = cached(("bend", op["k_"], op["phi0"]),
                     lambda: BendingPotential(equilibrium_angle=fl(op, "phi0"), prefactor=fl(op, "k_")))
        r = pot.derivative(vel(op), vec(op, "sep1"), vec(op, "sep2"))
        return [f2b(x) for x in r]
    if fam == "ipc":
        ensure_setting(fl(op, "L"), 3)
        from jellyfysh.potential.inverse_power_coulomb_bounding_potential import \
            inverse_power_coulomb_bounding_potential as m
        pot = cached(("ipc", op["pref"]), lambda: m.InversePowerCoulombBoundingPotential(prefactor=fl(op, "pref")))
        if k == "ipc_disp":
            return [f2b(pot.displacement(vel(op), vec(op, "sep"), fl(op, "c1"), fl(op, "c2"), fl(op, "dE")))]
        if k == "ipc_der":
            return [f2b(pot.derivative(vel(op), vec(op, "sep"), fl(op, "c1"), fl(op, "c2")))]
    if k == "mic_der":
        ensure_setting(fl(op, "L"), 3)
        from jellyfysh.potential.merged_image_coulomb_potential import merged_image_coulomb_potential as m
        pot = cached(("mic", op["alpha"], op["fc"], op["pc"], op["pref"]),
                     lambda: m.MergedImageCoulombPotential(alpha=fl(op, "alpha"), fourier_cutoff=int(op["fc"]),
                                                           position_cutoff=int(op["pc"]), prefactor=fl(op, "pref")))
        via = op.get("via", "orig")
        if via != "orig":
            pot = mic_variant(pot, via, ("mic", op["alpha"], op["fc"], op["pc"], op["pref"], via))
        return [f2b(pot.derivative(vel(op), vec(op, "sep"), fl(op, "c1"), fl(op, "c2")))]
    return ["EXC", "UnknownOp", k]


def mic_variant(pot, via, key):
    """another instance of the same potential, obtained the way the application obtains it"""
    if key in _cache:
        return _cache[key]
    import copy
    if via == "deepcopy":
        inst = copy.deepcopy(pot)
    elif via in ("tagger1", "tagger2"):
        tkey = key[:-1] + ("tagger",)
        if tkey not in _cache:
            from jellyfysh.activator.tagger.active_root_unit_in_state_tagger import ActiveRootUnitInStateTagger
            from jellyfysh.event_handler.two_leaf_unit_bounding_potential_event_handler import \
                TwoLeafUnitBoundingPotentialEventHandler
            from jellyfysh.potential.inverse_power_coulomb_bounding_potential import \
                inverse_power_coulomb_bounding_potential as ipc_m
            handler = TwoLeafUnitBoundingPotentialEventHandler(
                potential=pot, bounding_potential=ipc_m.InversePowerCoulombBoundingPotential(prefactor=1.5837),
                charge="electric_charge")
            tagger = ActiveRootUnitInStateTagger(create=[], trash=[], event_handler=handler, number_event_handlers=3,
                                                 tag="coulomb")
            tagger.initialize()
            hs = tagger.get_event_handlers()
            assert hs[0]._potential is pot and len(hs) == 3
            _cache[tkey] = hs
        inst = _cache[tkey][int(via[-1])]._potential
        assert inst is not pot
    elif via == "dill":
        import dill
        inst = dill.loads(dill.dumps(pot))
    elif via == "pickle":
        import pickle
        inst = pickle.loads(pickle.dumps(pot))
    else:
        raise KeyError(via)
    _cache[key] = inst
    return inst


ops = read_payload()["ops"]
out = []
for op in ops:
    try:
        out.append(run_op(op))
    except Exception as e:  # noqa
        out.append(["EXC", type(e).__name__, str(e)[:120]])
emit({"out": out})
