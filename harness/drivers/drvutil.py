"""Helpers shared by the implementation drivers (run under /venv/bin/python with PYTHONPATH=<scratch>)."""
import json
import struct
import sys


def f2b(x):
    return struct.unpack("<Q", struct.pack("<d", float(x)))[0]


def b2f(b):
    return struct.unpack("<d", struct.pack("<Q", int(b)))[0]


def read_payload():
    return json.loads(sys.stdin.read())


def emit(obj):
    sys.stdout.write("\n@@JSON@@" + json.dumps(obj) + "\n")
    sys.stdout.flush()


def exc_enum(e):
    n = type(e).__name__
    return n if n in ("SchedulerError", "TagActivatorError", "IndexError", "AssertionError", "ValueError",
                      "TypeError", "ZeroDivisionError", "OverflowError", "KeyError", "ConfigurationError",
                      "RuntimeError", "AttributeError") else "Other:" + n


def assert_scratch():
    """Fail closed if the implementation is not imported from the scratch copy."""
    import os
    import jellyfysh
    p = os.path.realpath(jellyfysh.__file__)
    if "/jfverif." not in p and not os.environ.get("VERIF_ALLOW_REPO_IMPORT"):
        raise RuntimeError("jellyfysh imported from %s, not from the scratch copy" % p)
