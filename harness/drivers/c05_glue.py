"""Driver C05 (handler glue): run the real table-building code of the event handlers on exact numbers.

  kind "fill":  TwoCompositeObjectBoundingPotentialEventHandler._fill_lifting (event_handler_with_bounding_potential.py)
                called as the summed-bounding-potential handler calls it (active derivative = sum_j pd[a][j] > 0,
                target list = [-pd[a][j]]), on a stub `self` holding a real lifting object, a stub potential returning
                the prescribed pairwise derivatives and units with tag positions; then get_active_identifier.
  kind "fixed": FixedSeparationsEventHandlerWithPiecewiseConstantBoundingPotential.send_out_state on a stub `self`
                (prescribed derivative vector and bounding event rate).
The lifting objects are instances of recording subclasses (insert logs its arguments and calls the real insert).
random.uniform(a, b) = a + (b - a) * u with u taken from a queue (confirmation draw, insert draw, ratio draw).
  kind "composite": the REAL send_out_state of real instances (real constructors, so _potential_charges is the handler's
                own lambda) of TwoCompositeObjectSummedBoundingPotentialEventHandler,
                TwoCompositeObjectCellBoundingPotentialEventHandler and CompositeObjectCellVetoEventHandler on two
                composite objects of n = 2..4 point masses (real Node / Unit trees, in-state stored through the handler's
                own _store_in_state / _construct_leaf_cnodes / _extract_active_leaf_unit /
                _construct_leaf_units_of_composite_objects), constructed with charge=None or charge="q" and
                prescribed charge vectors (exact zeros allowed in every position).  The stub potential returns
                base[i][j] * product(charges it is called with); _exchange_velocity is recorded, not executed.
All numbers are [num, den] pairs (exact wrapper X of c05_lifting.py).
"""
import random
from fractions import Fraction
from types import SimpleNamespace

from drvutil import read_payload, emit, exc_enum, assert_scratch
from c05_lifting import X, CLASSES
import jellyfysh.setting as setting
from jellyfysh.event_handler.abstracts.event_handler_with_bounding_potential import \
    TwoCompositeObjectBoundingPotentialEventHandler
from jellyfysh.event_handler.fixed_separations_event_handler_with_piecewise_constant_bounding_potential import \
    FixedSeparationsEventHandlerWithPiecewiseConstantBoundingPotential

assert_scratch()
QUEUE = []


def fake_uniform(a, b):
    u = QUEUE.pop(0)
    return a + (b - a) * u


random.uniform = fake_uniform


def dq(v):
    return X(Fraction(int(v[0]), int(v[1])))


def eq(v):
    f = X.c(v)
    return [f.numerator, f.denominator]


def recording(cls, log):
    class Rec(cls):
        def insert(self, lifting_rate, associated_identifier, is_active):
            log.append([eq(lifting_rate), list(associated_identifier), bool(is_active)])
            return super().insert(lifting_rate, associated_identifier, is_active)
    return Rec()


class SepStub(object):
    @staticmethod
    def separation_vector(a, b):
        return (a, b)


def run_fill(job):
    log = []
    lifting = recording(CLASSES[job["scheme"]], log)
    lc = job["local_comp"]
    tc = 1 - lc
    pd = [[dq(x) for x in row] for row in job["pd"]]
    local = [SimpleNamespace(identifier=(lc, i), position=("L", i)) for i in range(job["nl"])]
    target = [SimpleNamespace(identifier=(tc, j), position=("T", j)) for j in range(job["nt"])]
    active = local[job["active"]]
    active.velocity = (1.0, 0.0)

    def derivative(velocity, separation, *charges):
        (ka, i), (kb, j) = separation
        assert ka == "L" and kb == "T" and velocity is active.velocity and charges == ()
        return pd[i][j]
    stub = SimpleNamespace(_lifting=lifting, _potential=SimpleNamespace(derivative=derivative),
                           _active_leaf_unit=active, _potential_charges=lambda a, b: ())
    a = job["active"]
    event_rate = max(0.0, sum(pd[a][j] for j in range(job["nt"])))
    tgt = [0.0] * job["nt"]
    for j in range(job["nt"]):
        tgt[j] -= pd[a][j]
    QUEUE[:] = [dq(job["u1"]), dq(job["u2"])]
    old = setting.periodic_boundaries
    setting.periodic_boundaries = SepStub
    res = {}
    try:
        TwoCompositeObjectBoundingPotentialEventHandler._fill_lifting(stub, local, target, event_rate, tgt)
        res["r"] = list(lifting.get_active_identifier())
    except Exception as e:  # noqa
        res["r"] = ["EXC", exc_enum(e)]
    finally:
        setting.periodic_boundaries = old
    res["inserts"] = log
    return res


class FixedStub(SimpleNamespace):
    pass


def run_fixed(job):
    log = []
    lifting = recording(CLASSES[job["scheme"]], log)
    ders = [dq(x) for x in job["ders"]]
    n = len(ders)
    units = [SimpleNamespace(identifier=(i,), position=("P", i), velocity=None) for i in range(n)]
    a = job["active"]
    units[a].velocity = (0.0, 1.0)
    cnodes = [SimpleNamespace(value=u) for u in units]
    exchanged = []
    state = object()
    stub = FixedStub(
        _lifting=lifting, _leaf_units=units, _leaf_cnodes=cnodes, _active_leaf_unit=units[a], _active_leaf_unit_index=a,
        _state=state, _get_separations=lambda positions: [tuple(positions)],
        _event_rate_from_piecewise_constant_bounding_potential=lambda: dq(job["bounding"]),
        _potential=SimpleNamespace(derivative=lambda velocity, *args: ders), _get_charges=lambda: (),
        _exchange_velocity=lambda c1, c2: exchanged.append([cnodes.index(c1), cnodes.index(c2)]))
    QUEUE[:] = [dq(job["u_confirm"]), dq(job["u1"]), dq(job["u2"])]
    res = {}
    try:
        out = FixedSeparationsEventHandlerWithPiecewiseConstantBoundingPotential.send_out_state(stub)
        res["r"] = "state" if out is state else "other"
    except Exception as e:  # noqa
        res["r"] = ["EXC", exc_enum(e)]
    res["inserts"] = log
    res["exchanged"] = exchanged
    return res


def run_composite(job):
    from jellyfysh.setting import hypercubic_setting
    from jellyfysh.base.node import Node
    from jellyfysh.base.unit import Unit
    from jellyfysh.base.time import Time
    from jellyfysh.base.initializer import Initializer
    from jellyfysh.potential.cell_bounding_potential import CellBoundingPotential
    from jellyfysh.event_handler.two_composite_object_summed_bounding_potential_event_handler import \
        TwoCompositeObjectSummedBoundingPotentialEventHandler
    from jellyfysh.event_handler.two_composite_object_cell_bounding_potential_event_handler import \
        TwoCompositeObjectCellBoundingPotentialEventHandler
    from jellyfysh.event_handler.composite_object_cell_veto_event_handler import CompositeObjectCellVetoEventHandler
    n, ac, a = job["n"], job["active_comp"], job["active"]
    base = [[dq(x) for x in row] for row in job["base"]]
    charges = [[dq(x) for x in comp] for comp in job["charges"]]
    log, exchanged, notes = [], [], []
    lifting = recording(CLASSES[job["scheme"]], log)
    setting.reset()
    hypercubic_setting.HypercubicSetting(beta=1.0, dimension=2, system_length=1.0)
    setting.set_number_of_root_nodes(2)
    setting.set_number_of_nodes_per_root_node(n)
    setting.set_number_of_node_levels(2)

    class Sep(object):
        @staticmethod
        def separation_vector(p, q):
            return (tuple(p), tuple(q))
    setting.periodic_boundaries = Sep
    active_velocity = [1.0, 0.0]

    class Pot(object):
        number_separation_arguments = 1
        number_charge_arguments = 2
        potential_change_required = True

        def derivative(self, velocity, separation, *chs):
            (ca, i), (cb, j) = separation
            if int(ca) != ac or int(cb) == ac or velocity is not active_velocity:
                notes.append("derivative called with separation %r" % (separation,))
            v = base[int(i)][int(j)]
            for c in chs:
                v = v * c
            return v

    class BigCell(CellBoundingPotential):
        number_separation_arguments = 1
        number_charge_arguments = 2
        potential_change_required = True

        def __init__(self):
            pass

        def derivative(self, *args):
            return X(10 ** 9)

    class Big(Pot):
        def derivative(self, *args):
            return X(10 ** 9)
    roots = []
    for c in range(2):
        moving = c == ac
        root = Node(Unit(identifier=(c,), position=[float(c), -1.0], charge=None,
                         velocity=[1.0 / n, 0.0] if moving else None, time_stamp=Time(0.0, 0.0) if moving else None),
                    weight=1)
        for i in range(n):
            act = moving and i == a
            root.add_child(Node(Unit(identifier=(c, i), position=[float(c), float(i)], charge={"q": charges[c][i]},
                                     velocity=active_velocity if act else None,
                                     time_stamp=Time(0.0, 0.0) if act else None), weight=1.0 / n))
        roots.append(root)
    res = {}
    try:
        kind = job["handler"]
        if kind == "summed":
            h = TwoCompositeObjectSummedBoundingPotentialEventHandler(
                potential=Pot(), bounding_potential=Big(), lifting=lifting, charge=job["charge"])
        elif kind == "cellbounding":
            h = TwoCompositeObjectCellBoundingPotentialEventHandler(
                potential=Pot(), bounding_potential=BigCell(), lifting=lifting, charge=job["charge"])
            Initializer.initialize(h)
        else:
            h = CompositeObjectCellVetoEventHandler(estimator=SimpleNamespace(potential=Pot()), lifting=lifting,
                                                    potential=Pot(), charge=job["charge"])
            Initializer.initialize(h)
        h._exchange_velocity = lambda c1, c2: exchanged.append([list(c1.value.identifier), list(c2.value.identifier)])
        QUEUE[:] = [dq(job["u_confirm"]), dq(job["u1"]), dq(job["u2"])]
        if kind == "cellveto":
            state = [roots[ac]]
            h._store_in_state(state)
            h._construct_leaf_cnodes()
            h._extract_active_leaf_unit()
            h._bounding_event_rate = X(10 ** 9)
            out = h.send_out_state(roots[1 - ac])
        else:
            state = list(roots)
            h._store_in_state(state)
            h._construct_leaf_cnodes()
            h._extract_active_leaf_unit()
            h._construct_leaf_units_of_composite_objects()
            if kind == "cellbounding":
                h._cells = SimpleNamespace(position_to_cell=lambda position: 7)
                h._active_cell = 7
                h._root_units = [r.value for r in roots]
                h._active_root_unit_index = ac
                h._relative_cell = 3
            out = h.send_out_state()
        res["r"] = "state" if out is state else "other"
        res["state_ids"] = [list(nd.value.identifier) for nd in out] if isinstance(out, list) else None
    except Exception as e:  # noqa
        res["r"] = ["EXC", exc_enum(e)]
    finally:
        setting.reset()
    res["inserts"] = log
    res["exchanged"] = exchanged
    res["notes"] = notes[:3]
    res["draws_left"] = len(QUEUE)
    return res


RUNNERS = {"fill": run_fill, "fixed": run_fixed, "composite": run_composite}

if __name__ == "__main__":
    jobs = read_payload()["jobs"]
    emit({"out": [RUNNERS[j["kind"]](j) for j in jobs]})
