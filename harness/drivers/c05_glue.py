"""Driver C05 (handler glue): run the real table-building code of the event handlers on exact numbers.

  kind "fill":  TwoCompositeObjectBoundingPotentialEventHandler._fill_lifting (event_handler_with_bounding_potential.py)
                called as the summed-bounding-potential handler calls it (active derivative = sum_j pd[a][j] > 0,
                target list = [-pd[a][j]]), on a stub `self` holding a real lifting object, a stub potential returning
                the prescribed pairwise derivatives and units with tag positions; then get_active_identifier.
  kind "fixed": FixedSeparationsEventHandlerWithPiecewiseConstantBoundingPotential.send_out_state on a stub `self`
                (prescribed derivative vector and bounding event rate).
The lifting objects are instances of recording subclasses (insert logs its arguments and calls the real insert).
random.uniform(a, b) = a + (b - a) * u with u taken from a queue (confirmation draw, insert draw, ratio draw).
All numbers are [num, den] pairs (exact wrapper X of c05_lifting.py).
"""
import random
from fractions import Fraction
from types import SimpleNamespace

from drvutil import read_payload, emit, exc_enum, assert_scratch
from c05_lifting import X, CLASSES
import jellyfysh.setting as setting
from jellyfysh.event_handler.abstracts.event_handler_with_bounding_potential import \
    TwoCompositeObjectBoundingPotentialEventHandler
from jellyfysh.event_handler.fixed_separations_event_handler_with_piecewise_constant_bounding_potential import \
    FixedSeparationsEventHandlerWithPiecewiseConstantBoundingPotential

assert_scratch()
QUEUE = []


def fake_uniform(a, b):
    u = QUEUE.pop(0)
    return a + (b - a) * u


random.uniform = fake_uniform


def dq(v):
    return X(Fraction(int(v[0]), int(v[1])))


def eq(v):
    f = X.c(v)
    return [f.numerator, f.denominator]


def recording(cls, log):
    class Rec(cls):
        def insert(self, lifting_rate, associated_identifier, is_active):
            log.append([eq(lifting_rate), list(associated_identifier), bool(is_active)])
            return super().insert(lifting_rate, associated_identifier, is_active)
    return Rec()


class SepStub(object):
    @staticmethod
    def separation_vector(a, b):
        return (a, b)


def run_fill(job):
    log = []
    lifting = recording(CLASSES[job["scheme"]], log)
    lc = job["local_comp"]
    tc = 1 - lc
    pd = [[dq(x) for x in row] for row in job["pd"]]
    local = [SimpleNamespace(identifier=(lc, i), position=("L", i)) for i in range(job["nl"])]
    target = [SimpleNamespace(identifier=(tc, j), position=("T", j)) for j in range(job["nt"])]
    active = local[job["active"]]
    active.velocity = (1.0, 0.0)

    def derivative(velocity, separation, *charges):
        (ka, i), (kb, j) = separation
        assert ka == "L" and kb == "T" and velocity is active.velocity and charges == ()
        return pd[i][j]
    stub = SimpleNamespace(_lifting=lifting, _potential=SimpleNamespace(derivative=derivative),
                           _active_leaf_unit=active, _potential_charges=lambda a, b: ())
    a = job["active"]
    event_rate = max(0.0, sum(pd[a][j] for j in range(job["nt"])))
    tgt = [0.0] * job["nt"]
    for j in range(job["nt"]):
        tgt[j] -= pd[a][j]
    QUEUE[:] = [dq(job["u1"]), dq(job["u2"])]
    old = setting.periodic_boundaries
    setting.periodic_boundaries = SepStub
    res = {}
    try:
        TwoCompositeObjectBoundingPotentialEventHandler._fill_lifting(stub, local, target, event_rate, tgt)
        res["r"] = list(lifting.get_active_identifier())
    except Exception as e:  # noqa
        res["r"] = ["EXC", exc_enum(e)]
    finally:
        setting.periodic_boundaries = old
    res["inserts"] = log
    return res


class FixedStub(SimpleNamespace):
    pass


def run_fixed(job):
    log = []
    lifting = recording(CLASSES[job["scheme"]], log)
    ders = [dq(x) for x in job["ders"]]
    n = len(ders)
    units = [SimpleNamespace(identifier=(i,), position=("P", i), velocity=None) for i in range(n)]
    a = job["active"]
    units[a].velocity = (0.0, 1.0)
    cnodes = [SimpleNamespace(value=u) for u in units]
    exchanged = []
    state = object()
    stub = FixedStub(
        _lifting=lifting, _leaf_units=units, _leaf_cnodes=cnodes, _active_leaf_unit=units[a], _active_leaf_unit_index=a,
        _state=state, _get_separations=lambda positions: [tuple(positions)],
        _event_rate_from_piecewise_constant_bounding_potential=lambda: dq(job["bounding"]),
        _potential=SimpleNamespace(derivative=lambda velocity, *args: ders), _get_charges=lambda: (),
        _exchange_velocity=lambda c1, c2: exchanged.append([cnodes.index(c1), cnodes.index(c2)]))
    QUEUE[:] = [dq(job["u_confirm"]), dq(job["u1"]), dq(job["u2"])]
    res = {}
    try:
        out = FixedSeparationsEventHandlerWithPiecewiseConstantBoundingPotential.send_out_state(stub)
        res["r"] = "state" if out is state else "other"
    except Exception as e:  # noqa
        res["r"] = ["EXC", exc_enum(e)]
    res["inserts"] = log
    res["exchanged"] = exchanged
    return res


if __name__ == "__main__":
    jobs = read_payload()["jobs"]
    emit({"out": [run_fill(j) if j["kind"] == "fill" else run_fixed(j) for j in jobs]})
