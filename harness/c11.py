"""C11 — The cell-occupancy bookkeeping always mirrors the true particle positions (DESIGN.md section 5, C11).

Run-time part: traced real runs (jellyfysh.run.main with the tracer attached) of every shipped configuration with a
cell system and of generated variations are
 * checked by the model-independent oracle tracecheck.check_occupancy (every relevant non-active unit recorded once, in
   the cell of its position; active unit in neither list, stored with the cell of its position; occupant limit; cell
   changes of the active unit only at cell-boundary events and into the neighbouring cell), and
 * replayed inside Coq through Model/Occupancy.v by Model/OccupancyRun.v (check_ocase): cells are recomputed from the
   recorded position bits with the binary64 model of CuboidCells._cell_index (Model/Cells.v), the model state must equal
   the recorded internals after initialize and after every update, and the hypotheses of update_inv must hold at
   every leg.  Props/C11.v (run_occ_inv) turns acceptance into occ_inv at every leg of a run of any length.
"""
import common as C
import hist
import tracecheck as TC

HEADER = ("Require Import JF.Base.F64 JF.Model.Occupancy JF.Model.OccupancyRun.\n"
          "From Coq Require Import ZArith.\nOpen Scope Z_scope.")

TRUSTED = [
    "hand-written models coq/Model/Occupancy.v (SingleActiveCellOccupancy.initialize / update), coq/Model/Cells.v "
    "(CuboidCells._cell_index on binary64; its own correspondence is C16), coq/Model/OccupancyRun.v (the replay)",
    "monkeypatching tracer harness/drivers/tracer.py: records the occupancy internals (_occupants, _surplus, "
    "_active_cell, _active_unit_identifier, the units passing _is_relevant_unit) at the start of every leg, the extracted "
    "active global state handed to the activator, and every commit (delta of the global state)",
    "harness/c11.py: reconstruction of the global state from init_state + deltas, selection of the cell-level units, "
    "classification of the previous event as cell-boundary by the handler's base class",
]
ASSUME = [
    "tie to the code: check_ocase is evaluated inside Coq on traced real runs (the first %d legs per run in the quick "
    "tier); acceptance requires the model state to equal the recorded internals at every leg (same keys, the occupant and "
    "surplus list of every cell as multisets, active cell and active identifier exactly)",
    "run_occ_inv is about the recorded positions: that inactive units do not move between commits and that a "
    "cell-boundary event places the unit on the neighbour's boundary value are facts of the recorded run checked at "
    "every leg (hyps_ok / crossing_ok), not consequences of a model of the event handlers (kinematics: C07)",
    "the first activator call of a run (start of run) does not call internal_state.update; the recorded internals of "
    "that leg are those after initialize",
]


def lz(t):
    return "[" + "; ".join(C.coq_z(x) for x in t) + "]"


def llz(ts):
    return "[" + "; ".join(lz(t) for t in ts) + "]"


def opt_lz(x):
    return "None" if x is None else "(Some %s)" % lz(x)


def cell_key(k):
    return [int(x) for x in k.split(",")]


def snap_term(occ):
    return "(mkOSnap %s %s %s %s)" % (
        "[" + "; ".join("(%s, %s)" % (lz(cell_key(k)), llz(v)) for k, v in occ["occupants"].items()) + "]",
        "[" + "; ".join("(%s, %s)" % (lz(cell_key(k)), llz(v)) for k, v in occ["surplus"].items()) + "]",
        opt_lz(occ["active_cell"]), opt_lz(occ["active_id"]))


def relevant_ids(tr, si):
    """The relevant cell-level units of occupancy si, determined independently of the implementation's filter where
    the tracer could read the filter charge (units whose configured charge is non-zero); None if unknown."""
    ist = tr["meta"]["internal_states"][si]
    if not ist.get("charge_known"):
        return None
    cname = ist.get("charge_name")
    level = ist["cell_level"]
    return [u["id"] for u in tr["init_state"] if len(u["id"]) == level and
            (cname is None or ((u.get("charge") or {}).get(cname, 0) & 0x7FFFFFFFFFFFFFFF) != 0)]


def encode_ocase_n(tr, max_legs, si):
    """Model/OccupancyRun.v ocase of internal state number si of one trace, and the indices of the legs it contains
    (None if there is no such occupancy)."""
    meta = tr["meta"]
    if si >= len(meta["internal_states"]) or "SingleActiveCellOccupancy" not in (meta["internal_states"][si].get("class") or ""):
        return None
    legs = tr["legs"]
    if not legs or not legs[0].get("occ") or legs[0]["occ"][si] is None:
        return None
    ist = meta["internal_states"][si]
    level = ist["cell_level"]
    st = TC.State(tr)
    occ0 = legs[0]["occ"][si]
    indep = relevant_ids(tr, si)
    rel0 = [tuple(i) for i in (indep if indep is not None else occ0["relevant"])]
    cell_units = [u for u in tr["init_state"] if len(u["id"]) == level]
    init = "[" + "; ".join("(%s, %s, %s)" % (lz(u["id"]), lz(u["pos"]), C.coq_bool(tuple(u["id"]) in rel0))
                           for u in cell_units) + "]"
    terms = []
    used = []
    for n, leg in enumerate(legs[:max_legs]):
        if n == 0:
            st.apply(leg.get("delta"))
            continue
        if not leg.get("occ") or leg["occ"][si] is None:
            break
        occ = leg["occ"][si]
        act = [u for u in leg["active"] if len(u["id"]) == level]
        if len(act) != 1:
            # the real update() asserts exactly one active unit on the cell level; an accepted case needs one
            act = [{"id": [], "pos": []}]
        a = act[0]
        prev = legs[n - 1]
        pb = prev.get("pick") is not None and TC.handler_kind(meta, prev["pick"]) == "cell_boundary"
        rel = indep if indep is not None else occ["relevant"]
        units = "[" + "; ".join("(%s, %s)" % (lz(i), lz(st.units[tuple(i)]["pos"])) for i in rel) + "]"
        terms.append("(mkOLeg %s %s %s %s %s %s)" % (
            C.coq_bool(pb), lz(a["id"]), lz(a["pos"]), C.coq_bool(list(a["id"]) in rel), units,
            snap_term(occ)))
        used.append(n)
        if leg.get("delta") is None:
            break
        st.apply(leg["delta"])
    max_occ = 0 if ist["occupants_not_bounded"] else ist["max_occupants"]
    return "mkOCase %s %s %s %s %s %s" % (
        lz(meta["system_lengths"]), lz(ist["cells_per_side"]), C.coq_z(max_occ), init, snap_term(occ0),
        "[" + ";\n ".join(terms) + "]"), used


def encode_ocase(tr, max_legs, si):
    r = encode_ocase_n(tr, max_legs, si)
    return None if r is None else r[0]


def encoders():
    return [("c11_occ%d" % si, HEADER, "check_ocase", "ocase", (lambda si: lambda tr, n: encode_ocase(tr, n, si))(si))
            for si in range(3)]


def has_cells(ctx, c):
    import os
    return "single_active_cell_occupancy" in open(os.path.join(ctx.scratch, "jellyfysh", c)).read()


def jobs(ctx):
    cfgs = [c for c in hist.shipped_configs(ctx) if has_cells(ctx, c)]
    signed = [(c, {"OxygenIndicator": {"charge_values": "0, -1, 0"}}) for c in cfgs
              if c.endswith("water/coulomb_cell_veto_lj_cell_veto.ini")
              or c.endswith("water/coulomb_power_bounded_lj_cell_bounded.ini")]
    # harness-generated soft-sphere configurations with a cell system (non-cubic boxes, unequal cell counts)
    gen = []
    for _ in range(ctx.n(60, 600)):
        g = hist.generated_ini(ctx.rng)
        if "single_active_cell_occupancy" in g[1]:
            gen.append(g)
        if len(gen) >= ctx.n(8, 60):
            break
    return [(c, {}) for c in cfgs] + hist.crowded_jobs(cfgs) + signed + hist.variations(ctx, cfgs, ctx.n(10, 100)) + gen


def payloads(ctx):
    """The C11 oracle and replay need only the occupancy internals, the active state, the picks and the deltas:
    fresh in-state generation and in-state recording of the tracer are switched off (smaller, faster traces)."""
    seeds = (ctx.seed, ctx.seed + 1000) if ctx.tier == "thorough" else (ctx.seed,)
    max_legs = ctx.n(250, 800)
    return [dict({"config": c, "seed": s, "max_legs": max_legs, "record_fresh": False, "record_instates": False},
                 **({"ini_text": ov, "overrides": {}} if isinstance(ov, str) else {"overrides": ov}))
            for (c, ov) in jobs(ctx) for s in seeds]


TIE_JOB = ("config_files/2018_JCP_149_064113/coulomb_atoms/cell_bounded.ini",
           {"CuboidPeriodicCells": {"cells_per_side": "4"},
            "SingleIndependentActivePeriodicDirectionEndOfChainEventHandler": {"chain_time": "0.11563575588759878"}})


def tie_probe(ctx):
    """Finding F12: an end-of-chain event whose time equals the time of the active unit's cell-boundary event bit for
    bit (chain time = 0.25 - x of the initially active atom for random.seed(1)) is committed first and leaves the old
    active unit recorded in the cell it has just left.  Only this input is excused; the probe prints nothing if the run
    is clean."""
    tr = hist.run_traces(ctx, [TIE_JOB], 400, seeds=(1,))[0]
    err = tr.get("error")
    fails = [] if err else TC.check_all(tr, ("C11",))[0]["C11"]
    if err or fails:
        what = ("run raised %s in SingleActiveCellOccupancy.update" % err["exc"]) if err else fails[0]["msg"]
        if err and "single_active_cell_occupancy" not in (err.get("tb") or ""):
            C.violation(ctx, "tie-probe", {"kind": "trace", "payload": hist.payload_of(tr, 400), "message": what},
                        "C11 exact-tie job fails outside the occupancy update: " + what)
            return
        C.known(ctx, "F12", "exact tie of the end-of-chain event with the cell-boundary event of the active unit "
                "(cell_bounded.ini, 4 cells per side, seed 1, chain_time 0.11563575588759878): %s after %d legs"
                % (what[:160], len(tr["legs"])))
    ctx.notes.append("exact-tie probe (F12): %s" % ("reproduced" if (err or fails) else "clean"))


def run(ctx, replay_jobs=None):
    C.build_scratch(ctx, exts=("heap", "mic", "ipc"))
    if replay_jobs is None:
        tie_probe(ctx)
    nlegs = ctx.n(150, 400)
    hist.run_history_check(
        ctx, "C11", ("C11",), encoders(), TRUSTED, [a % nlegs if "%d" in a else a for a in ASSUME],
        "Props/C11.v re-checked (init_inv, update_inv, run_occ_inv, ...); traced runs of all shipped and generated "
        "cell configurations replayed in Coq (check_ocase: model state == recorded internals at every leg, hypotheses "
        "of update_inv, cell changes of the active unit only at cell-boundary events into the neighbouring cell); "
        "oracle: tracecheck.check_occupancy recomputes position_to_cell for every unit against the recorded lists",
        replay_jobs=replay_jobs if replay_jobs is not None else payloads(ctx), coq_legs=nlegs, prebuilt=True)


def replay(ctx, path):
    run(ctx, replay_jobs=hist.replay_payloads(path))
