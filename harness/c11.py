"""C11 — The cell-occupancy bookkeeping always mirrors the true particle positions (DESIGN.md section 5, C11).

Run-time part: traced real runs (jellyfysh.run.main with the tracer attached) of every shipped configuration with a
cell system and of generated variations are
 * checked by the model-independent oracle tracecheck.check_occupancy (every relevant non-active unit recorded once, in
   the cell of its position; active unit in neither list, stored with the cell of its position; occupant limit; cell
   changes of the active unit only at cell-boundary events and into the neighbouring cell), and
 * replayed inside Coq through Model/Occupancy.v by Model/OccupancyRun.v (check_ocase): cells are recomputed from the
   recorded position bits with the binary64 model of CuboidCells._cell_index (Model/Cells.v), the model state must equal
   the recorded internals after initialize and after every update, and the hypotheses of update_inv must hold at
   every leg.  Props/C11.v (run_occ_inv) turns acceptance into occ_inv at every leg of a run of any length.
"""
import common as C
import hist
import tracecheck as TC

HEADER = ("Require Import JF.Base.F64 JF.Model.Occupancy JF.Model.OccupancyRun.\n"
          "From Coq Require Import ZArith.\nOpen Scope Z_scope.")

TRUSTED = [
    "hand-written models coq/Model/Occupancy.v (SingleActiveCellOccupancy.initialize / update), coq/Model/Cells.v "
    "(CuboidCells._cell_index on binary64; its own correspondence is C16), coq/Model/OccupancyRun.v (the replay)",
    "monkeypatching tracer harness/drivers/tracer.py: records the occupancy internals (_occupants, _surplus, "
    "_active_cell, _active_unit_identifier, the units passing _is_relevant_unit) at the start of every leg, the extracted "
    "active global state handed to the activator, and every commit (delta of the global state)",
    "harness/c11.py: reconstruction of the global state from init_state + deltas, selection of the cell-level units, "
    "classification of the previous event as cell-boundary by the handler's base class",
]
ASSUME = [
    "tie to the code: check_ocase is evaluated inside Coq on traced real runs (the first %d legs per run in the quick "
    "tier); acceptance requires the model state to equal the recorded internals at every leg (same keys, the occupant and "
    "surplus list of every cell as multisets, active cell and active identifier exactly)",
    "run_occ_inv is about the recorded positions: that inactive units do not move between commits and that a "
    "cell-boundary event places the unit on the neighbour's boundary value are facts of the recorded run checked at "
    "every leg (hyps_ok / crossing_ok), not consequences of a model of the event handlers (kinematics: C07)",
    "the first activator call of a run (start of run) does not call internal_state.update; the recorded internals of "
    "that leg are those after initialize",
]


def lz(t):
    return "[" + "; ".join(C.coq_z(x) for x in t) + "]"


def llz(ts):
    return "[" + "; ".join(lz(t) for t in ts) + "]"


def opt_lz(x):
    return "None" if x is None else "(Some %s)" % lz(x)


def cell_key(k):
    return [int(x) for x in k.split(",")]


def snap_term(occ):
    return "(mkOSnap %s %s %s %s)" % (
        "[" + "; ".join("(%s, %s)" % (lz(cell_key(k)), llz(v)) for k, v in occ["occupants"].items()) + "]",
        "[" + "; ".join("(%s, %s)" % (lz(cell_key(k)), llz(v)) for k, v in occ["surplus"].items()) + "]",
        opt_lz(occ["active_cell"]), opt_lz(occ["active_id"]))


def relevant_ids(tr, si):
    """The relevant cell-level units of occupancy si, determined independently of the implementation's filter where
    the tracer could read the filter charge (units whose configured charge is non-zero); None if unknown."""
    ist = tr["meta"]["internal_states"][si]
    if not ist.get("charge_known"):
        return None
    cname = ist.get("charge_name")
    level = ist["cell_level"]
    return [u["id"] for u in tr["init_state"] if len(u["id"]) == level and
            (cname is None or ((u.get("charge") or {}).get(cname, 0) & 0x7FFFFFFFFFFFFFFF) != 0)]


def encode_ocase_n(tr, max_legs, si):
    """Model/OccupancyRun.v ocase of internal state number si of one trace, and the indices of the legs it contains
    (None if there is no such occupancy)."""
    meta = tr["meta"]
    if si >= len(meta["internal_states"]) or "SingleActiveCellOccupancy" not in (meta["internal_states"][si].get("class") or ""):
        return None
    legs = tr["legs"]
    if not legs or not legs[0].get("occ") or legs[0]["occ"][si] is None:
        return None
    ist = meta["internal_states"][si]
    level = ist["cell_level"]
    st = TC.State(tr)
    occ0 = legs[0]["occ"][si]
    indep = relevant_ids(tr, si)
    rel0 = [tuple(i) for i in (indep if indep is not None else occ0["relevant"])]
    cell_units = [u for u in tr["init_state"] if len(u["id"]) == level]
    init = "[" + "; ".join("(%s, %s, %s)" % (lz(u["id"]), lz(u["pos"]), C.coq_bool(tuple(u["id"]) in rel0))
                           for u in cell_units) + "]"
    terms = []
    used = []
    for n, leg in enumerate(legs[:max_legs]):
        if n == 0:
            st.apply(leg.get("delta"))
            continue
        if not leg.get("occ") or leg["occ"][si] is None:
            break
        occ = leg["occ"][si]
        act = [u for u in leg["active"] if len(u["id"]) == level]
        if len(act) != 1:
            # the real update() asserts exactly one active unit on the cell level; an accepted case needs one
            act = [{"id": [], "pos": []}]
        a = act[0]
        prev = legs[n - 1]
        pb = prev.get("pick") is not None and TC.handler_kind(meta, prev["pick"]) == "cell_boundary"
        rel = indep if indep is not None else occ["relevant"]
        units = "[" + "; ".join("(%s, %s)" % (lz(i), lz(st.units[tuple(i)]["pos"])) for i in rel) + "]"
        terms.append("(mkOLeg %s %s %s %s %s %s)" % (
            C.coq_bool(pb), lz(a["id"]), lz(a["pos"]), C.coq_bool(list(a["id"]) in rel), units,
            snap_term(occ)))
        used.append(n)
        if leg.get("delta") is None:
            break
        st.apply(leg["delta"])
    max_occ = 0 if ist["occupants_not_bounded"] else ist["max_occupants"]
    return "mkOCase %s %s %s %s %s %s" % (
        lz(meta["system_lengths"]), lz(ist["cells_per_side"]), C.coq_z(max_occ), init, snap_term(occ0),
        "[" + ";\n ".join(terms) + "]"), used


def encode_ocase(tr, max_legs, si):
    r = encode_ocase_n(tr, max_legs, si)
    return None if r is None else r[0]


def encoders():
    return [("c11_occ%d" % si, HEADER, "check_ocase", "ocase", (lambda si: lambda tr, n: encode_ocase(tr, n, si))(si))
            for si in range(3)]


def has_cells(ctx, c):
    import os
    return "single_active_cell_occupancy" in open(os.path.join(ctx.scratch, "jellyfysh", c)).read()


def jobs(ctx):
    cfgs = [c for c in hist.shipped_configs(ctx) if has_cells(ctx, c)]
    signed = [(c, {"OxygenIndicator": {"charge_values": "0, -1, 0"}}) for c in cfgs
              if c.endswith("water/coulomb_cell_veto_lj_cell_veto.ini")
              or c.endswith("water/coulomb_power_bounded_lj_cell_bounded.ini")]
    # harness-generated soft-sphere configurations with a cell system (non-cubic boxes, unequal cell counts)
    gen = []
    for _ in range(ctx.n(60, 600)):
        g = hist.generated_ini(ctx.rng)
        if "single_active_cell_occupancy" in g[1]:
            gen.append(g)
        if len(gen) >= ctx.n(8, 60):
            break
    return [(c, {}) for c in cfgs] + hist.crowded_jobs(cfgs) + signed + hist.variations(ctx, cfgs, ctx.n(10, 100)) + gen


def payloads(ctx):
    """The C11 oracle and replay need only the occupancy internals, the active state, the picks and the deltas:
    fresh in-state generation and in-state recording of the tracer are switched off (smaller, faster traces)."""
    seeds = (ctx.seed, ctx.seed + 1000) if ctx.tier == "thorough" else (ctx.seed,)
    max_legs = ctx.n(250, 800)
    return [dict({"config": c, "seed": s, "max_legs": max_legs, "record_fresh": False, "record_instates": False},
                 **({"ini_text": ov, "overrides": {}} if isinstance(ov, str) else {"overrides": ov}))
            for (c, ov) in jobs(ctx) for s in seeds]


# ------------------------------------------------------------------------------------------------------------------
# handler level: CellBoundaryEventHandler against Model/CellBoundary.v (bit for bit) and a direct oracle
def cb_cases(ctx, n):
    import c07
    f2b, b2f = c07._f2b, c07._b2f
    rng = ctx.rng
    cases = []
    for _ in range(n):
        dim = rng.choice([2, 3, 3])
        cubic = rng.random() < 0.4
        Ls = [rng.choice([1.0, 2.5, 7.3, 0.8])] * dim if cubic else [rng.choice([1.0, 1.5, 2.5, 0.8, 7.3, 3.0]) for _ in range(dim)]
        ns = [rng.choice([3, 4, 5, 6, 7]) for _ in range(dim)]
        speed = rng.choice([1.0, 1.0, -1.0, 2.0, -0.37, rng.uniform(0.1, 3.0)])
        if rng.random() < 0.75:
            vel = [0.0] * dim
            vel[rng.randrange(dim)] = speed
        else:
            vel = [rng.choice([0.0, rng.uniform(-2, 2)]) for _ in range(dim)]
            if all(x == 0.0 for x in vel):
                vel[0] = speed
        q = float(rng.choice([0, 3, 1000, 2 ** 35]))
        ts = [f2b(q), f2b(rng.choice([0.0, rng.random(), rng.random()]))]

        def coord(d):
            u = rng.random()
            if u < 0.15:
                return rng.randrange(ns[d]) * (Ls[d] / ns[d])          # on (or next to) a cell boundary
            if u < 0.2:
                return 0.0
            if u < 0.25:
                return Ls[d] * (1 - 2.0 ** -53)
            return rng.uniform(0, Ls[d])

        def unit(ident, v, t, w=1.0, pos=None):
            return {"id": ident, "pos": [f2b(coord(d)) for d in range(dim)] if pos is None else pos,
                    "vel": None if v is None else [f2b(x) for x in v], "ts": t, "w": f2b(w), "children": []}

        kind = rng.choice(["single", "root", "leaf"])
        if kind == "single":
            br, levels, cl, rel = unit([2], vel, ts), 1, 1, 0
        elif kind == "root":
            br = unit([2], vel, ts)
            br["children"] = [unit([2, a], vel, ts, 0.5) for a in range(2)]
            levels, cl, rel = 2, 1, 0
        else:
            br = unit([2], [x * 0.5 for x in vel], ts)
            br["children"] = [unit([2, 1], vel, ts, 0.5)]
            levels, cl, rel = 2, 2, 1
        malformed = None
        if rng.random() < 0.03:
            tgt = br if rel == 0 else br["children"][0]
            tgt["vel"] = [f2b(0.0)] * dim
            malformed = "no motion"
        cases.append({"L": [f2b(x) for x in Ls], "cubic_class": cubic and rng.random() < 0.7, "ns": ns, "levels": levels,
                      "cell_level": cl, "rel": rel, "branch": br, "fresh": rng.random() < 0.2,
                      "kind": kind + ("/cubic" if cubic else "/cuboid"), "malformed": malformed})
    return cases


def cb_oracle(c, o):
    """C11 in its own terms: the event is the EARLIEST crossing of a cell wall along the velocity, and afterwards the
    unit lies in the neighbouring cell in that direction"""
    import c07
    from fractions import Fraction as Fr
    fr = lambda b: Fr(c07._b2f(b))
    if o.get("T") is None or o.get("out") is None:
        return None
    flat = c07._flat_eb(c["branch"], None, [])
    u = flat[c["rel"]][0]
    best = None
    for d, vb in enumerate(u["vel"]):
        v = fr(vb)
        if v == 0:
            continue
        L = fr(c["L"][d])
        dist = (fr(o["bmins"][d]) - fr(u["pos"][d])) % L if v > 0 else (fr(u["pos"][d]) - fr(o["bmaxs"][d])) % L
        t = dist / abs(v)
        if best is None or t < best[0]:
            best = (t, d, v > 0)
    dt = fr(o["T"][0]) + fr(o["T"][1]) - fr(u["ts"][0]) - fr(u["ts"][1])
    if dt < 0:
        return "cell-boundary event before the time stamp of the unit"
    if abs(dt - best[0]) > (1 + best[0] + abs(fr(u["ts"][0]))) / 2 ** 44:
        return "cell-boundary event after %.17g, the earliest wall is reached after %.17g" % (float(dt), float(best[0]))
    d = o["dir"]
    # two walls reached within rounding of each other (a unit sitting on a cell corner and moving diagonally): the
    # time slice carries the unit through the second wall as well and it ends in the diagonally neighbouring cell - the
    # handler-level analogue of exactly simultaneous events (F12 family), which no history with the shipped
    # axis-parallel motion reaches; the neighbouring-cell clause is stated for a unique earliest wall only
    for d2, vb in enumerate(u["vel"]):
        v2 = fr(vb)
        if d2 == d or v2 == 0:
            continue
        L2 = fr(c["L"][d2])
        dist2 = (fr(o["bmins"][d2]) - fr(u["pos"][d2])) % L2 if v2 > 0 else (fr(u["pos"][d2]) - fr(o["bmaxs"][d2])) % L2
        if dist2 - abs(v2) * best[0] <= L2 / 2 ** 40:
            return "skip"
    v = fr(u["vel"][d])
    exp = list(o["cell"])
    exp[d] = (exp[d] + (1 if v > 0 else -1)) % c["ns"][d]
    if o["cell_after"] != exp:
        return "after the cell-boundary event the unit is in cell %r, the neighbouring cell is %r" % (o["cell_after"], exp)
    return None


def cb_handler_level(ctx, cases=None):
    import c07
    cases = cases if cases is not None else cb_cases(ctx, ctx.n(1500, 12000))
    chunks = [cases[i:i + 250] for i in range(0, len(cases), 250)]
    outs = []
    for o in C.run_driver_parallel(ctx, "c11_cb", [{"cases": ch} for ch in chunks]):
        outs += o["out"]
    fails, terms, kinds, raised, used, near_ties = [], [], {}, 0, [], 0
    for c, o in zip(cases, outs):
        if "exc" in o:
            fails.append((c, "driver could not set the case up: %s %s" % (o["exc"], o["msg"])))
            continue
        kinds[c["kind"]] = kinds.get(c["kind"], 0) + 1
        if o["T"] is None or o.get("out") is None:
            raised += 1
            if c["malformed"] is None:
                fails.append((c, "the handler raised on a well-formed in-state: %s" % (o.get("exc_T") or o.get("exc_out"))))
                continue
        m = cb_oracle(c, o)
        if m == "skip":
            near_ties += 1
        elif m:
            fails.append((c, m))
        zl = lambda l: C.coq_list(["%d%%Z" % x for x in l])
        st = C.coq_list([c07._eb(u, p) for u, p in c07._flat_eb(c["branch"], None, [])])
        ro = "None" if o.get("out") is None else "(Some %s)" % C.coq_list([c07._eb(u, None, c07._f2b(1.0)) for u in o["out"]])
        terms.append("mkCB %s %s %d%%nat %s %s %s %d%%Z %d%%nat %s" % (
            zl(c["L"]), st, c["rel"], zl(o["bmins"]), zl(o["bmaxs"]),
            "None" if o["T"] is None else "(Some (%d%%Z, %d%%Z))" % tuple(o["T"]), o.get("bound", 0), o.get("dir", 0), ro))
        used.append(c)
    bad, err, neval = [], "", 0
    if terms:
        neval, bad, nf, nok, err = C.eval_cases(
            ctx, "c11_cb", "Require Import JF.Base.F64 JF.Model.EndOfChainCases JF.Model.CellBoundary "
            "JF.Model.CellBoundaryCases.\nFrom Coq Require Import ZArith.", terms, "check_cbcase", "cbcase", per_file=150)
    if fails:
        c, m = fails[0]
        C.violation(ctx, "cb-handler", {"kind": "c11-cb", "case": c, "message": m, "n_failing": len(fails)},
                    "C11 fails on the implementation (cell-boundary handler): " + m)
    elif bad or err or neval != len(terms):
        C.violation(ctx, "cb-correspondence",
                    {"kind": "c11-cb", "case": used[bad[0]] if bad else None,
                     "message": "the real cell-boundary handler differs from Model/CellBoundary.v in %d cases (%d of %d "
                                "evaluated); the correspondence JF.Model.CellBoundaryCases.check_cbcase no longer "
                                "checks. %s" % (len(bad), neval, len(terms), err[-300:])},
                    "cell-boundary model and handler disagree", nofail=True)
    ctx.notes.append("cell-boundary handler level: %d constructed cases %r; handler raised (malformed stream): %d; "
                     "%d with two walls reached within rounding (neighbouring-cell clause not applied); "
                     "%d oracle failures, %d cases evaluated in Coq, %d bit-level mismatches with Model/CellBoundary.v"
                     % (len(cases), kinds, raised, near_ties, len(fails), neval, len(bad)))


TIE_JOB = ("config_files/2018_JCP_149_064113/coulomb_atoms/cell_bounded.ini",
           {"CuboidPeriodicCells": {"cells_per_side": "4"},
            "SingleIndependentActivePeriodicDirectionEndOfChainEventHandler": {"chain_time": "0.11563575588759878"}})


def tie_probe(ctx):
    """Finding F12: an end-of-chain event whose time equals the time of the active unit's cell-boundary event bit for
    bit (chain time = 0.25 - x of the initially active atom for random.seed(1)) is committed first and leaves the old
    active unit recorded in the cell it has just left.  Only this input is excused; the probe prints nothing if the run
    is clean."""
    tr = hist.run_traces(ctx, [TIE_JOB], 400, seeds=(1,))[0]
    err = tr.get("error")
    fails = [] if err else TC.check_all(tr, ("C11",))[0]["C11"]
    if err or fails:
        what = ("run raised %s in SingleActiveCellOccupancy.update" % err["exc"]) if err else fails[0]["msg"]
        if err and "single_active_cell_occupancy" not in (err.get("tb") or ""):
            C.violation(ctx, "tie-probe", {"kind": "trace", "payload": hist.payload_of(tr, 400), "message": what},
                        "C11 exact-tie job fails outside the occupancy update: " + what)
            return
        C.known(ctx, "F12", "exact tie of the end-of-chain event with the cell-boundary event of the active unit "
                "(cell_bounded.ini, 4 cells per side, seed 1, chain_time 0.11563575588759878): %s after %d legs"
                % (what[:160], len(tr["legs"])))
    ctx.notes.append("exact-tie probe (F12): %s" % ("reproduced" if (err or fails) else "clean"))


def run(ctx, replay_jobs=None, cb_override=None):
    C.build_scratch(ctx, exts=("heap", "mic", "ipc"))
    if replay_jobs is None:
        tie_probe(ctx)
        cb_handler_level(ctx, cases=cb_override)
    nlegs = ctx.n(150, 400)
    hist.run_history_check(
        ctx, "C11", ("C11",), encoders(), TRUSTED, [a % nlegs if "%d" in a else a for a in ASSUME],
        "Props/C11.v re-checked (init_inv, update_inv, run_occ_inv, ...); traced runs of all shipped and generated "
        "cell configurations replayed in Coq (check_ocase: model state == recorded internals at every leg, hypotheses "
        "of update_inv, cell changes of the active unit only at cell-boundary events into the neighbouring cell); "
        "oracle: tracecheck.check_occupancy recomputes position_to_cell for every unit against the recorded lists",
        replay_jobs=replay_jobs if replay_jobs is not None else payloads(ctx), coq_legs=nlegs, prebuilt=True)


def replay(ctx, path):
    import json
    data = json.load(open(path))
    if data.get("kind") == "c11-cb":
        run(ctx, cb_override=[data["case"]] if data.get("case") else None)
        return
    run(ctx, replay_jobs=hist.replay_payloads(path))
