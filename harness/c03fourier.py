"""C03, lattice-sum clause — Fourier-space part of merged_image_coulomb_potential.c (DESIGN.md section 5, C03).

Stand-alone module.  Entry points:
  check_fourier(ctx)  -> dict   the part to be called from C03's check AFTER C.build_scratch(ctx, exts=(..., "mic"));
                                registers violations on ctx itself, returns counts for the evidence
  run(ctx)                      stand-alone check (`./check C03fourier`): builds the scratch copy, re-checks
                                Props/C03fourier.v, calls check_fourier, writes evidence

What is tied, and how:
  (a) the REAL compiled extension is asked for its precomputed table: the opaque struct is read in-process through a
      second cffi instance (drivers/c03fourier_ewald.py): cutoffs, derived constants, fourier_array — for a freshly
      constructed potential and for a deep copy (copy_merged_image_coulomb_potential).  Python re-evaluates the C
      formulas in binary64 and emulates both loops of derivative() (position space with math.erfc, Fourier space with the
      same recurrences) on the read-back table; the C result must agree to 1e-12 of the scale of the summands.
  (b) kernel-checked (Coq `interval`): the model's coefficient formula JF.Model.EwaldFourierR.fourier_coef (exact
      reals, PI and exp) against the read-back table entries, and the model's explicit finite sum fourier_part (shipped
      cutoff) against the Fourier part computed with the C table, at a few points.
Not proved anywhere: independence of the Ewald splitting parameter alpha, convergence of the truncated sums, and
anything about the real erfc (the position-space part is tied only by (a)).
"""
import math
import os
from fractions import Fraction as Fr

import common as C
from common import f2b, b2f

HEADER = ("From Coq Require Import Reals Arith ZArith.\nFrom Interval Require Import Tactic.\n"
          "Require Import JF.Model.EwaldFourierR.\nLocal Open Scope R_scope.\n")
CBV = ("cbv [fourier_part fourier_sum sum_from cut_j cut_k Nat.sqrt Nat.sqrt_iter Nat.mul Nat.add Nat.sub "
       "Init.Nat.mul Init.Nat.add Init.Nat.sub fourier_coef mult_coef norm_sq angle INR]")


def q(x):
    """Coq real term for the exact value of a Python float."""
    fr = Fr(x)
    s = "%d" % fr.numerator if fr.numerator >= 0 else "(%d)" % fr.numerator
    return s if fr.denominator == 1 else "(%s / %d)" % (s, fr.denominator)


def qfr(fr):
    s = "%d" % fr.numerator if fr.numerator >= 0 else "(%d)" % fr.numerator
    return s if fr.denominator == 1 else "(%s / %d)" % (s, fr.denominator)


def mult(j, k):
    return 1.0 if (j == 0 and k == 0) else (2.0 if (k == 0 or j == 0) else 4.0)


def index_set(n):
    """the (i, j, k) visited by the Fourier loop, with the (int) sqrt cutoffs"""
    out = []
    for i in range(1, n + 1):
        cy = int(math.sqrt(n * n - i * i))
        for j in range(0, cy + 1):
            cx = int(math.sqrt(n * n - i * i - j * j))
            for k in range(0, cx + 1):
                out.append((i, j, k, cy, cx))
    return out


def emulate(st, sx, sy, sz):
    """derivative() of merged_image_coulomb_potential.c transcribed to Python floats, on the table read back from the
    extension.  Returns (position part, fourier part, sum of |summands|)."""
    L = b2f(st["system_length"])
    pc, pcsq = st["position_cutoff"], st["position_cutoff_sq"]
    n, nsq = st["fourier_cutoff"], st["fourier_cutoff_sq"]
    aol, aolsq = b2f(st["alpha_over_length"]), b2f(st["alpha_over_length_sq"])
    tarp = b2f(st["two_alpha_over_length_root_pi"])
    tpl = b2f(st["two_pi_over_length"])
    arr = st["fourier_array"]
    d = 0.0
    scale = 0.0
    for k in range(-pc, pc + 1):
        vz = (sz + k * L) * (sz + k * L)
        cy = int(math.sqrt(pcsq - k * k))
        for j in range(-cy, cy + 1):
            vy = (sy + j * L) * (sy + j * L)
            cx = int(math.sqrt(pcsq - j * j - k * k))
            for i in range(-cx, cx + 1):
                vx = sx + i * L
                vsq = vx * vx + vy + vz
                vn = math.sqrt(vsq)
                t = vx * (tarp * math.exp(-aolsq * vsq) + math.erfc(aol * vn) / vn) / vsq
                d += t
                scale += abs(t)
    pos = d
    dcx, dsx = math.cos(tpl * sx), math.sin(tpl * sx)
    dcy, dsy = math.cos(tpl * sy), math.sin(tpl * sy)
    dcz, dsz = math.cos(tpl * sz), math.sin(tpl * sz)
    cx_, sx_, cy_, sy_, cz_, sz_ = dcx, dsx, 1.0, 0.0, 1.0, 0.0
    f = 0.0
    for i in range(1, n + 1):
        cuty = int(math.sqrt(nsq - i * i))
        for j in range(0, cuty + 1):
            cutx = int(math.sqrt(nsq - i * i - j * j))
            for k in range(0, cutx + 1):
                c = b2f(arr["%d,%d,%d" % (i, j, k)])
                f += c * sx_ * cy_ * cz_
                scale += abs(c)
                if k != cutx:
                    s = cz_
                    cz_ = s * dcz - sz_ * dsz
                    sz_ = sz_ * dcz + s * dsz
                elif j != cuty:
                    s = cy_
                    cy_ = s * dcy - sy_ * dsy
                    sy_ = sy_ * dcy + s * dsy
                    cz_, sz_ = 1.0, 0.0
                elif i != n:
                    s = cx_
                    cx_ = s * dcx - sx_ * dsx
                    sx_ = sx_ * dcx + s * dsx
                    cy_, sy_, cz_, sz_ = 1.0, 0.0, 1.0, 0.0
    return pos, f, scale


POINTS = [(0.1, 0.2, 0.3), (0.37, -0.21, 0.45), (-0.499, 0.499, 0.0), (0.003, 0.0, 0.0), (0.25, 0.25, -0.25),
          (0.49, 0.01, 0.3)]
LENGTHS = [1.0, 2.0, 3.3]
COEF_PICKS = [(1, 0, 0), (1, 0, 1), (1, 1, 0), (1, 1, 1), (2, 3, 1), (3, 0, 4), (6, 0, 0), (4, 3, 3)]


def check_fourier(ctx):
    """Requires the scratch copy with the "mic" extension (C.build_scratch(ctx, exts=("mic",)))."""
    res = {"python_checks": 0, "python_failures": [], "coq_lemmas": 0, "coq_lemmas_ok": 0, "coq_files": 0,
           "coefficients_bit_exact": 0, "coefficients_compared": 0, "max_c_vs_emulation_over_scale": 0.0}
    out = C.run_driver(ctx, "c03fourier_ewald", {"lengths": [f2b(x) for x in LENGTHS],
                                                 "points": [[f2b(c) for c in p] for p in POINTS], "params": None})
    fails = res["python_failures"]

    def need(cond, what, data=None):
        res["python_checks"] += 1
        if not cond:
            fails.append({"what": what, "data": data})

    need(out["struct_layout_matches_source"], "struct MergedImageCoulombPotential in the C source no longer has the "
         "layout assumed by the reader (drivers/c03fourier_ewald.py)")
    dflt = out["defaults"]
    lemmas_coef, lemmas_sum = [], []
    for rec in out["settings"]:
        L = b2f(rec["L"])
        if "exc" in rec:
            need(False, "exception while constructing / evaluating the potential: " + rec["exc"], {"L": L})
            continue
        st, st2 = rec["struct"], rec["struct_copy"]
        alpha = b2f(rec["alpha"])
        n, pc = st["fourier_cutoff"], st["position_cutoff"]
        need(rec["alpha"] == dflt["alpha"] and n == dflt["fourier_cutoff"] and pc == dflt["position_cutoff"],
             "constructed potential does not carry the default (shipped) parameters", {"L": L})
        need(st["fourier_cutoff_sq"] == n * n and st["position_cutoff_sq"] == pc * pc, "squared cutoffs", {"L": L})
        need(st["system_length"] == f2b(L) and st["alpha_over_length"] == f2b(alpha / L)
             and st["alpha_over_length_sq"] == f2b(alpha * alpha / (L * L))
             and st["two_alpha_over_length_root_pi"] == f2b(2.0 * alpha / (L * math.sqrt(math.pi)))
             and st["two_pi_over_length"] == f2b(2.0 * math.pi / L),
             "derived constants of the struct differ from the C formulas evaluated in binary64", {"L": L})
        need(st2 == st, "deep copy (copy_merged_image_coulomb_potential) differs from the original struct / table",
             {"L": L, "n_diff": sum(1 for k in st["fourier_array"] if st["fourier_array"][k] != st2["fourier_array"].get(k))})
        need(all(int(math.sqrt(v)) == math.isqrt(v) for v in range(0, max(n * n, pc * pc) + 1)),
             "(int) sqrt(n) is not the integer square root for some n <= cutoff^2")
        # the table against the constructor's formula in binary64
        for i in range(1, n + 1):
            for j in range(0, n + 1):
                for k in range(0, n + 1):
                    nsq = float(i * i + j * j + k * k)
                    exp_ = 4.0 * i * mult(j, k) / (nsq * L * L) * math.exp(-math.pi * math.pi * nsq / (alpha * alpha))
                    got = b2f(st["fourier_array"]["%d,%d,%d" % (i, j, k)])
                    res["coefficients_compared"] += 1
                    if f2b(exp_) == f2b(got):
                        res["coefficients_bit_exact"] += 1
                    need(abs(got - exp_) <= 4 * math.ulp(exp_), "fourier_array[%d][%d][%d] differs from the "
                         "constructor's formula" % (i, j, k), {"L": L, "got": got.hex(), "expected": exp_.hex()})
        # C derivative against the transcription on the read-back table
        for idx, v in enumerate(rec["values"]):
            sx, sy, sz, dv = (b2f(x) for x in v)
            pos, fo, scale = emulate(st, sx, sy, sz)
            dev = abs(dv - (pos + fo)) / scale
            res["max_c_vs_emulation_over_scale"] = max(res["max_c_vs_emulation_over_scale"], dev)
            need(dev <= 1e-12, "C derivative differs from position + Fourier sums recomputed in Python",
                 {"L": L, "sep": [sx.hex(), sy.hex(), sz.hex()], "c": dv.hex(), "python": (pos + fo).hex()})
            need(rec["values_copy"][idx] == v[3], "derivative of the deep copy differs", {"L": L, "point": idx})
            need(rec["values_class_x"][idx] == f2b(b2f(dflt["prefactor"]) * 1.0 * 1.0 * dv),
                 "MergedImageCoulombPotential.derivative != prefactor * c1 * c2 * C derivative", {"L": L, "point": idx})
        # Coq lemmas (first two lengths only)
        if L in LENGTHS[:2]:
            for (i, j, k) in COEF_PICKS:
                if i > n or j > n or k > n:
                    continue
                c = b2f(st["fourier_array"]["%d,%d,%d" % (i, j, k)])
                tol = abs(Fr(c)) / 2 ** 45
                lemmas_coef.append(
                    "Lemma coef_%d : Rabs (fourier_coef %s %s %d %d %d - %s) <= %s.\nProof. %s. "
                    "interval with (i_prec 80). Qed.\n"
                    % (len(lemmas_coef), q(alpha), q(L), i, j, k, q(c), qfr(tol), CBV))
            for idx in (0, 1):
                sx, sy, sz, _ = (b2f(x) for x in rec["values"][idx])
                pos, fo, scale = emulate(st, sx, sy, sz)
                sabs = sum(abs(Fr(b2f(st["fourier_array"]["%d,%d,%d" % (i, j, k)]))) for (i, j, k, _, _) in index_set(n))
                tol = sabs / 10 ** 12
                lemmas_sum.append(
                    "Lemma fsum : Rabs (fourier_part %d %s %s %s %s %s - %s) <= %s.\nProof. %s. "
                    "interval with (i_prec 70). Qed.\n"
                    % (n, q(alpha), q(L), q(sx), q(sy), q(sz), q(fo), qfr(tol), CBV))
    # compile the Coq files in parallel
    os.makedirs(ctx.gen, exist_ok=True)
    files = []
    if lemmas_coef:
        files.append(("c03fourier_coef.v", HEADER + "\n".join(lemmas_coef), len(lemmas_coef)))
    for t, lem in enumerate(lemmas_sum):
        files.append(("c03fourier_sum_%d.v" % t, HEADER + lem, 1))
    paths = []
    for name, txt, cnt in files:
        p = os.path.join(ctx.gen, name)
        open(p, "w").write(txt)
        paths.append((p, cnt))
        res["coq_lemmas"] += cnt
    res["coq_files"] = len(paths)
    ctx.obligations += len(paths)
    ctx.checker_cmds.append("coqc -Q coq JF <gen>/c03fourier_*.v   (%d files, interval)" % len(paths))
    from concurrent.futures import ThreadPoolExecutor
    coq_fail = []
    with ThreadPoolExecutor(max_workers=C.NCPU) as ex:
        for (p, cnt), (ok, o) in zip(paths, ex.map(lambda pc_: C.coqc(pc_[0], ctx.gen, timeout=600), paths)):
            if ok:
                res["coq_lemmas_ok"] += cnt
                ctx.discharged += 1
            else:
                coq_fail.append({"file": os.path.basename(p), "output": o[-800:], "text": open(p).read()[:3000]})
    res["coq_failures"] = len(coq_fail)
    if fails:
        C.violation(ctx, "fourier_oracle", {"kind": "c03-fourier", "failures": fails[:5], "n_failing": len(fails)},
                    "C03 lattice sum: " + fails[0]["what"])
    elif coq_fail:
        C.violation(ctx, "fourier_correspondence",
                    {"kind": "c03-fourier-coq", "failures": coq_fail[:3],
                     "message": "interval lemmas tying JF.Model.EwaldFourierR (fourier_coef / fourier_part) to the "
                                "table and Fourier sum of the compiled extension no longer check; the Python "
                                "recomputation found no deviation"},
                    "Ewald Fourier model and implementation disagree", nofail=True)
    return res


TRUSTED = [
    "Coq-Interval (tactic `interval`, rigorous interval arithmetic for PI, exp, sin, cos)",
    "hand-written model coq/Model/EwaldFourierR.v of merged_image_coulomb_potential.c (reals for doubles)",
    "in-process read-back of the opaque C struct through a second cffi declaration (layout compared with the C source)",
    "libm erfc/exp/sin/cos for the Python recomputation of derivative() (not kernel-checked)",
]
ASSUME = [
    "independence of the Ewald splitting parameter alpha and convergence of the truncated sums are NOT proved",
    "the position-space part is modelled with erfc as an argument; only symmetry/linearity are proved for it",
    "(int) sqrt(n) equals the integer square root for n <= cutoff^2 (checked at run time for the shipped cutoffs)",
    "the Fourier part of the C result is tied through the read-back table and a Python transcription of the loop "
    "(1e-12 of the scale) plus interval lemmas at a few points, not for all separations",
]


def run(ctx):
    C.build_scratch(ctx, exts=("mic",))
    ok, out, nthm = C.check_props(ctx)
    broken = [] if ok else ["Props/C03fourier.v does not check: " + out[-600:]]
    res = check_fourier(ctx)
    if broken and not ctx.violations:
        C.violation(ctx, "obligation", {"kind": "obligation", "broken": broken}, broken[0][:200], nofail=True)
    C.write_evidence(ctx, {
        "evaluations": res["python_checks"] + res["coq_lemmas"],
        "distinct_nontrivial": res["coefficients_compared"] + res["coq_lemmas"],
        "rule": "every entry of the precomputed Fourier table of the compiled extension for %d box lengths, the C "
                "derivative at %d separations per box length, and %d interval lemmas" % (len(LENGTHS), len(POINTS),
                                                                                        res["coq_lemmas"]),
        "samples": [{"lengths": LENGTHS, "points_in_units_of_L": POINTS}],
        "input_distribution": res,
        "traces_validated_against_impl": res["coq_lemmas_ok"],
        "explanation": "Props/C03fourier.v re-checked (%d theorems: the recurrence loop equals the explicit finite sum; "
                       "oddness, evenness, periodicity, linearity); Fourier table and Fourier sum of the compiled "
                       "extension tied to the model by interval lemmas; derivative() recomputed in Python" % nthm,
        "trusted_base": TRUSTED,
    }, ASSUME)


def replay(ctx, path):
    run(ctx)
