"""C05, handler glue that builds the derivative table (drivers/c05_glue.py):
_fill_lifting of TwoCompositeObjectBoundingPotentialEventHandler and the insert loop of
FixedSeparationsEventHandlerWithPiecewiseConstantBoundingPotential.send_out_state, on exact numbers.

Oracle (Python): the recorded insert calls are exactly the table the property speaks about —
  fill : local unit i: sum_j pd[i][j] (active unit: the event rate sum_j pd[a][j]); target unit j:
         -pd[a][j] - sum_{i != a} pd[i][j]; the composite object with the smaller identifier first; only the active unit
         flagged; the table sums to zero;
  fixed: the potential's derivative vector in leaf-unit order, the active index flagged; the velocity is handed to the
         unit whose identifier get_active_identifier returned; nothing is inserted when the event is not confirmed;
and the selected unit has a strictly negative rate.  The recorded table + result also go through the Coq model (LSel).
"""
from fractions import Fraction as Fr

import common as C

SCHEMES = ("inside", "outside", "ratio")
COQ_S = {"inside": "InsideFirst", "outside": "OutsideFirst", "ratio": "Ratio"}


def eq(fr):
    return [fr.numerator, fr.denominator]


def dq(v):
    return Fr(int(v[0]), int(v[1]))


def rq(rng):
    return Fr(rng.randrange(-40, 41), rng.choice([1, 2, 3, 5, 8]))


def gen_fill(rng):
    while True:
        nl, nt = rng.randrange(1, 5), rng.randrange(1, 5)
        pd = [[rq(rng) if rng.random() < 0.85 else Fr(0) for _ in range(nt)] for _ in range(nl)]
        a = rng.randrange(nl)
        if sum(pd[a]) > 0:
            break
    return {"kind": "fill", "scheme": rng.choice(SCHEMES), "local_comp": rng.randrange(2), "nl": nl, "nt": nt,
            "active": a, "pd": [[eq(x) for x in row] for row in pd],
            "u1": eq(Fr(rng.randrange(1, 16), 16)), "u2": eq(Fr(rng.randrange(1, 16), 16))}


def gen_fixed(rng):
    while True:
        n = rng.randrange(2, 7)
        ders = [rq(rng) for _ in range(n - 1)]
        ders.append(-sum(ders))
        rng.shuffle(ders)
        pos = [i for i, d in enumerate(ders) if d > 0]
        if pos:
            break
    a = rng.choice(pos)
    bounding = ders[a] * rng.choice([1, 2, Fr(3, 2)])
    return {"kind": "fixed", "scheme": rng.choice(SCHEMES), "ders": [eq(d) for d in ders], "active": a,
            "bounding": eq(bounding), "u_confirm": eq(Fr(rng.randrange(0, 8), 8)),
            "u1": eq(Fr(rng.randrange(1, 16), 16)), "u2": eq(Fr(rng.randrange(1, 16), 16))}


HANDLERS = ("summed", "cellbounding", "cellveto")


def zero_patterns(n):
    """all sets of at most two neutral positions of a composite object of n point masses"""
    pats = [()]
    pats += [(i,) for i in range(n)]
    pats += [(i, j) for i in range(n) for j in range(i + 1, n)]
    return pats


def gen_composite(rng, k):
    """k-th composite case: handler class, size, neutral positions cycle systematically; values are random"""
    handler = HANDLERS[k % 3]
    n = (2, 3, 4)[(k // 3) % 3]
    pats = zero_patterns(n)
    z0 = pats[(k // 9) % len(pats)]
    z1 = pats[rng.randrange(len(pats))] if rng.random() < 0.7 else ()
    if rng.random() < 0.5:
        z0, z1 = z1, z0
    charged = rng.random() < 0.8

    def vec(zs):
        return [Fr(0) if i in zs else rng.choice([Fr(1), Fr(-1), Fr(1, 2), Fr(-41, 50), Fr(rng.randrange(1, 9), 4)])
                for i in range(n)]
    charges = [vec(z0), vec(z1)]
    ac = rng.randrange(2)
    nonneutral = [i for i in range(n) if charges[ac][i] != 0] if charged else list(range(n))
    a = rng.choice(nonneutral) if nonneutral and rng.random() < 0.95 else rng.randrange(n)
    for _ in range(50):
        base = [[rq(rng) if rng.random() < 0.9 else Fr(0) for _ in range(n)] for _ in range(n)]
        q = charges if charged else [[Fr(1)] * n, [Fr(1)] * n]
        if sum(base[a][j] * q[ac][a] * q[1 - ac][j] for j in range(n)) > 0 or rng.random() < 0.03:
            break
    return {"kind": "composite", "handler": handler, "scheme": rng.choice(SCHEMES), "n": n, "active_comp": ac,
            "active": a, "charge": "q" if charged else None, "charges": [[eq(x) for x in c] for c in charges],
            "zero_positions": [list(z0), list(z1)], "base": [[eq(x) for x in row] for row in base],
            "u_confirm": eq(Fr(0)), "u1": eq(Fr(rng.randrange(1, 16), 16)), "u2": eq(Fr(rng.randrange(1, 16), 16))}


def expected_composite(job):
    """the factor's derivative table, from the stub potential's derivatives times the charges (Fractions only)"""
    n, ac, a = job["n"], job["active_comp"], job["active"]
    base = [[dq(x) for x in row] for row in job["base"]]
    ch = [[dq(x) for x in c] for c in job["charges"]] if job["charge"] else [[Fr(1)] * n, [Fr(1)] * n]
    pd = [[base[i][j] * ch[ac][i] * ch[1 - ac][j] for j in range(n)] for i in range(n)]
    factor = sum(pd[a], Fr(0))
    if factor <= 0:
        return factor, []
    loc = [((ac, i), factor if i == a else sum(pd[i], Fr(0)), i == a) for i in range(n)]
    tgt = [((1 - ac, j), -sum((pd[i][j] for i in range(n)), Fr(0)), False) for j in range(n)]
    return factor, [(r, i, f) for i, r, f in (loc + tgt if ac == 0 else tgt + loc)]


def code(ident):
    return ident[0] * 100 + ident[1] if len(ident) == 2 else ident[0]


def oracle(job, res):
    """-> (failure message or None, Coq term or None)"""
    ins = [(dq(r), tuple(i), a) for r, i, a in res["inserts"]]
    if job["kind"] == "composite":
        if isinstance(res["r"], list):
            return "%s handler: send_out_state raised %s" % (job["handler"], res["r"][1]), None
        if res["notes"]:
            return "%s handler: %s" % (job["handler"], res["notes"][0]), None
        factor, want = expected_composite(job)
        if ins != want:
            return ("%s handler (charge=%r, charges %s, active (%d, %d)): inserted table %s is not the factor's "
                    "derivative table %s" % (job["handler"], job["charge"],
                                             [[str(dq(x)) for x in c] for c in job["charges"]], job["active_comp"],
                                             job["active"], [(str(r), i, f) for r, i, f in ins],
                                             [(str(r), i, f) for r, i, f in want])), None
        if res["r"] != "state":
            return "send_out_state did not return the stored state", None
        if not want:
            return (None if res["exchanged"] == [] else "velocity exchanged although the factor derivative is <= 0"), None
        if len(res["exchanged"]) != 1 or tuple(res["exchanged"][0][0]) != (job["active_comp"], job["active"]):
            return "exchange_velocity calls %r" % res["exchanged"], None
        res = dict(res)
        res["r"] = res["exchanged"][0][1]
    elif job["kind"] == "fill":
        pd = [[dq(x) for x in row] for row in job["pd"]]
        nl, nt, a, lc = job["nl"], job["nt"], job["active"], job["local_comp"]
        loc = [((lc, i), sum(pd[i], Fr(0)), i == a) for i in range(nl)]
        tgt = [((1 - lc, j), -pd[a][j] - sum((pd[i][j] for i in range(nl) if i != a), Fr(0)), False) for j in range(nt)]
        want = [(r, i, f) for i, r, f in (loc + tgt if lc < 1 - lc else tgt + loc)]
        if ins != want:
            return "_fill_lifting inserted %r, the table of factor derivatives is %r" % (ins, want), None
    else:
        ders = [dq(x) for x in job["ders"]]
        a = job["active"]
        confirmed = dq(job["u_confirm"]) * dq(job["bounding"]) < ders[a]
        want = [(d, (i,), i == a) for i, d in enumerate(ders)] if confirmed else []
        if ins != want:
            return "send_out_state inserted %r, expected %r" % (ins, want), None
        if res["r"] != "state":
            return "send_out_state returned %r" % (res["r"],), None
        if not confirmed:
            return (None if res["exchanged"] == [] else "velocity exchanged without confirmation"), None
    if sum(r for r, _, _ in ins) != 0:
        return "the inserted table does not sum to zero", None
    sel = res["r"]
    if job["kind"] == "composite":
        pass
    elif job["kind"] == "fixed":
        if len(res["exchanged"]) != 1 or res["exchanged"][0][0] != job["active"]:
            return "exchange_velocity calls %r" % res["exchanged"], None
        sel = [res["exchanged"][0][1]]
    if isinstance(sel, list) and sel and sel[0] == "EXC":
        return "exception %s" % sel[1], None
    rate = dict((i, r) for r, i, _ in ins).get(tuple(sel))
    if rate is None or not rate < 0:
        return "the unit selected through the handler glue, %r, has rate %r" % (sel, rate), None
    negs = [i for r, i, _ in ins if r <= 0]
    term = "LSel %s %s %s %s (LOk %d (%d)%%Z)" % (
        COQ_S[job["scheme"]],
        C.coq_list(["(%s, (%d)%%Z, %s)" % (C.coq_q(r), code(i), C.coq_bool(f)) for r, i, f in ins]),
        C.coq_q(dq(job["u1"])), C.coq_q(dq(job["u2"])), negs.index(tuple(sel)), code(tuple(sel)))
    return None, term


def run(ctx, rng, replay_job=None):
    jobs = [replay_job] if replay_job is not None else \
        [gen_fill(rng) for _ in range(ctx.n(300, 3000))] + [gen_fixed(rng) for _ in range(ctx.n(150, 1500))] + \
        [gen_composite(rng, k) for k in range(ctx.n(540, 5400))]
    chunks = [jobs[i:i + 100] for i in range(0, len(jobs), 100)]
    outs = C.run_driver_parallel(ctx, "c05_glue", [{"jobs": ch} for ch in chunks])
    flat = [r for o in outs for r in o["out"]]
    fails, terms, owners = [], [], []
    for job, res in zip(jobs, flat):
        m, t = oracle(job, res)
        if m:
            fails.append((job, m))
        elif t:
            terms.append(t)
            owners.append(job)
    comp = [j for j in jobs if j["kind"] == "composite"]
    dims = {}
    for j in comp:
        for z in j["zero_positions"]:
            key = "%s n=%d charge=%s neutral=%s" % (j["handler"], j["n"], "q" if j["charge"] else "None",
                                                    ",".join(map(str, z)) or "-")
            dims[key] = dims.get(key, 0) + 1
    return {"fails": fails, "terms": terms, "owners": owners, "n": len(jobs),
            "summary": {"composite_send_out_state_calls(real handler instances)": len(comp),
                        "composite_cases_by(handler, points per object, charge, neutral positions of an object)": dims,
                        "fill_lifting_calls": sum(1 for j in jobs if j["kind"] == "fill"),
                        "fixed_separations_send_out_state_calls": sum(1 for j in jobs if j["kind"] == "fixed"),
                        "tables_also_checked_against_the_model": len(terms)}}
