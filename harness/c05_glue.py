"""C05, handler glue that builds the derivative table (drivers/c05_glue.py):
_fill_lifting of TwoCompositeObjectBoundingPotentialEventHandler and the insert loop of
FixedSeparationsEventHandlerWithPiecewiseConstantBoundingPotential.send_out_state, on exact numbers.

Oracle (Python): the recorded insert calls are exactly the table the property speaks about —
  fill : local unit i: sum_j pd[i][j] (active unit: the event rate sum_j pd[a][j]); target unit j:
         -pd[a][j] - sum_{i != a} pd[i][j]; the composite object with the smaller identifier first; only the active unit
         flagged; the table sums to zero;
  fixed: the potential's derivative vector in leaf-unit order, the active index flagged; the velocity is handed to the
         unit whose identifier get_active_identifier returned; nothing is inserted when the event is not confirmed;
and the selected unit has a strictly negative rate.  The recorded table + result also go through the Coq model (LSel).
"""
from fractions import Fraction as Fr

import common as C

SCHEMES = ("inside", "outside", "ratio")
COQ_S = {"inside": "InsideFirst", "outside": "OutsideFirst", "ratio": "Ratio"}


def eq(fr):
    return [fr.numerator, fr.denominator]


def dq(v):
    return Fr(int(v[0]), int(v[1]))


def rq(rng):
    return Fr(rng.randrange(-40, 41), rng.choice([1, 2, 3, 5, 8]))


def gen_fill(rng):
    while True:
        nl, nt = rng.randrange(1, 5), rng.randrange(1, 5)
        pd = [[rq(rng) if rng.random() < 0.85 else Fr(0) for _ in range(nt)] for _ in range(nl)]
        a = rng.randrange(nl)
        if sum(pd[a]) > 0:
            break
    return {"kind": "fill", "scheme": rng.choice(SCHEMES), "local_comp": rng.randrange(2), "nl": nl, "nt": nt,
            "active": a, "pd": [[eq(x) for x in row] for row in pd],
            "u1": eq(Fr(rng.randrange(1, 16), 16)), "u2": eq(Fr(rng.randrange(1, 16), 16))}


def gen_fixed(rng):
    while True:
        n = rng.randrange(2, 7)
        ders = [rq(rng) for _ in range(n - 1)]
        ders.append(-sum(ders))
        rng.shuffle(ders)
        pos = [i for i, d in enumerate(ders) if d > 0]
        if pos:
            break
    a = rng.choice(pos)
    bounding = ders[a] * rng.choice([1, 2, Fr(3, 2)])
    return {"kind": "fixed", "scheme": rng.choice(SCHEMES), "ders": [eq(d) for d in ders], "active": a,
            "bounding": eq(bounding), "u_confirm": eq(Fr(rng.randrange(0, 8), 8)),
            "u1": eq(Fr(rng.randrange(1, 16), 16)), "u2": eq(Fr(rng.randrange(1, 16), 16))}


def code(ident):
    return ident[0] * 100 + ident[1] if len(ident) == 2 else ident[0]


def oracle(job, res):
    """-> (failure message or None, Coq term or None)"""
    ins = [(dq(r), tuple(i), a) for r, i, a in res["inserts"]]
    if job["kind"] == "fill":
        pd = [[dq(x) for x in row] for row in job["pd"]]
        nl, nt, a, lc = job["nl"], job["nt"], job["active"], job["local_comp"]
        loc = [((lc, i), sum(pd[i], Fr(0)), i == a) for i in range(nl)]
        tgt = [((1 - lc, j), -pd[a][j] - sum((pd[i][j] for i in range(nl) if i != a), Fr(0)), False) for j in range(nt)]
        want = [(r, i, f) for i, r, f in (loc + tgt if lc < 1 - lc else tgt + loc)]
        if ins != want:
            return "_fill_lifting inserted %r, the table of factor derivatives is %r" % (ins, want), None
    else:
        ders = [dq(x) for x in job["ders"]]
        a = job["active"]
        confirmed = dq(job["u_confirm"]) * dq(job["bounding"]) < ders[a]
        want = [(d, (i,), i == a) for i, d in enumerate(ders)] if confirmed else []
        if ins != want:
            return "send_out_state inserted %r, expected %r" % (ins, want), None
        if res["r"] != "state":
            return "send_out_state returned %r" % (res["r"],), None
        if not confirmed:
            return (None if res["exchanged"] == [] else "velocity exchanged without confirmation"), None
    if sum(r for r, _, _ in ins) != 0:
        return "the inserted table does not sum to zero", None
    sel = res["r"]
    if job["kind"] == "fixed":
        if len(res["exchanged"]) != 1 or res["exchanged"][0][0] != job["active"]:
            return "exchange_velocity calls %r" % res["exchanged"], None
        sel = [res["exchanged"][0][1]]
    if isinstance(sel, list) and sel and sel[0] == "EXC":
        return "exception %s" % sel[1], None
    rate = dict((i, r) for r, i, _ in ins).get(tuple(sel))
    if rate is None or not rate < 0:
        return "the unit selected through the handler glue, %r, has rate %r" % (sel, rate), None
    negs = [i for r, i, _ in ins if r <= 0]
    term = "LSel %s %s %s %s (LOk %d (%d)%%Z)" % (
        COQ_S[job["scheme"]],
        C.coq_list(["(%s, (%d)%%Z, %s)" % (C.coq_q(r), code(i), C.coq_bool(f)) for r, i, f in ins]),
        C.coq_q(dq(job["u1"])), C.coq_q(dq(job["u2"])), negs.index(tuple(sel)), code(tuple(sel)))
    return None, term


def run(ctx, rng, replay_job=None):
    jobs = [replay_job] if replay_job is not None else \
        [gen_fill(rng) for _ in range(ctx.n(300, 3000))] + [gen_fixed(rng) for _ in range(ctx.n(150, 1500))]
    chunks = [jobs[i:i + 100] for i in range(0, len(jobs), 100)]
    outs = C.run_driver_parallel(ctx, "c05_glue", [{"jobs": ch} for ch in chunks])
    flat = [r for o in outs for r in o["out"]]
    fails, terms, owners = [], [], []
    for job, res in zip(jobs, flat):
        m, t = oracle(job, res)
        if m:
            fails.append((job, m))
        elif t:
            terms.append(t)
            owners.append(job)
    return {"fails": fails, "terms": terms, "owners": owners, "n": len(jobs),
            "summary": {"fill_lifting_calls": sum(1 for j in jobs if j["kind"] == "fill"),
                        "fixed_separations_send_out_state_calls": sum(1 for j in jobs if j["kind"] == "fixed"),
                        "tables_also_checked_against_the_model": len(terms)}}
