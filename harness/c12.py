"""C12 — composite objects stay consistent with their point masses (DESIGN.md section 5, C12)."""
import common as C
import hist

TRUSTED = [
    "hand-written model coq/Model/Composite.v (velocity bookkeeping of the leaf event handlers over Q; consistency "
    "conditions composite_ok evaluated on the states of Model/Kinematics.v)",
    "monkeypatching tracer harness/drivers/tracer.py (records node weights, the initial molecules and every commit)",
]
ASSUME = [
    "tie to the code: check_ccase is evaluated inside Coq on traced real runs of every composite-object "
    "configuration; tolerances of composite_ok: velocity (n+8)*2^-44 relative, barycentre (n+16)*2^-40*L after n "
    "commits (a per-event drift bound, not derived in Coq from the float operations)",
    "the 1e-13 cut-off of _commit_sub_tree_non_leaf_velocity_change is excluded by hypothesis in the exchange theorems "
    "(cutoff_misfire_refuted shows why)",
]


def encoders():
    return [("c12_composite", hist.COMPOSITE_HEADER, "check_ccase", "ccase", lambda tr, n: hist.encode_ccase(tr, n))]


WATER = "config_files/2018_JCP_149_064113/water/single_molecule.ini"
DIPOLE_MOTION = "config_files/2018_JCP_149_064113/dipoles/dipole_motion.ini"


water_switch_overrides = hist.water_switch_overrides


def jobs(ctx):
    cfgs = [c for c in hist.shipped_configs(ctx) if "/dipoles/" in c or "/water/" in c or "hard_disk" in c]
    # several composite objects: the chain leaves a composite object whose velocity was accumulated from inexact
    # weighted velocity changes (rotated velocities of hard-disk dipoles; three point masses after a mode switch)
    several = [(c, {"RandomInputHandler": {"number_of_root_nodes": 3}}) for c in cfgs if "hard_disk" in c]
    return [(c, {}) for c in cfgs] + several + hist.crowded_jobs(cfgs) \
        + hist.variations(ctx, cfgs, ctx.n(8, 80))


def creator_batches(ctx):
    """many randomly generated initial molecules (no event is run: max_legs = 0): dipoles and water molecules that
    straddle the periodic boundary are rare (1-2 %)"""
    n = ctx.n(300, 2000)
    return [([(DIPOLE_MOTION, {"RandomInputHandler": {"number_of_root_nodes": n}}),
              (WATER, {"RandomInputHandler": {"number_of_root_nodes": n}})], 0, (ctx.seed, ctx.seed + 1))]


def run(ctx, replay_jobs=None):
    C.build_scratch(ctx, exts=("heap", "mic", "ipc"))
    hist.run_history_check(
        ctx, "C12", ("C12",), encoders(), TRUSTED, ASSUME,
        "Props/C12.v re-checked; traced runs of all composite-object configurations replayed in Coq (check_ccase: "
        "root velocity == weighted sum, absent iff no point mass moves; root advanced to the event time == weighted "
        "barycentre of nearest images; initial random molecules, incl. batches of several hundred generated dipoles and "
        "water molecules; a water molecule with molecule/atom mode switching); oracle: the same conditions with exact "
        "rationals",
        jobs=None if replay_jobs else jobs(ctx), replay_jobs=replay_jobs, prebuilt=True,
        extra_batches=() if replay_jobs else creator_batches(ctx))


def replay(ctx, path):
    run(ctx, replay_jobs=hist.replay_payloads(path))
