"""C09 — pending candidate events equal what a fresh start creates (DESIGN.md section 5, C09)."""
import common as C
import hist
import wiring

HEADER = "Require Import JF.Model.Activator JF.Model.ActivatorCases."
TRUSTED = [
    "hand-written model coq/Model/Activator.v of TagActivator / Tagger.(de)activate",
    "monkeypatching tracer harness/drivers/tracer.py (records the real activator's answers, each tagger's fresh "
    "generation via its real yield_identifiers_send_event_time, activation flags)",
    "classification of tagger classes into identity-sensitive / count-only / one-shot (harness/tracecheck.py)",
]
ASSUME = [
    "the tie to the code is the replay of recorded real runs through the model inside Coq (every started handler, "
    "in-state, trash list and activation flag must coincide) plus the model-independent oracle pending == fresh",
    "taggers' generation functions are inputs of the model (their content is C10's subject)",
]


def encoders():
    return [("c09_activator", HEADER, "check_acase", "acase", lambda tr, n: hist.encode_acase(tr, n))]


def run(ctx, replay_jobs=None):
    hist.run_history_check(
        ctx, "C09", ("C09",), encoders(), TRUSTED, ASSUME,
        "Props/C09.v re-checked; every recorded leg of every traced run replayed through Model/Activator.v in Coq "
        "(run_conf) together with the frame condition of theorem pending_fresh (frames_ok); model-independent "
        "oracle: multiset of pending in-states == fresh generation for identity-sensitive taggers, counts for the "
        "count-only ones, handlers demanded <= handlers owned",
        replay_jobs=replay_jobs, static_obligations=wiring.static_obligations)


def replay(ctx, path):
    run(ctx, replay_jobs=hist.replay_payloads(path))
