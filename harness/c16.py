"""C16 — the cell grid partitions the box; neighbour / nearby / relative / translate relations form a torus
(DESIGN.md section 5, C16).

Pipeline: real CuboidPeriodicCells / CuboidCells grids (driver c16_cells) ->
 (1) Python oracle, independent of Coq: extents abut, cover [0, L), every position of [0, L) lies in exactly one
     cell whose recorded extent contains it; torus laws by set arithmetic on identifiers;
 (2) correspondence evaluated in Coq: bit-exact extents and position_to_cell vs Model/Cells.v, all index
     relations vs Model/CellIndex.v, and the start hypotheses of the extent theorems on every generated grid.
Finding F2 is fixed in /repo: anything matching it again is a VIOLATION.
"""
import json
import math
import os
from fractions import Fraction as Fr
from itertools import product

import common as C
from common import f2b, b2f

HEADER = ("Require Import JF.Base.F64 JF.Model.Cells JF.Model.CellIndex JF.Model.CellsCases.\n"
          "Open Scope Z_scope.")

L_POOL = [1.0, 0.1, 3.7, 1e-3, 1e3, 2.0, 0.5, 4.0, 0.25, 8.0, 1024.0, 2.0 ** -10, 2.0 ** 20, 2.0 ** -20,
          2.0 ** 40, 2.0 ** -40, 10.0, 7.0, 1.0 / 3.0, 2.5, 12.345, 1e-8, 1e8, math.pi,
          math.nextafter(1.0, 0.0), math.nextafter(1.0, 2.0), math.nextafter(2.0, 0.0), 0.3, 0.7, 100.0]
L_EDGE = [2.0 ** -1000, 2.0 ** 1000, 1e300, 2.0 ** -1022, 2.0 ** -1060, 1.7976931348623157e308, 3e-310]

NEXT_POOL = [0.0, -0.0, 5e-324, -5e-324, 1.0, -1.0, 2.0 ** -1022, math.nextafter(2.0 ** -1022, 0), 0.1, 3.7,
             math.nextafter(1.0, 0), math.nextafter(1.0, 2), 2.0, 2.0 ** 52, 2.0 ** 53, 1e308,
             1.7976931348623157e308, -1.7976931348623157e308, 1e-310, -1e-310, 0.5, 0.25, -0.5, 1e3, 1e-3]


def prod(ns):
    p = 1
    for n in ns:
        p *= n
    return p


def gen_length(rng, edge_ok):
    u = rng.random()
    if u < 0.6:
        return rng.choice(L_POOL)
    if u < 0.75:
        return 2.0 ** rng.randrange(-30, 31)
    if u < 0.8 and edge_ok:
        return rng.choice(L_EDGE)
    if u < 0.9:
        return rng.uniform(0.05, 50.0)
    return math.ldexp(rng.random() + 0.5, rng.randrange(-60, 60))


def gen_grids(ctx, count):
    """Grid j has one 'long' direction with n = 1 + (j mod 60) cells (so every n in 1..60 occurs once per 60
    grids) and, for dimension > 1, short other directions.  Grids with at most 200 cells also run the
    exhaustive all-pairs torus part."""
    rng = ctx.rng
    grids = []
    for j in range(count):
        dim = 1 + (j // 60 + j) % 3 if rng.random() < 0.8 else rng.randrange(1, 4)
        nbig = 1 + j % 60
        torus_focus = (j % 3 == 2)
        if torus_focus:
            # small grid, unequal counts, all pairs
            while True:
                ns = [rng.randrange(1, 9) for _ in range(dim)]
                if dim == 1:
                    ns = [min(nbig, 60)]
                if prod(ns) <= 200:
                    break
        else:
            ns = [rng.choice([1, 2, 3, 4, 5, 7]) for _ in range(dim)]
            ns[rng.randrange(dim)] = nbig
            while prod(ns) > 2500:
                k = rng.randrange(dim)
                if ns[k] != nbig or ns.count(nbig) > 1:
                    ns[k] = max(1, ns[k] // 2)
        cubic = rng.random() < 0.3
        edge_ok = rng.random() < 0.15
        l0 = gen_length(rng, edge_ok)
        lengths = [l0 if cubic else gen_length(rng, edge_ok) for _ in range(dim)]
        if rng.random() < 0.15 and dim > 1:
            ns = [ns[0]] * dim if prod([ns[0]] * dim) <= 2500 else ns   # equal counts
        cps = list(ns)
        u = rng.random()
        if dim > 1 and u < 0.3:
            # fewer cells_per_side entries than dimensions: the first entry is reused for the remaining directions
            # (on cubic and non-cubic boxes, with L[d] < L[0] as well as L[d] > L[0])
            m = rng.randrange(1, dim)
            padded = ns[:m] + [ns[0]] * (dim - m)
            if prod(padded) <= 2500:
                cps, ns = ns[:m], padded
                if not cubic and rng.random() < 0.5:
                    lengths[m:] = [lengths[0] * rng.choice([0.5, 0.25, 0.75, 2.0, 3.0, 1.5]) for _ in range(dim - m)]
        elif dim > 1 and u < 0.45:
            # two directions with the same cell side length (as a float) but different lengths and counts
            f = rng.choice([2, 3, 4])
            if prod([ns[0], ns[0] * f] + ns[2:]) <= 2500:
                ns[1] = ns[0] * f
                lengths[1] = lengths[0] * f
                cps = list(ns)
        ncell = prod(ns)
        periodic = rng.random() < 0.8
        layers = rng.choice([0, 1, 1, 2]) if ncell <= 200 else rng.choice([0, 1])
        if periodic and ncell <= 60 and rng.random() < 0.3:
            # more neighbour layers than cells in some direction: the layers wrap around the torus more than once
            # (seeded change C16-10: a single conditional wrap instead of the modulus)
            layers = min(ns) + rng.choice([1, 2, 3])
        # relative_cell / translate go through float midpoints (cell_max + cell_min) / 2: the sum overflows for
        # L >= 2^1023 and cells shrink to a few floats for subnormal L; the index relations are claimed (and
        # run) for 2^-1000 <= L <= 2^1000 only, the partition part for every length
        in_torus_domain = all(2.0 ** -1000 <= x <= 2.0 ** 1000 for x in lengths)
        # all-pairs tables cost N^2 numbers in the Coq case files: in the thorough tier only the grids generated for
        # the index relations (every third) go up to 200 cells, the others up to 30 cells
        pair_limit = 200 if (ctx.quick() or torus_focus) else 30
        if not all(x == x and abs(x) != float("inf") for x in lengths):
            continue      # a generated length overflowed: not a box
        grids.append({"lengths": [f2b(x) for x in lengths], "ns": ns, "cps": cps, "layers": layers,
                      "periodic": periodic, "torus": ncell <= pair_limit and in_torus_domain,
                      "seed": rng.randrange(2 ** 31), "nrand": 20, "with_L": rng.random() < 0.3})
        if rng.random() < 0.15 and prod([2 * x for x in ns]) <= 2500 and all(x <= 2.0 ** 999 for x in lengths):
            # sibling system built right after it in the same driver process: same cell side lengths (as floats),
            # doubled box lengths and counts -- state leaking between instances or directions shows up here
            g2 = dict(grids[-1])
            g2["lengths"] = [f2b(2.0 * x) for x in lengths]
            g2["ns"] = [2 * x for x in ns]
            g2["cps"] = [2 * x for x in cps]
            g2["torus"] = prod(g2["ns"]) <= pair_limit and in_torus_domain
            g2["seed"] = rng.randrange(2 ** 31)
            grids.append(g2)
            if rng.random() < 0.5:
                grids.append(dict(grids[-2], seed=rng.randrange(2 ** 31)))   # and the first one once more
    return grids


def out_of_domain(g):
    """Grids whose cell side underflows (side length zero or cells of a single float): the constructor
    rejects them; only generated by the edge stream with subnormal-adjacent lengths."""
    import math
    # ... and grids with a box length that is not a finite number (a generated length that overflowed): not a box
    return any(b2f(b) < 2.0 ** -1000 or not math.isfinite(b2f(b)) for b in g["lengths"])


# ----------------------------------------------------------------------------------------------
# Python oracle, independent of the Coq model
def oracle_grid(g, r):
    """Returns a list of (message, shrunk replay grid) for every way the property fails on this grid."""
    fails = []
    lengths = [b2f(b) for b in g["lengths"]]
    ns = g["ns"]
    dim = len(ns)

    def fail(msg, positions=None, torus=None):
        gg = dict(g)
        if positions is not None:
            gg["positions"] = positions
        elif "positions" not in gg:
            gg["positions"] = []
        gg["torus"] = g["torus"] if torus is None else torus
        fails.append((msg, gg))

    if r["exc"]:
        if not out_of_domain(g):
            fail("constructor raised %s" % r["exc"], torus=False)
        return fails
    cps = g.get("cps", ns)
    if list(ns) != [cps[k] if k < len(cps) else cps[0] for k in range(dim)]:
        fail("replay grid inconsistent: ns is not cps padded with its first entry", torus=False)
        return fails
    if r.get("cells_per_side") is not None and list(r["cells_per_side"]) != list(ns):
        fail("cells_per_side %r was padded to %r, expected %r (first entry reused)" % (cps, r["cells_per_side"], ns),
             torus=False)
        return fails
    cells = r["cells"]
    ncell = prod(ns)
    ids = [tuple(c[0]) for c in cells]
    if len(cells) != ncell or len(set(ids)) != ncell or \
            any(len(i) != dim or not all(0 <= i[k] < ns[k] for k in range(dim)) for i in ids):
        fail("cell identifiers are not exactly the index tuples of the grid", torus=False)
        return fails
    # identifiers in list order: index = sum id_k * prod(ns[:k])
    for k, i in enumerate(ids):
        if sum(i[d] * prod(ns[:d]) for d in range(dim)) != k:
            fail("cell %r is stored at list position %d" % (i, k), torus=False)
            return fails
    mins, maxs = [], []
    for k in range(dim):
        ext = {}
        for c in cells:
            e = (c[1][k], c[2][k])
            if ext.setdefault(c[0][k], e) != e:
                fail("extent in direction %d differs between cells with the same index entry" % k, torus=False)
                return fails
        L = lengths[k]
        n = ns[k]
        mn = [b2f(ext[i][0]) for i in range(n)]
        mx = [b2f(ext[i][1]) for i in range(n)]
        mins.append(mn)
        maxs.append(mx)
        if ext[0][0] != f2b(0.0):
            fail("direction %d: first cell_min is %r, not 0.0" % (k, mn[0]), torus=False)
        if mx[n - 1] != math.nextafter(L, -math.inf):
            fail("direction %d (L=%r, n=%d): last cell_max %r is not the largest float below L: the grid does not "
                 "cover [0, L)" % (k, L, n, mx[n - 1]), torus=False)
        if L >= 2.0 ** -1000:
            # cells have the width L[k] / n[k] of THEIR direction: boundary i sits at i * L / n up to rounding
            for i in range(1, n):
                if abs(Fr(mn[i]) - Fr(L) * i / n) > Fr(L) * Fr(1, 2 ** 50):
                    fail("direction %d (L=%r, n=%d): cell %d starts at %r, not at i*L/n = %r (cell side must be "
                         "L[d] / n[d] with n padded from the first entry)" % (k, L, n, i, mn[i], L * i / n),
                         torus=False)
                    break
        for i in range(n):
            if not mn[i] < mx[i]:
                fail("direction %d: cell %d has cell_min >= cell_max" % (k, i), torus=False)
        for i in range(n - 1):
            if math.nextafter(mx[i], math.inf) != mn[i + 1]:
                fail("direction %d (L=%r, n=%d): cells %d and %d do not abut: max %r, next min %r"
                     % (k, L, n, i, i + 1, mx[i], mn[i + 1]), torus=False)
    if fails:
        return fails
    # positions
    for vec, res in r["pos"]:
        xs = [b2f(b) for b in vec]
        if not all(0.0 <= xs[k] < lengths[k] for k in range(dim)):
            continue   # x == L: allowed by the assertion in the code, outside the property; correspondence only
        if isinstance(res, str):
            fail("position_to_cell(%r) raised %s" % (xs, res), positions=[vec], torus=False)
            continue
        if not 0 <= res < ncell:
            fail("position_to_cell(%r) returned a cell outside the grid" % xs, positions=[vec], torus=False)
            continue
        c = cells[res]
        for k in range(dim):
            x = xs[k]
            if not b2f(c[1][k]) <= x <= b2f(c[2][k]):
                fail("position %r (direction %d, L=%r, n=%d) mapped to cell %r whose extent [%r, %r] does not "
                     "contain it" % (x, k, lengths[k], ns[k], c[0], b2f(c[1][k]), b2f(c[2][k])),
                     positions=[vec], torus=False)
            cnt = sum(1 for i in range(ns[k]) if mins[k][i] <= x <= maxs[k][i])
            if cnt != 1:
                fail("position %r lies in %d cell extents of direction %d" % (x, cnt, k), positions=[vec],
                     torus=False)
    # torus laws on identifiers
    t = r.get("torus")
    if t is not None:
        if t.get("exc"):
            fail("a relation method raised %s" % t["exc"], torus=True)
            return fails
        layers = g["layers"]
        idx_of = {i: k for k, i in enumerate(ids)}
        nearby = [set(row) for row in t["nearby"]]
        if any(len(s) != z for s, z in zip(nearby, t["nearby_sizes"])):
            fail("nearby set contains the same cell twice", torus=True)
        for k, i in enumerate(ids):
            if k not in nearby[k]:
                fail("nearby_cells(%r) does not contain the cell itself" % (i,), torus=True)
                break
        done = False
        for a in range(ncell):
            for b in nearby[a]:
                if a not in nearby[b]:
                    fail("nearby not symmetric: %r in nearby(%r) but not conversely" % (ids[b], ids[a]), torus=True)
                    done = True
                    break
            if done:
                break
        for k, i in enumerate(ids):
            offs = product(*[range(i[d] - layers, i[d] + layers + 1) for d in range(dim)])
            if g["periodic"]:
                exp = {idx_of[tuple(o[d] % ns[d] for d in range(dim))] for o in offs}
            else:
                exp = {idx_of[o] for o in offs if all(0 <= o[d] < ns[d] for d in range(dim))}
            if nearby[k] != exp:
                fail("nearby_cells(%r) is not the index neighbourhood modulo the cell counts (missing %r, extra %r)"
                     % (i, sorted(ids[x] for x in exp - nearby[k]), sorted(ids[x] for x in nearby[k] - exp)),
                     torus=True)
                break
        for k, i in enumerate(ids):
            bad = False
            for d in range(dim):
                for s, sign in ((0, 1), (1, -1)):
                    j = list(i)
                    j[d] += sign
                    if g["periodic"]:
                        j[d] %= ns[d]
                        exp = idx_of[tuple(j)]
                    else:
                        exp = idx_of[tuple(j)] if 0 <= j[d] < ns[d] else -1
                    if t["nbr"][k][2 * d + s] != exp:
                        fail("neighbor_cell(%r, %d, %s) is not index %+d modulo the cell count"
                             % (i, d, sign > 0, sign), torus=True)
                        bad = True
            if bad:
                break
        if g["periodic"]:
            if ids[t["zero"]] != tuple([0] * dim):
                fail("zero_cell is %r" % (ids[t["zero"]],), torus=True)
            rel, trans = t["rel"], t["trans"]
            done = False
            for c in range(ncell):
                for rf in range(ncell):
                    e_rel = idx_of[tuple((ids[c][d] - ids[rf][d]) % ns[d] for d in range(dim))]
                    e_tr = idx_of[tuple((ids[c][d] + ids[rf][d]) % ns[d] for d in range(dim))]
                    if rel[c][rf] != e_rel:
                        fail("relative_cell(%r, %r) = %r is not the index difference modulo the cell counts"
                             % (ids[c], ids[rf], ids[rel[c][rf]]), torus=True)
                        done = True
                    elif trans[c][rf] != e_tr:
                        fail("translate(%r, %r) = %r is not the index sum modulo the cell counts"
                             % (ids[c], ids[rf], ids[trans[c][rf]]), torus=True)
                        done = True
                    elif trans[rf][rel[c][rf]] != c:
                        fail("translate(%r, relative_cell(%r, %r)) != %r" % (ids[rf], ids[c], ids[rf], ids[c]),
                             torus=True)
                        done = True
                    elif rel[trans[c][rf]][c] != rf:
                        fail("relative_cell(translate(%r, %r), %r) != %r" % (ids[c], ids[rf], ids[c], ids[rf]),
                             torus=True)
                        done = True
                    if done:
                        break
                if done:
                    break
            z = t["zero"]
            for a in range(ncell):
                if {trans[a][x] for x in nearby[z]} != nearby[a]:
                    fail("nearby_cells(%r) is not the translate of nearby_cells(zero_cell)" % (ids[a],), torus=True)
                    break
    return fails


# ----------------------------------------------------------------------------------------------
# Coq terms
def zl(xs):
    return C.coq_list([C.coq_z(x) for x in xs])


def zll(rows):
    return C.coq_list([zl(r) for r in rows])


def grid_terms(gi, g, r, seen):
    """Coq cases of one grid: list of (term, description)."""
    terms = []
    if r["exc"]:
        return terms
    ns = g["ns"]
    dim = len(ns)
    cells = r["cells"]
    for k in range(dim):
        key = (g["lengths"][k], ns[k])
        ext = {}
        for c in cells:
            ext.setdefault(c[0][k], (c[1][k], c[2][k]))
        if len(ext) != ns[k]:
            continue
        row = (tuple(ext[i][0] for i in range(ns[k])), tuple(ext[i][1] for i in range(ns[k])))
        if seen.get(key) == row:
            continue
        seen[key] = row
        terms.append(("CExtent %d %d %s %s" % (key[0], key[1], zl(row[0]), zl(row[1])),
                      "extents of direction %d" % k, gi))
        terms.append(("CPre %d %d %s" % (key[0], key[1], zl(row[0])),
                      "hypotheses pre_ok of grid_partition_partial, direction %d" % k, gi))
    pos = [p for p in r["pos"] if not isinstance(p[1], str)]
    for a in range(0, len(pos), 120):
        chunk = pos[a:a + 120]
        terms.append(("CPos %s %s %s" % (zl(g["lengths"]), zl(ns),
                                         C.coq_list(["(%s, %s)" % (zl(v), C.coq_z(i)) for v, i in chunk])),
                      "position_to_cell", gi))
    t = r.get("torus")
    if t is not None and not t.get("exc"):
        terms.append(("CTorus %s %s %d %d %s %s %s %s %s" % (
            C.coq_bool(g["periodic"]), zl(ns), g["layers"], t.get("zero", 0), zll([c[0] for c in cells]),
            zll(t["nbr"]), zll(t["nearby"]), zll(t.get("rel", [])), zll(t.get("trans", []))),
            "index relations (neighbor/nearby/relative/translate/zero)", gi))
    return terms


def run_impl(ctx, grids):
    # consecutive grids are built one after the other in the same driver process (several systems per process,
    # in generated order), so that state shared between instances is exercised
    nchunk = max(1, min(2 * C.NCPU, -(-len(grids) // 4)))
    size = -(-len(grids) // nchunk)
    chunks = [grids[i:i + size] for i in range(0, len(grids), size)]
    payloads = [{"grids": ch} for ch in chunks]
    payloads[0]["next"] = [f2b(x) for x in NEXT_POOL]
    outs = C.run_driver_parallel(ctx, "c16_cells", payloads)
    res = []
    for o in outs:
        res += o["grids"]
    return res, outs[0]["next"]


def run(ctx, grids_override=None):
    C.build_scratch(ctx)
    broken = []
    ok, out, nthm = C.check_props(ctx)
    if not ok:
        broken.append("Props/C16.v does not check: " + out[-600:])
    if grids_override is not None:
        grids = grids_override
    else:
        grids = load_corpus() + gen_grids(ctx, ctx.n(60, 1500))
    res, nxt = run_impl(ctx, grids)

    # (1) oracle on the implementation
    fails = []
    for gi, (g, r) in enumerate(zip(grids, res)):
        for msg, gg in oracle_grid(g, r):
            fails.append((gi, msg, gg))
    for b, up, down in nxt:
        x = b2f(b)
        if b2f(up) != math.nextafter(x, math.inf) or b2f(down) != math.nextafter(x, -math.inf):
            fails.append((-1, "_next_float_up/_next_float_down(%r) = %r, %r" % (x, b2f(up), b2f(down)), None))

    # (2) correspondence in Coq
    seen = {}
    terms = [("CNext %d %d %d" % (b, up, down), "_next_float_up/down", -1) for b, up, down in nxt]
    for gi, (g, r) in enumerate(zip(grids, res)):
        terms += grid_terms(gi, g, r, seen)
    # spread the expensive cases over the case files
    order = list(range(len(terms)))
    ctx_rng_state = ctx.rng.getstate()
    ctx.rng.shuffle(order)
    ctx.rng.setstate(ctx_rng_state)
    per_file = max(4, -(-len(terms) // (3 * C.NCPU)))
    neval, bad, nfiles, nok, err = C.eval_cases(ctx, "c16", HEADER, [terms[i][0] for i in order], "check_ccase",
                                                "ccase", per_file=per_file)
    if err:
        broken.append("correspondence case files did not evaluate: " + err[-600:])
    mism = [terms[order[i]] for i in bad]

    if fails:
        gi, msg, gg = fails[0]
        C.violation(ctx, "oracle", {"kind": "c16-grid", "grids": [gg] if gg is not None else [],
                                    "message": msg, "n_failing": len(fails),
                                    "all_messages": [m for _, m, _ in fails[:20]]},
                    "C16 fails on the implementation: " + msg)
    elif mism:
        term, what, gi = mism[0]
        is_pre = term.startswith("CPre")
        C.violation(ctx, "correspondence", {
            "kind": "c16-grid", "grids": [grids[gi]] if gi >= 0 else [],
            "message": ("hypothesis pre_ok of JF.Props.C16.grid_partition_partial does not hold on this grid"
                        if is_pre else
                        "model/implementation disagree on %s (%d cases); the Python oracle found no failing input; "
                        "correspondence JF.Model.CellsCases.check_ccase no longer checks" % (what, len(mism))),
            "first_case": term[:2000]},
            "Cells model and implementation disagree on " + what, nofail=True)
    elif broken:
        C.violation(ctx, "obligation", {"kind": "obligation", "broken": broken}, broken[0][:200], nofail=True)

    npos = sum(len(r.get("pos", [])) for r in res)
    ncells = sum(len(r.get("cells", [])) for r in res)
    ntor = sum(1 for r in res if r.get("torus") is not None)
    npairs = sum(len(r["cells"]) ** 2 for r in res if r.get("torus") is not None and "rel" in r["torus"])
    dist = {"dims": {}, "periodic": 0, "non_periodic": 0, "layers": {}, "cubic": 0, "unequal_counts": 0,
            "constructor_rejected_out_of_domain": 0, "n_values": len({n for g in grids for n in g["ns"]})}
    for g, r in zip(grids, res):
        d = len(g["ns"])
        dist["dims"][d] = dist["dims"].get(d, 0) + 1
        dist["periodic" if g["periodic"] else "non_periodic"] += 1
        dist["layers"][g["layers"]] = dist["layers"].get(g["layers"], 0) + 1
        dist["cubic"] += int(len(set(g["lengths"])) == 1 and d > 1)
        dist["unequal_counts"] += int(len(set(g["ns"])) > 1)
        dist["cells_per_side_shorter_than_dimension"] = dist.get("cells_per_side_shorter_than_dimension", 0) + \
            int(len(g.get("cps", g["ns"])) < d)
        dist["padded_on_non_cubic_box"] = dist.get("padded_on_non_cubic_box", 0) + \
            int(len(g.get("cps", g["ns"])) < d and len(set(g["lengths"])) > 1)
        dist["constructor_rejected_out_of_domain"] += int(bool(r["exc"]))
    distinct = len({(tuple(g["lengths"]), tuple(g["ns"]), g["layers"], g["periodic"]) for g in grids})
    C.write_evidence(ctx, {
        "evaluations": npos + npairs * 2 + ncells,
        "distinct_nontrivial": distinct,
        "rule": "distinct (box lengths, cells per side, neighbour layers, periodic) grids; every grid has all its "
                "recorded extents compared and positions within 3 ulps of every cell boundary, of 0 and of L looked "
                "up; grids with <= 200 cells have all cell pairs compared",
        "samples": [{"grid": {k: v for k, v in grids[i].items() if k != "positions"},
                     "first_cells": res[i].get("cells", [])[:3], "first_positions": res[i].get("pos", [])[:3]}
                    for i in range(0, len(grids), max(1, len(grids) // 5))][:6],
        "input_distribution": dist,
        "grids": len(grids), "positions_looked_up": npos, "cells_with_extents_compared": ncells,
        "grids_with_all_pairs": ntor, "cell_pairs_compared": npairs,
        "model_vs_impl_mismatches": len(mism),
        "oracle_failures": len(fails),
        "traces_validated_against_impl": neval,
        "case_files": nfiles, "case_files_ok": nok,
        "explanation": "Props/C16.v re-checked (%d theorems); bit-exact correspondence of Model/Cells.v (extents, "
                       "_cell_index, float stepping) and exhaustive per-grid correspondence of Model/CellIndex.v "
                       "(flat index, neighbor, nearby, relative, translate, zero) with the real CuboidPeriodicCells / "
                       "CuboidCells, evaluated in Coq; independent Python oracle (abutting extents, cover, unique "
                       "containing cell, torus laws on identifiers) on every grid" % nthm,
        "trusted_base": TRUSTED,
    }, ASSUME)


TRUSTED = [
    "Flocq 4.1 IEEE754.BinarySingleNaN (executable binary64) and Bdiv_correct / Btrunc_correct / Bsucc_correct / "
    "Bpred_correct",
    "hand-written models coq/Model/Cells.v, coq/Model/CellIndex.v",
    "correspondence harness harness/c16.py + drivers/c16_cells.py (bit-level (de)serialisation of floats)",
]
ASSUME = [
    "the model is tied to the code by bit-exact differential evaluation on generated grids, not by a semantics of "
    "Python",
    "relative_cell / translate are computed by the code through float cell midpoints; their equality with index "
    "arithmetic is proved for the index model and checked exhaustively (all cell pairs) on every generated grid with "
    "<= 200 cells, not proved for all box lengths",
    "domain of the generated box lengths: partition part (extents, position_to_cell) every finite positive length "
    "incl. subnormal-adjacent and the largest float (the constructor rejects grids whose cell side underflows to 0 or "
    "whose cells hold a single float); index relations (relative_cell / translate via midpoints) only for "
    "2^-1000 <= L <= 2^1000: for L >= 2^1023 the midpoint sum cell_max + cell_min overflows and the code raises "
    "AssertionError, for subnormal L with cells of two floats the midpoint arithmetic disagrees with index arithmetic",
    "grid_partition / extent_loops_correct / idx_monotone_box are proved unconditionally (termination within "
    "default_fuel, extents = fibre min/max, partition of [0, pred L]) for 2^-1000 <= L <= 2^1000 and 1 <= n <= 2^20; "
    "outside that domain the conditional theorems grid_partition_partial / extent_loops_correct_partial apply, whose "
    "hypotheses pre_ok (finite quotient at pred L, no empty cell, loop start points on the right side of their cell) "
    "are evaluated in Coq on every generated grid (case CPre), inside and outside the domain",
]


def load_corpus():
    p = os.path.join(C.VERIF, "corpus", "C16", "grids.json")
    return json.load(open(p)) if os.path.exists(p) else []


def replay(ctx, path):
    data = json.load(open(path))
    run(ctx, grids_override=data.get("grids", []))
