"""C13 — In-states are isolated copies; only commits change the global state (DESIGN.md section 5, C13).

Three things per run:
  1. Props/C13.v is re-checked (theorems about Model/StateHandler.v on the object store Base/Store.v).
  2. Correspondence: random op sequences (extract / extract-active / extract-global / in-place write / rebind /
     hand-over / insert) run on the REAL TreeStateHandler; the Coq model replays the same op list and must give
     the same returned branches, the same global state after every op and the same number of aliased objects
     (evaluated inside Coq, JF.Model.StateHandlerCases.check_scase).
  3. Oracle independent of Coq: a dict-of-values reference.  On sequences that keep the client discipline
     (in-place writes only to objects handed out by a copying extraction / created by the client and not yet
     inserted) the global state read back may change only at an insert, and then to exactly 'previous state
     overridden by the inserted values'; returned branches are node + ancestors + descendants with the
     current values; the active part is the independent-active set; no held branch changes unless written
     through itself.  Plus: every commit of short real runs of shipped configurations (before commit n+1 ==
     after commit n; after commit == before overridden by exactly the inserted values).
"""
import json
import os

import common as C
from common import f2b

HEADER = "From Coq Require Import Uint63.\nRequire Import JF.Base.Store JF.Model.StateHandler JF.Model.StateHandlerCases."
FIELDS = ("p", "v", "t")
COQ_FIELD = {"p": "FPos", "v": "FVel", "t": "FTs"}


# ----------------------------------------------------------------------------------------------------
# generator: tracks only shapes, object identity (tokens) and ownership; never values
class Tok:
    __slots__ = ("owned",)

    def __init__(self, owned):
        self.owned = owned


class Gen:
    def __init__(self, rng, roots, children, dim, disciplined):
        self.rng = rng
        self.roots, self.children, self.dim, self.disc = roots, children, dim, disciplined
        self.glob = {}
        for i in range(roots):
            self.glob[(i,)] = [Tok(False), None, None]
            for j in range(children):
                self.glob[(i, j)] = [Tok(False), None, None]
        self.held = []          # list of branches; branch = list of units {id, p, v, t}
        self.inserted = []      # per held branch: was it inserted / handed out uncopied
        self.ops = []
        self.violations = 0     # undisciplined writes generated

    # -- values
    def vec(self):
        return [f2b(self.rng.choice([self.rng.random(), self.rng.random() - 0.5, float(self.rng.randrange(-3, 4)),
                                     0.0, -0.0, 1.0, self.rng.random() * 1e-12]))
                for _ in range(self.dim)]

    def pos(self):
        return [f2b(self.rng.random() if self.rng.random() < 0.9 else self.rng.choice([0.0, 0.5, 1.0 - 2.0 ** -53]))
                for _ in range(self.dim)]

    def ts(self):
        return [f2b(float(self.rng.randrange(0, 1000))), f2b(self.rng.random())]

    def value(self, f):
        return self.pos() if f == "p" else (self.vec() if f == "v" else self.ts())

    # -- shapes
    def ids(self):
        return list(self.glob.keys())

    def branch_ids(self, ident):
        if len(ident) == 1:
            return [ident] + [ident + (j,) for j in range(self.children)]
        return [ident[:1], ident]

    def active_ids(self):
        out = []
        for i in range(self.roots):
            if self.glob[(i,)][1] is None:
                continue
            if self.children == 0:
                out.append((i,))
                continue
            ls = [(i, j) for j in range(self.children) if self.glob[(i, j)][1] is not None]
            if len(ls) == self.children:
                out.append((i,))
            else:
                out += ls
        return out

    # -- primitive ops (each appends to self.ops and updates the shadow)
    def ext(self, ident):
        b = []
        for k in self.branch_ids(ident):
            g = self.glob[k]
            b.append({"id": k, "p": Tok(True), "v": Tok(True) if g[1] is not None else None,
                      "t": Tok(True) if g[2] is not None else None})
        self.held.append(b)
        self.ops.append(["ext", list(ident)])
        return len(self.held) - 1

    def act(self):
        hs = []
        ids = self.active_ids()
        for ident in ids:
            b = []
            for k in self.branch_ids(ident):
                g = self.glob[k]
                b.append({"id": k, "p": Tok(True), "v": Tok(True) if g[1] is not None else None,
                          "t": Tok(True) if g[2] is not None else None})
            self.held.append(b)
            hs.append(len(self.held) - 1)
        self.ops.append(["act"])
        return hs

    def globx(self):
        hs = []
        for i in range(self.roots):
            b = []
            for k in self.branch_ids((i,)):
                g = self.glob[k]
                b.append({"id": k, "p": g[0], "v": g[1], "t": g[2]})
            self.held.append(b)
            hs.append(len(self.held) - 1)
        self.ops.append(["glob"])
        return hs

    def can_write(self, h, k, f):
        tok = self.held[h][k][f]
        return tok is not None and (tok.owned or not self.disc)

    def write(self, h, k, f):
        tok = self.held[h][k][f]
        assert tok is not None
        if not tok.owned:
            assert not self.disc
            self.violations += 1
        self.ops.append(["write", h, k, f, self.value(f)])

    def new(self, h, k, f):
        self.held[h][k][f] = Tok(True)
        self.ops.append(["new", h, k, f, self.value(f)])

    def clear(self, h, k):
        self.held[h][k]["v"] = None
        self.held[h][k]["t"] = None
        self.ops.append(["clear", h, k])

    def share(self, h, k, h2, k2, f):
        self.held[h][k][f] = self.held[h2][k2][f]
        self.ops.append(["share", h, k, h2, k2, f])

    def unit_ok(self, u):
        return (u["v"] is None) == (u["t"] is None)

    def fix_units(self, h):
        """make every unit of branch h insertable (velocity and time stamp both set or both None)."""
        for k, u in enumerate(self.held[h]):
            if not self.unit_ok(u):
                if self.rng.random() < 0.5:
                    self.clear(h, k)
                else:
                    self.new(h, k, "v" if u["v"] is None else "t")

    def ins(self, hs):
        for h in hs:
            self.fix_units(h)
        for h in hs:
            for u in self.held[h]:
                self.glob[u["id"]] = [u["p"], u["v"], u["t"]]
        for h in hs:
            for u in self.held[h]:
                for f in FIELDS:
                    if u[f] is not None:
                        u[f].owned = False
        self.ops.append(["ins", list(hs)])

    # -- macros that follow how the mediator and the event handlers use the API
    def rand_id(self):
        return self.rng.choice(self.ids())

    def activate(self):
        """start-of-run / end-of-chain style: extract a branch, give velocity + time stamp, commit."""
        ident = self.rand_id()
        h = self.ext(ident)
        for k, u in enumerate(self.held[h]):
            if self.rng.random() < 0.7 or k == 0:
                if u["v"] is None:
                    self.new(h, k, "v")
                    self.new(h, k, "t")
                else:
                    self.write(h, k, "v")
                    self.write(h, k, "t")
        self.ins([h])

    def move(self):
        """time-slice the active branches in place and commit them."""
        hs = self.act()
        for h in hs:
            for k, u in enumerate(self.held[h]):
                if u["v"] is not None:
                    self.write(h, k, "p")
                    self.write(h, k, "t")
        if hs and self.rng.random() < 0.9:
            self.ins(hs)

    def handover(self):
        """two-leaf event: the target unit takes over the velocity list and the Time object of the active one."""
        lifted = [k for k in self.ids() if self.glob[k][1] is not None and (len(k) == 2 or self.children == 0)]
        rest = [k for k in self.ids() if self.glob[k][1] is None and (len(k) == 2 or self.children == 0)]
        if not lifted or not rest:
            return self.activate()
        a, b = self.rng.choice(lifted), self.rng.choice(rest)
        ha, hb = self.ext(a), self.ext(b)
        ka, kb = len(self.held[ha]) - 1, len(self.held[hb]) - 1
        self.write(ha, ka, "p")
        self.write(ha, ka, "t")
        self.share(hb, kb, ha, ka, "v")
        self.share(hb, kb, ha, ka, "t")
        if self.rng.random() < 0.85:
            self.clear(ha, ka)
        if self.children:
            # root cnodes: velocity change committed in place or (un)set
            for h in (ha, hb):
                u = self.held[h][0]
                if u["v"] is None:
                    self.new(h, 0, "v")
                    self.new(h, 0, "t")
                elif self.rng.random() < 0.5:
                    self.write(h, 0, "v")
                else:
                    self.clear(h, 0)
        self.ins([ha, hb])

    def stale_write(self):
        """(undisciplined sequences only) write through a branch that was inserted or handed out uncopied."""
        cands = [(h, k, f) for h, b in enumerate(self.held) for k, u in enumerate(b) for f in FIELDS
                 if u[f] is not None and not u[f].owned]
        if not cands:
            return False
        self.write(*self.rng.choice(cands))
        return True

    def single(self):
        r = self.rng.random()
        if not self.disc and self.rng.random() < 0.25 and self.stale_write():
            return
        if r < 0.2 or not self.held:
            self.ext(self.rand_id())
        elif r < 0.27:
            self.act()
        elif r < 0.31:
            self.globx()
        elif r < 0.75:
            h = self.pick_branch()
            k = self.rng.randrange(len(self.held[h]))
            f = self.rng.choice(FIELDS)
            u = self.held[h][k]
            q = self.rng.random()
            if q < 0.55 and self.can_write(h, k, f):
                self.write(h, k, f)
            elif q < 0.8:
                if f == "p" and self.rng.random() < 0.7:
                    f = "v"
                self.new(h, k, f)
                if f != "p" and not self.unit_ok(u) and self.rng.random() < 0.9:
                    self.new(h, k, "t" if f == "v" else "v")
            elif q < 0.9:
                self.clear(h, k)
            else:
                h2 = self.pick_branch()
                k2 = self.rng.randrange(len(self.held[h2]))
                f = self.rng.choice(("v", "t", "v", "t", "p"))
                self.share(h, k, h2, k2, f)
        else:
            n = 1 if self.rng.random() < 0.6 else self.rng.randrange(2, 4)
            hs = [self.pick_branch() for _ in range(n)]
            if self.rng.random() < 0.8:
                hs = list(dict.fromkeys(hs))
            self.ins(hs)

    def pick_branch(self):
        # prefer recent branches (the mediator inserts what it has just extracted), sometimes any
        n = len(self.held)
        if self.rng.random() < 0.7:
            return max(0, n - 1 - min(self.rng.randrange(0, 4), n - 1))
        return self.rng.randrange(n)

    def generate(self, nops):
        while len(self.ops) < nops:
            r = self.rng.random()
            if r < 0.12:
                self.activate()
            elif r < 0.24:
                self.move()
            elif r < 0.32:
                self.handover()
            else:
                self.single()
        return self.ops


def gen_seq(rng, nops, forced=None):
    roots = rng.randrange(1, 6)
    children = rng.choice([0, 0, 1, 2, 2, 3, 4])
    dim = rng.choice([1, 2, 2, 3, 3])
    disc = rng.random() < 0.8
    if forced:
        roots, children, dim, disc = forced
    g = Gen(rng, roots, children, dim, disc)
    tree = [[g.pos(), [g.pos() for _ in range(children)]] for _ in range(roots)]
    ops = g.generate(nops)
    # debug logging of the state handler on / off is one more input dimension (it must be invisible)
    debug = rng.random() < 0.3
    return {"dim": dim, "roots": roots, "children": children, "tree": tree, "ops": ops, "disc": disc,
            "undisciplined_writes": g.violations, "debug": debug}


# ----------------------------------------------------------------------------------------------------
# oracle: the property on the implementation's outputs, dict of values, no Coq
def as_map(view):
    return {tuple(u[0]): (u[1], u[2], u[3]) for u in view}


ORACLE_STATS = {"act_coherent": 0, "act_incoherent": 0}


def expected_active(snap, roots, children):
    """The independently moving units, stated on values only: a composite object all of whose point masses move
    is one unit (its root); otherwise the moving point masses are.  (One level: the moving point masses.)"""
    out = []
    for i in range(roots):
        if children == 0:
            if snap[(i,)][1] is not None:
                out.append((i,))
            continue
        ls = [(i, j) for j in range(children) if snap[(i, j)][1] is not None]
        out += [(i,)] if len(ls) == children else ls
    return out


def coherent(snap, roots, children):
    """Domain of the clause about the active part (docstring of yield_independent_lifted_identifiers, property
    C12): a moving point mass induces a velocity of its composite object."""
    return all(snap[(i,)][1] is not None for i in range(roots) for j in range(children)
               if snap[(i, j)][1] is not None)


def branch_ids(ident, children):
    if len(ident) == 1:
        return [ident] + [ident + (j,) for j in range(children)]
    return [ident[:1], ident]


def oracle(seq, out):
    """Returns None or (op index, message).  Only meaningful for disciplined sequences."""
    roots, children = seq["roots"], seq["children"]
    snap = as_map(out["init"])
    exp_ids = [k for i in range(roots) for k in branch_ids((i,), children)]
    if list(snap.keys()) != exp_ids:
        return -1, "extract_global_state does not list the tree"
    for i, (pb, cps) in enumerate(seq["tree"]):
        if snap[(i,)] != (pb, None, None) or any(snap[(i, j)] != (cp, None, None) for j, cp in enumerate(cps)):
            return -1, "initial global state differs from the initialised tree"
    shadow = []   # per held branch: list of units {id, p: cell, v: cell/None, t: cell/None}; cell = [values]

    def add_shadow(view):
        shadow.append([{"id": tuple(u[0]), "p": [u[1]], "v": None if u[2] is None else [u[2]],
                        "t": None if u[3] is None else [u[3]]} for u in view])

    def check_branch(view, ident):
        ids = [tuple(u[0]) for u in view]
        if ids != branch_ids(ident, children):
            return "branch of %r holds identifiers %r, expected node + ancestors + descendants %r" % (
                ident, ids, branch_ids(ident, children))
        for u in view:
            if (u[1], u[2], u[3]) != snap[tuple(u[0])]:
                return "branch of %r: unit %r carries %r, global state has %r" % (ident, u[0], u[1:], snap[tuple(u[0])])
        return None

    for n, (op, rec) in enumerate(zip(seq["ops"], out["steps"])):
        if "exc" in rec:
            return n, "operation raised " + rec["exc"]
        k = op[0]
        new = snap if rec.get("same") else as_map(rec["glob"])
        if k == "ext":
            m = check_branch(rec["ret"][0], tuple(op[1]))
            if m:
                return n, m
            add_shadow(rec["ret"][0])
        elif k == "act":
            got = rec["ret"]
            if coherent(snap, roots, children):
                ORACLE_STATS["act_coherent"] += 1
                ids = expected_active(snap, roots, children)
                if len(got) != len(ids):
                    return n, "extract_active_global_state returned %d branches, independent active units are %r" % (
                        len(got), ids)
            else:
                # a point mass moves while its composite object has no velocity: outside the domain of the
                # clause; the branches handed out must still be correct copies
                ORACLE_STATS["act_incoherent"] += 1
                ids = [tuple(v[-1][0]) if len(v) == 2 and children > 1 else tuple(v[0][0]) for v in got]
            for view, ident in zip(got, ids):
                m = check_branch(view, ident)
                if m:
                    return n, "active part: " + m
                add_shadow(view)
        elif k == "glob":
            got = rec["ret"]
            if len(got) != roots:
                return n, "extract_global_state returned %d root branches" % len(got)
            for i, view in enumerate(got):
                m = check_branch(view, (i,))
                if m:
                    return n, "extract_global_state: " + m
                add_shadow(view)
        elif k == "write":
            shadow[op[1]][op[2]][op[3]][0] = op[4]
        elif k == "new":
            shadow[op[1]][op[2]][op[3]] = [op[4]]
        elif k == "clear":
            shadow[op[1]][op[2]]["v"] = None
            shadow[op[1]][op[2]]["t"] = None
        elif k == "share":
            shadow[op[1]][op[2]][op[5]] = shadow[op[3]][op[4]][op[5]]
        if k == "ins":
            exp = dict(snap)
            for h, view in zip(op[1], rec["pre"]):
                want = [[list(u["id"]), u["p"][0], None if u["v"] is None else u["v"][0],
                         None if u["t"] is None else u["t"][0]] for u in shadow[h]]
                if view != want:
                    return n, "held branch %d changed although nothing was written through it" % h
                for u in view:
                    exp[tuple(u[0])] = (u[1], u[2], u[3])
            if new != exp:
                diff = [kk for kk in exp if exp[kk] != new.get(kk)]
                return n, "after insert the global state is not 'previous state overridden by the inserted " \
                          "values' at %r" % diff[:4]
        elif new != snap:
            diff = [kk for kk in snap if snap[kk] != new.get(kk)]
            return n, "global state changed at %r by a %s operation (no insert)" % (diff[:4], k)
        snap = new
    for h, view in enumerate(out["final"]):
        want = [[list(u["id"]), u["p"][0], None if u["v"] is None else u["v"][0],
                 None if u["t"] is None else u["t"][0]] for u in shadow[h]]
        if view != want:
            return len(seq["ops"]) - 1, "held branch %d changed although nothing was written through it" % h
    return None


# ----------------------------------------------------------------------------------------------------
# Coq terms
def cz(l):
    """list of 64-bit patterns; each as two 32-bit halves (primitive-integer literals parse fast)."""
    return "[" + "; ".join("zb %d %d" % (int(x) >> 32, int(x) & 0xFFFFFFFF) for x in l) + "]"


def coq_ident(k):
    return "(Root %d)" % k[0] if len(k) == 1 else "(Leaf %d %d)" % (k[0], k[1])


def coq_opt(v):
    return "None" if v is None else "(Some %s)" % cz(v)


def coq_unit(u):
    return "(%s, (%s, %s, %s))" % (coq_ident(u[0]), cz(u[1]), coq_opt(u[2]), coq_opt(u[3]))


def coq_view(view):
    return "[" + "; ".join(coq_unit(u) for u in view) + "]"


def coq_op(op):
    k = op[0]
    if k == "ext":
        return "OExtract %s" % coq_ident(op[1])
    if k == "act":
        return "OExtractActive"
    if k == "glob":
        return "OExtractGlobal"
    if k == "write":
        return "OWrite %d %d %s %s" % (op[1], op[2], COQ_FIELD[op[3]], cz(op[4]))
    if k == "new":
        return "ONew %d %d %s %s" % (op[1], op[2], COQ_FIELD[op[3]], cz(op[4]))
    if k == "clear":
        return "OClear %d %d" % (op[1], op[2])
    if k == "share":
        return "OShare %d %d %d %d %s" % (op[1], op[2], op[3], op[4], COQ_FIELD[op[5]])
    if k == "ins":
        return "OInsert [%s]" % "; ".join(str(h) for h in op[1])
    raise ValueError(k)


def case_term(seq, out):
    if any("exc" in r for r in out["steps"]):
        return None
    steps = []
    prev = as_map(out["init"])
    for op, rec in zip(seq["ops"], out["steps"]):
        ret = "[" + "; ".join(coq_view(v) for v in rec.get("ret", [])) + "]"
        diff = []
        if not rec.get("same", False):
            diff = [u for u in rec["glob"] if prev.get(tuple(u[0])) != (u[1], u[2], u[3])]
            if len(rec["glob"]) != len(prev) or not diff:
                diff = rec["glob"]      # shape changed (impossible for a correct implementation): compare all
            prev = as_map(rec["glob"])
        steps.append("(%s, mkExp %s %s %d)" % (coq_op(op), ret, coq_view(diff), rec["alias"]))
    tree = "[" + "; ".join("(%s, [%s])" % (cz(pb), "; ".join(cz(c) for c in cps)) for pb, cps in seq["tree"]) + "]"
    return "mkCase %d %d %s %s %s\n [%s]" % (1 if seq["children"] == 0 else 2, max(seq["children"], 1), tree,
                                           C.coq_bool(seq["disc"]), coq_view(out["init"]), ";\n  ".join(steps))


# ----------------------------------------------------------------------------------------------------
def run_impl(ctx, seqs):
    per = max(1, min(200, (len(seqs) + C.NCPU - 1) // C.NCPU))
    chunks = [seqs[i:i + per] for i in range(0, len(seqs), per)]
    outs = C.run_driver_parallel(ctx, "c13_state", [{"mode": "ops", "seqs": ch} for ch in chunks])
    res = []
    for o in outs:
        res += o["out"]
    return res


def category(msg):
    """failure class of an oracle message; shrinking must keep the class (dropping an op can make the sequence
    invalid, e.g. a write to an attribute that is still None, which is a different failure)."""
    for key, cat in (("operation raised", "exc"), ("global state changed", "changed"), ("after insert", "insert"),
                     ("held branch", "held")):
        if msg.startswith(key):
            return cat
    return "extract"


def shrink(ctx, seq, pred):
    """delete ops (from the end first) while the failure persists; handles must stay valid, so only suffixes
    and single non-extract ops are removed."""
    best = seq
    # shortest failing prefix
    lo, hi = 1, len(seq["ops"])
    while lo < hi:
        mid = (lo + hi) // 2
        s = dict(best, ops=best["ops"][:mid])
        if pred(s):
            hi = mid
        else:
            lo = mid + 1
    best = dict(best, ops=best["ops"][:hi])
    # drop single ops that hand out no branch (so that handles keep their meaning)
    i = len(best["ops"]) - 2
    budget = 60
    while i >= 0 and budget > 0:
        if best["ops"][i][0] in ("write", "new", "clear", "share", "ins"):
            s = dict(best, ops=best["ops"][:i] + best["ops"][i + 1:])
            budget -= 1
            if pred(s):
                best = s
        i -= 1
    return best


REAL_CONFIGS = [
    "config_files/2018_JCP_149_064113/coulomb_atoms/power_bounded.ini",
    "config_files/2018_JCP_149_064113/dipoles/dipole_motion.ini",
    "config_files/2018_JCP_149_064113/dipoles/atom_factors.ini",
    "config_files/2018_JCP_149_064113/dipoles/cell_veto.ini",
    "config_files/2018_JCP_149_064113/water/single_molecule.ini",
    "config_files/2018_JCP_149_064113/water/coulomb_power_bounded_lj_inverted.ini",
    "config_files/hard_disk_dipoles/single_hard_disk_dipole.ini",
    "config_files/2018_JCP_149_064113/coulomb_atoms/cell_veto.ini",
]


def real_runs(ctx, configs=None, debug=None):
    if configs is None:
        n = ctx.n(4, len(REAL_CONFIGS))
        configs = list(REAL_CONFIGS)
        ctx.rng.shuffle(configs)
        configs = configs[:n]
    end = ctx.n("6.0", "40.0")
    payloads = [{"mode": "runs", "config": {
        "ini": c, "seed": ctx.rng.randrange(1 << 30), "check_extract_every": 7,
        "debug": (debug if debug is not None else i % 2 == 0),      # every other run with debug logging on
        "override": [["FinalTimeEndOfRunEventHandler", "end_of_run_time", end]]}} for i, c in enumerate(configs)]
    outs = C.run_driver_parallel(ctx, "c13_state", payloads, timeout=1500)
    return [o["out"][0] for o in outs]


BATCH = 2500


def run(ctx, seqs_override=None, with_real_runs=True, run_configs=None, run_debug=None):
    C.build_scratch(ctx, exts=("heap", "mic", "ipc") if with_real_runs else ())
    broken = []
    ok, out, nthm = C.check_props(ctx)
    if not ok:
        broken.append("Props/C13.v does not check: " + out[-600:])
    nseq = ctx.n(1000, 50000)
    nops = 30

    # ---- op sequences, in batches (a thorough run would not fit in memory otherwise)
    stats = {"kinds": {}, "shapes": set(), "nseq": 0, "ndisc": 0, "ndebug": 0, "undisc_writes": 0, "nsteps": 0, "changed": 0,
             "max_alias": 0, "charge_alias": 0, "distinct": set(), "neval": 0, "nfiles": 0, "nok": 0, "samples": []}
    fails = []          # (sequence, (op index, message))
    mism = []           # sequences on which model and implementation disagree
    first = True
    done = 0
    batch_no = 0
    while True:
        if seqs_override is not None:
            if not first:
                break
            seqs = list(seqs_override)
        else:
            if done >= nseq:
                break
            seqs = []
            if first:
                seqs += load_corpus()
                for r in range(1, 6):       # every shape at least once
                    for c in range(0, 5):
                        seqs.append(gen_seq(ctx.rng, nops, forced=(r, c, ctx.rng.choice([1, 2, 3]), True)))
            while len(seqs) < min(BATCH, nseq - done):
                seqs.append(gen_seq(ctx.rng, nops))
        first = False
        done += len(seqs)
        if not seqs:
            break
        outs = run_impl(ctx, seqs)
        # oracle (model-independent) on the disciplined sequences
        for s, o in zip(seqs, outs):
            if s["disc"]:
                m = oracle(s, o)
                if m:
                    fails.append((s, m))
            elif any("exc" in r for r in o["steps"]):
                fails.append((s, (0, "operation raised an exception")))
        # correspondence inside Coq
        terms, idxmap = [], []
        for i, (s, o) in enumerate(zip(seqs, outs)):
            t = case_term(s, o)
            if t is not None:
                terms.append(t)
                idxmap.append(i)
        neval, bad, nfiles, nok, err = C.eval_cases(ctx, "c13_%03d" % batch_no, HEADER, terms, "check_scase", "scase",
                                                    per_file=64)
        batch_no += 1
        if err:
            broken.append("correspondence case files did not evaluate: " + err[-600:])
        elif not bad and batch_no > 1:
            # keep the scratch small in a thorough run (the .vo of a case file holds all its data)
            for fn in os.listdir(ctx.gen):
                if fn.startswith("cases_c13_%03d_" % (batch_no - 1)) or fn.startswith(".cases_c13_%03d_" % (batch_no - 1)):
                    os.remove(os.path.join(ctx.gen, fn))
        mism += [seqs[idxmap[i]] for i in bad]
        # statistics
        stats["neval"] += neval
        stats["nfiles"] += nfiles
        stats["nok"] += nok
        if not stats["samples"]:
            stats["samples"] = [{"shape": [s["roots"], s["children"], s["dim"]], "disciplined": s["disc"],
                                 "ops": s["ops"][:12]} for s in seqs[:3]]
        for s, o in zip(seqs, outs):
            stats["nseq"] += 1
            stats["ndisc"] += 1 if s["disc"] else 0
            stats["ndebug"] += 1 if s.get("debug") else 0
            stats["undisc_writes"] += s.get("undisciplined_writes", 0)
            stats["shapes"].add((s["roots"], s["children"], s["dim"], s["disc"]))
            stats["nsteps"] += len(s["ops"])
            has_ins = False
            for op in s["ops"]:
                stats["kinds"][op[0]] = stats["kinds"].get(op[0], 0) + 1
                has_ins = has_ins or op[0] == "ins"
            if has_ins:
                stats["distinct"].add(hash(json.dumps(s["ops"])))
            for r in o["steps"]:
                if "glob" in r:
                    stats["changed"] += 1
                if r["alias"] > stats["max_alias"]:
                    stats["max_alias"] = r["alias"]
            stats["charge_alias"] = max(stats["charge_alias"], o.get("charge_alias", 0))
        if fails:
            break       # a failing input is in hand; report it

    # ---- real runs: every commit observed
    runs = []
    run_fail = None
    if with_real_runs and (seqs_override is None or run_configs):
        runs = real_runs(ctx, run_configs, run_debug)
        for r in runs:
            if r.get("exc"):
                broken.append("real run %s did not complete: %s" % (r["config"], r["exc"][-300:]))
            elif r["changed_between_commits"] or r["insert_not_exact"] or r["extract_changed_state"]:
                run_fail = run_fail or r

    # ---- verdict
    if fails:
        seq, (n, m) = fails[0]
        small = seq
        if seq["disc"]:
            try:
                def pred(s):
                    o = run_impl(ctx, [s])[0]
                    r = oracle(s, o)
                    return r is not None and category(r[1]) == category(m)
                small = shrink(ctx, seq, pred)
            except Exception:  # noqa
                small = seq
            mm = oracle(small, run_impl(ctx, [small])[0]) or (n, m)
        else:
            mm = (n, m)
        C.violation(ctx, "oracle", {"kind": "c13-seqs", "seqs": [small], "message": mm[1],
                                    "failing_op_index": mm[0], "n_failing_sequences": len(fails),
                                    "original_length": len(seq["ops"])},
                    "C13 fails on the implementation: " + mm[1])
    elif run_fail:
        C.violation(ctx, "realrun", {"kind": "c13-run", "run": run_fail},
                    "C13 fails on a real run of %s: %d state changes between commits, %d inexact commits, %d "
                    "extractions that changed the state" % (run_fail["config"], run_fail["changed_between_commits"],
                                                            run_fail["insert_not_exact"],
                                                            run_fail["extract_changed_state"]))
    elif mism:
        C.violation(ctx, "correspondence",
                    {"kind": "c13-seqs", "seqs": [mism[0]],
                     "message": "Model/StateHandler.v and TreeStateHandler disagree on %d sequences (returned "
                                "branches, global state after an op, or number of aliased objects); the "
                                "dict-of-values oracle found no failing input; correspondence "
                                "JF.Model.StateHandlerCases.check_scase no longer checks" % len(mism)},
                    "state-handler model and implementation disagree", nofail=True)
    elif broken:
        C.violation(ctx, "obligation", {"kind": "obligation", "broken": broken}, broken[0][:200], nofail=True)

    C.write_evidence(ctx, {
        "evaluations": stats["nsteps"],
        "distinct_nontrivial": len(stats["distinct"]),
        "rule": "distinct op sequences containing at least one insert (payloads are random floats, so two sequences "
                "are never equal); each sequence has >= %d ops on a tree with 1-5 roots x 0-4 children" % nops,
        "samples": stats["samples"],
        "input_distribution": {"sequences": stats["nseq"], "ops_by_kind": stats["kinds"],
                               "tree_shapes_x_dim_x_discipline": len(stats["shapes"]),
                               "disciplined_sequences": stats["ndisc"],
                               "sequences_with_debug_logging_enabled": stats["ndebug"],
                               "undisciplined_writes (through inserted / uncopied branches)": stats["undisc_writes"],
                               "ops_after_which_global_state_changed": stats["changed"],
                               "max_aliased_slots_observed": stats["max_alias"],
                               "extract_active_checked_against_rule (coherent states)": ORACLE_STATS["act_coherent"],
                               "extract_active_in_incoherent_states (copies checked only)": ORACLE_STATS["act_incoherent"],
                               "charge_dict_aliased_slots_max (not part of the property)": stats["charge_alias"]},
        "model_vs_impl_mismatches": len(mism),
        "oracle_failures": len(fails),
        "traces_validated_against_impl": stats["neval"],
        "case_files": stats["nfiles"], "case_files_ok": stats["nok"],
        "real_runs": [{k: r.get(k) for k in ("config", "debug_logging", "commits", "units_inserted", "extracts",
                                              "changed_between_commits", "insert_not_exact", "extract_changed_state")}
                      for r in runs],
        "explanation": "Props/C13.v re-checked (%d theorems); op sequences replayed by Model/StateHandler.v inside Coq "
                       "and compared after every op (branches returned, global state, aliased-object count); "
                       "dict-of-values oracle on disciplined sequences; commits of %d short real runs observed"
                       % (nthm, len(runs)),
        "trusted_base": TRUSTED,
    }, ASSUME)


TRUSTED = [
    "hand-written model coq/Model/StateHandler.v on coq/Base/Store.v (Python lists / Time objects as store cells; "
    "Unit/Node containers as immutable records of the client)",
    "correspondence harness harness/c13.py + drivers/c13_state.py (bit-level serialisation; aliasing observed with id())",
    "real-run observer: class-level wrapper of TreeStateHandler.insert_into_global_state / extract_from_global_state",
]
ASSUME = [
    "the model is tied to the code by differential evaluation on generated op sequences, not by a semantics of Python",
    "theorem hypothesis (client discipline): in-place writes only to objects handed out by a copying extraction or "
    "created by the client and not part of an inserted branch since; extract_global_state hands out the global "
    "objects themselves and insert stores the objects it is given (theorems extract_global_aliases, insert_aliases)",
    "identifiers are inside the tree; velocity and time stamp of an inserted unit are both set or both None",
    "the charge dictionary is shared by all extractions and is outside the property",
]


def load_corpus():
    p = os.path.join(C.VERIF, "corpus", "C13", "seqs.json")
    seqs = json.load(open(p)) if os.path.exists(p) else []
    return seqs + [dict(s, debug=True) for s in seqs]       # every regression sequence also with debug logging on


def replay(ctx, path):
    data = json.load(open(path))
    if data.get("kind") == "c13-run":
        run(ctx, seqs_override=[], run_configs=[data["run"]["config"]], run_debug=data["run"].get("debug_logging"))
    else:
        run(ctx, seqs_override=data.get("seqs", []), with_real_runs=False)
