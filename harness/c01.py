"""C01 — Sampled configurations follow the Boltzmann distribution (DESIGN.md section 5 "C01"): PARTIAL BY NATURE.

What this check carries:
  (1) Props/C01.v: survival law of the event-time sampling, superposition of independent candidates, jump part of
      the global-balance condition as a corollary of C05's flow balance, pair-factor special case;
  (2) handler glue (this file): the REAL send_event_time / send_out_state of the interaction event handlers
      (TwoLeafUnit, TwoLeafUnitBoundingPotential, TwoLeafUnit...PiecewiseConstantBoundingPotential,
      FixedSeparations...PiecewiseConstantBoundingPotential, TwoCompositeObjectSummedBoundingPotential,
      RootUnitActiveTwoLeafUnit, RootUnitActiveTwoCompositeObjectSummedBoundingPotential (molecule mode: the velocity
      of ALL leaves of the active object goes to ALL leaves of the target object, root velocities updated),
      TwoLeafUnitCellBoundingPotential, TwoCompositeObjectCellBoundingPotential (stub cell system; None out-state when
      the active unit left its cell), send_out_state of LeafUnitCellVeto / CompositeObjectCellVeto (empty target cell;
      thinning against the stored bounding rate; lifting)), single calls and 2-4 rounds on ONE handler instance, on
      real Node/Unit in-states with stub potentials and patched draws, against
        (a) a Python oracle in exact rational arithmetic: budget = expovariate(beta) with the configured beta and
            handed to the right call; velocity handed = the active unit's; separation = target - reference through
            the periodic minimum image; candidate time = stamp + displacement; every moving unit time-sliced to the
            event time, the others untouched; the event is confirmed exactly when uniform(0, bound) < derivative;
            the velocity ends on the unit the (re-implemented) lifting scheme selects;
        (b) the Coq model Model/Handlers.v (bit-exact: JF.Model.Periodic / Time / TimeSlice / Lifting reused);
  (3) a fail-closed translation of every shipped .ini: which potential / bounding potential / lifting / charge each
      interaction handler is configured with (evidence), and which correspondence covers that handler class.
NOT decided here (statistical / measure-theoretic, see ASSUME): irreducibility, the transport part of the generator,
convergence of sampled observables to Reference*.dat, agreement between algorithmic variants.
"""
import configparser
import glob
import json
import math
import os
from fractions import Fraction as Fr

import common as C
from common import f2b, b2f

HEADER = ("Require Import JF.Base.F64 JF.Model.Time JF.Model.Lifting JF.Model.Handlers JF.Model.HandlersCases.\n"
          "Open Scope Z_scope.")
KINDS = ["TL", "TLB", "PW2", "FIXED", "SUMMED"]
SCHEMES = {"inside": "InsideFirst", "outside": "OutsideFirst", "ratio": "Ratio"}


# ------------------------------------------------------------------------------------------------
# generation
def dy(rng, lo, hi, den=8):
    return rng.randrange(lo * den, hi * den + 1) / den


def gen_time(rng):
    return [float(rng.choice([0, 1, 2, 7, 1000, 2 ** 30])), rng.choice([0.0, 0.5, rng.random(), rng.random()])]


def gen_env(rng):
    dim = rng.choice([1, 2, 2, 3, 3])
    L = rng.choice([1.0, 1.0, 2.0, 3.5, rng.uniform(0.5, 20.0)])
    return dim, L, rng.choice([1.0, 0.5, 2.0, 3.7, rng.uniform(0.1, 5.0)])


def rpos(rng, dim, L):
    p = [rng.random() * L for _ in range(dim)]
    if rng.random() < 0.15:
        p[rng.randrange(dim)] = rng.choice([0.0, math.nextafter(L, 0.0), L / 2])
    return p


def rvel(rng, dim):
    if rng.random() < 0.7:
        v = [0.0] * dim
        v[rng.randrange(dim)] = rng.choice([1.0, 1.0, 0.5, 2.0, rng.uniform(0.1, 3.0)])
        return v
    return [rng.uniform(-2.0, 2.0) for _ in range(dim)]


def unit(ident, pos, vel=None, ts=None, charge=None, parent=None, weight=1.0):
    return {"id": list(ident), "pos": [f2b(x) for x in pos], "vel": None if vel is None else [f2b(x) for x in vel],
            "ts": None if ts is None else [f2b(ts[0]), f2b(ts[1])], "charge": None if charge is None else f2b(charge),
            "parent": parent, "weight": f2b(weight)}


def composite(rng, units, root_id, n_leaves, dim, L, active_leaf, vel, charge, weight=None, only=None):
    """Append a root and (some of) its leaves; returns the indices of the leaves appended."""
    w = 1.0 / n_leaves if weight is None else weight
    ri = len(units)
    rv = None if active_leaf is None else [c * w for c in vel]
    units.append(unit([root_id], rpos(rng, dim, L), rv, gen_time(rng) if rv is not None else None,
                      0.0 if charge else None, None, 1.0))
    idx = []
    for j in (range(n_leaves) if only is None else only):
        act = (j == active_leaf)
        units.append(unit([root_id, j], rpos(rng, dim, L), vel if act else None, gen_time(rng) if act else None,
                          rng.choice([1.0, -1.0, 0.5, -2.0]) if charge else None, ri, w))
        idx.append(len(units) - 1)
    return idx


def gen_two_leaf_state(rng, dim, L, charge):
    units = []
    vel = rvel(rng, dim)
    shape = rng.choice(["atoms", "same", "different"])
    first_active = rng.random() < 0.5
    if shape == "atoms":
        ids = rng.sample(range(10), 2)
        for k, i in enumerate(ids):
            act = (k == 0) == first_active
            units.append(unit([i], rpos(rng, dim, L), vel if act else None, gen_time(rng) if act else None,
                              rng.choice([1.0, -1.0, 2.5]) if charge else None))
    elif shape == "same":
        composite(rng, units, rng.randrange(10), 2, dim, L, 0 if first_active else 1, vel, charge)
    else:
        ids = rng.sample(range(10), 2)
        n = rng.choice([2, 3])
        for k, rid in enumerate(ids):
            act = (k == 0) == first_active
            j = rng.randrange(n)
            composite(rng, units, rid, n, dim, L, j if act else None, vel, charge, only=[j])
    return units


ENV_KEYS = ("kind", "beta", "dim", "L", "charge", "ncharge", "change_required", "lifting", "offset", "max_disp",
            "separations", "_n")


def cap_budget(rng, job, d1, d2, cap):
    """Energy budget such that the piecewise-constant candidate is (not) capped at max_displacement."""
    cd = max(d1, d2) + b2f(job["offset"])
    if cd <= 0:
        return None
    m = cd * b2f(job["max_disp"])
    return m * rng.choice([1.5, 3.0, 1.0 + 2.0 ** -20]) if cap else m * rng.choice([0.1, 0.5, 0.9])


def gen_case(rng, kind, base=None, cap=None):
    """One round.  With [base] the handler configuration and the setting are those of [base] (same handler instance);
    [cap]: force the piecewise-constant candidate to be capped / not capped where the derivatives allow it."""
    if base is None:
        dim, L, beta = gen_env(rng)
        charge = rng.random() < 0.5
        job = {"kind": kind, "beta": f2b(beta), "dim": dim, "L": f2b(L), "charge": charge,
               "ncharge": 2 if charge else rng.choice([0, 0, 2]), "change_required": True,
               "lifting": rng.choice(list(SCHEMES)),
               "offset": f2b(rng.choice([0.0, 0.5, 1.0, 0.125])),
               "max_disp": f2b(rng.choice([0.125, 0.25, 1.0, 0.3 * L])), "separations": []}
    else:
        job = {k: base[k] for k in ENV_KEYS if k in base}
        dim, L, beta, charge = job["dim"], b2f(job["L"]), b2f(job["beta"]), job["charge"]
    job.update({"ret": {}, "expo": [], "unif": []})
    disp = rng.choice([rng.expovariate(1.0), rng.expovariate(1.0) * 10 ** rng.randrange(-6, 3), 0.0, 0.5, L])
    e = rng.expovariate(1.0) / beta
    if kind in ("TL", "TLB", "PW2"):
        job["units"] = gen_two_leaf_state(rng, dim, L, charge)
    if kind == "TL":
        if base is None:
            job["change_required"] = rng.random() < 0.6
        job["ret"] = {"disp": [f2b(disp)]}
        job["expo"] = [f2b(e)]
    elif kind == "TLB":
        b = dy(rng, 0, 5) + 0.125
        r = rng.choice([dy(rng, -3, 5), b * rng.choice([0.25, 0.5, 1.0])])
        job["ret"] = {"bdisp": [f2b(disp)], "bder": [f2b(b)], "der": [f2b(r)]}
        job["expo"] = [f2b(e)]
        job["unif"] = [f2b(rng.randrange(0, 16) / 16)]
    elif kind == "PW2":
        ders = [dy(rng, -3, 4), dy(rng, -3, 4), dy(rng, -2, 4)]
        if cap:
            ders[2] = abs(ders[2]) + 0.125       # a stale bounding rate would confirm a spurious event
        ce = cap_budget(rng, job, ders[0], ders[1], cap) if cap is not None else None
        job["ret"] = {"der": [f2b(x) for x in ders]}
        job["expo"] = [f2b(e if ce is None else ce)]
        job["unif"] = [f2b(rng.choice([0, 1, 2]) / 16 if cap else rng.randrange(0, 16) / 16)]
    elif kind == "FIXED":
        if base is None:
            job["charge"] = False
            job["ncharge"] = rng.choice([0, 0, 1, 3])
            job["_n"] = rng.choice([3, 3, 4])
            job["separations"] = [rng.randrange(job["_n"]) for _ in range(2 * rng.choice([1, 2, 2, 3]))]
        n = job["_n"]
        units = []
        vel = rvel(rng, dim)
        a = rng.randrange(n)
        if rng.random() < 0.7:
            composite(rng, units, rng.randrange(10), n, dim, L, a, vel, False)
        else:
            for k, i in enumerate(sorted(rng.sample(range(10), n))):
                units.append(unit([i], rpos(rng, dim, L), vel if k == a else None, gen_time(rng) if k == a else None))
        job["units"] = units
        vecs = []
        for _ in range(3):
            v = [dy(rng, -3, 3) for _ in range(n - 1)]
            v.append(-sum(v))
            rng.shuffle(v)
            vecs.append(v)
        if (cap or rng.random() < 0.7) and vecs[2][a] <= 0:
            j = max(range(n), key=lambda k: vecs[2][k])
            vecs[2][a], vecs[2][j] = vecs[2][j], vecs[2][a]
        ce = cap_budget(rng, job, vecs[0][a], vecs[1][a], cap) if cap is not None else None
        job["ret"] = {"der": [[f2b(x) for x in v] for v in vecs]}
        job["expo"] = [f2b(e if ce is None else ce)]
        job["unif"] = [f2b(rng.choice([0, 1, 2]) / 16 if cap else rng.randrange(0, 16) / 16),
                       f2b(rng.randrange(1, 16) / 16), f2b(rng.randrange(1, 16) / 16)]
    elif kind == "SUMMED":
        if base is None:
            job["_n"] = rng.choice([2, 2, 3])
        m = job["_n"]
        ids = rng.sample(range(10), 2)
        units = []
        vel = rvel(rng, dim)
        a = rng.randrange(m)
        act_first = rng.random() < 0.5
        composite(rng, units, ids[0], m, dim, L, a if act_first else None, vel, charge)
        composite(rng, units, ids[1], m, dim, L, None if act_first else a, vel, charge)
        job["units"] = units
        job["ret"] = {"bdisp": [f2b(rng.choice([rng.expovariate(1.0), disp, 0.25])) for _ in range(m)],
                      "bder": [f2b(dy(rng, -1, 4)) for _ in range(m)],
                      "der": [f2b(dy(rng, -2, 3)) for _ in range(m + (m - 1) * m)]}
        if rng.random() < 0.3:
            job["ret"]["bdisp"][rng.randrange(m)] = job["ret"]["bdisp"][0]      # tie in the minimum
        job["expo"] = [f2b(rng.expovariate(1.0) / beta) for _ in range(m)]
        job["unif"] = [f2b(rng.randrange(0, 16) / 16), f2b(rng.randrange(1, 16) / 16), f2b(rng.randrange(1, 16) / 16)]
    return job

NEW_KINDS = ["ROOTTL", "ROOTSUM", "CELLB", "CCELLB", "LCV", "CCV"]


def later_time(rng, ts):
    return [ts[0] + float(rng.choice([0, 0, 1, 3])), rng.random()] if rng.random() < 0.8 else \
        [ts[0] + 1.0, 0.0]


def full_objects(rng, dim, L, charge, m, mode):
    """Two composite objects with m leaves each.  mode "root": every leaf of the first or second object (and its root)
    moves with the same velocity; mode "leaf": one leaf moves (root velocity = weight * leaf velocity)."""
    ids = rng.sample(range(10), 2)
    vel = rvel(rng, dim)
    act_first = rng.random() < 0.5
    units = []
    for k, rid in enumerate(ids):
        active = (k == 0) == act_first
        if mode == "leaf":
            composite(rng, units, rid, m, dim, L, rng.randrange(m) if active else None, vel, charge)
        else:
            ri = len(units)
            units.append(unit([rid], rpos(rng, dim, L), vel if active else None, gen_time(rng) if active else None,
                              0.0 if charge else None, None, 1.0))
            for j in range(m):
                units.append(unit([rid, j], rpos(rng, dim, L), vel if active else None,
                                  gen_time(rng) if active else None,
                                  rng.choice([1.0, -1.0, 0.5, -2.0]) if charge else None, ri, 1.0 / m))
    return units


def gen_new_case(rng, kind, base=None):
    if base is None:
        dim, L, beta = gen_env(rng)
        charge = rng.random() < 0.5
        job = {"kind": kind, "beta": f2b(beta), "dim": dim, "L": f2b(L), "charge": charge,
               "ncharge": 2 if charge else rng.choice([0, 0, 2]), "change_required": rng.random() < 0.6,
               "lifting": rng.choice(list(SCHEMES)), "offset": f2b(0.0), "max_disp": f2b(1.0), "separations": [],
               "_n": rng.choice([2, 2, 3])}
    else:
        job = {k: base[k] for k in ENV_KEYS if k in base}
        dim, L, beta, charge = job["dim"], b2f(job["L"]), b2f(job["beta"]), job["charge"]
    job.update({"ret": {}, "expo": [], "unif": []})
    m = job["_n"]
    disp = rng.choice([rng.expovariate(1.0), rng.expovariate(1.0) * 10 ** rng.randrange(-6, 2), 0.0, 0.5, L])
    e = rng.expovariate(1.0) / beta
    u16 = lambda lo=0: f2b(rng.randrange(lo, 16) / 16)      # noqa
    if kind == "ROOTTL":
        units2 = full_objects(rng, dim, L, charge, m, "root")
        picks = [rng.randrange(m), rng.randrange(m)]
        units = []
        for k in range(2):
            root = dict(units2[k * (m + 1)])
            leaf = dict(units2[k * (m + 1) + 1 + picks[k]])
            leaf["parent"] = len(units)
            units += [root, leaf]
        job.update(units=units, units2=units2, ret={"disp": [f2b(disp)]}, expo=[f2b(e)])
    elif kind == "ROOTSUM":
        units = full_objects(rng, dim, L, charge, m, "root")
        n = m * m
        bd = [rng.choice([rng.expovariate(1.0), disp, 0.25]) for _ in range(n)]
        job.update(units=units, units2=json.loads(json.dumps(units)),
                   ret={"bdisp": [f2b(x) for x in bd], "bder": [f2b(dy(rng, -1, 3)) for _ in range(n)],
                        "der": [f2b(dy(rng, -2, 3)) for _ in range(n)]},
                   expo=[f2b(rng.expovariate(1.0) / beta) for _ in range(n)], unif=[u16()])
    elif kind in ("CELLB", "CCELLB"):
        c_act, c_oth = rng.sample(range(1, 50), 2)
        left = rng.random() < 0.25
        job["cells"] = {"tokens": [c_act, c_oth, rng.choice([x for x in range(1, 50) if x != c_act]) if left else c_act],
                        "relative": rng.randrange(1, 200)}
        if kind == "CELLB":
            b = dy(rng, 0, 5) + 0.125
            r = rng.choice([dy(rng, -3, 5), b * rng.choice([0.25, 0.5, 1.0])])
            job.update(units=gen_two_leaf_state(rng, dim, L, charge),
                       ret={"bdisp": [f2b(disp)], "bder": [f2b(b)], "der": [f2b(r)]}, expo=[f2b(e)], unif=[u16()])
        else:
            job.update(units=full_objects(rng, dim, L, charge, m, "leaf"),
                       ret={"bdisp": [f2b(disp)], "bder": [f2b(dy(rng, 0, 6) + 0.125)],
                            "der": [f2b(dy(rng, -2, 3)) for _ in range(m + (m - 1) * m)]},
                       expo=[f2b(e)], unif=[u16(), u16(1), u16(1)])
    elif kind == "LCV":
        vel = [0.0] * dim
        vel[rng.randrange(dim)] = rng.choice([1.0, 0.5, 2.0, rng.uniform(0.1, 3.0)])
        ids = rng.sample(range(10), 2)
        composite_mode = rng.random() < 0.5

        def one(rid, active):
            us = []
            if composite_mode:
                j = rng.randrange(m)
                composite(rng, us, rid, m, dim, L, j if active else None, vel, charge, only=[j])
            else:
                us.append(unit([rid], rpos(rng, dim, L), vel if active else None, gen_time(rng) if active else None,
                               rng.choice([1.0, -1.0, 2.5]) if charge else None))
            return us
        units = one(ids[0], True)
        ts = [b2f(x) for x in units[-1]["ts"]]
        b = dy(rng, 0, 5) + 0.125
        r = rng.choice([dy(rng, -3, 5), b * rng.choice([0.25, 0.5, 1.0])])
        job.update(units=units, target=None if rng.random() < 0.3 else one(ids[1], False),
                   T=[f2b(x) for x in later_time(rng, ts)], b=f2b(b), ret={"der": [f2b(r)]}, unif=[u16()])
    elif kind == "CCV":
        vel = [0.0] * dim
        vel[rng.randrange(dim)] = rng.choice([1.0, 0.5, 2.0, rng.uniform(0.1, 3.0)])
        ids = rng.sample(range(10), 2)
        units, target = [], []
        composite(rng, units, ids[0], m, dim, L, rng.randrange(m), vel, charge)
        composite(rng, target, ids[1], m, dim, L, None, vel, charge)
        act = [u for u in units if u["vel"] is not None and u["parent"] is not None][0]
        ts = [b2f(x) for x in act["ts"]]
        # the root and the leaf of a real global state carry the same time stamp or not; both are fine
        job.update(units=units, target=None if rng.random() < 0.25 else target,
                   T=[f2b(x) for x in later_time(rng, [max(ts[0], b2f(units[0]["ts"][0])), 0.0])],
                   b=f2b(dy(rng, 0, 6) + 0.125),
                   ret={"der": [f2b(dy(rng, -2, 3)) for _ in range(m + (m - 1) * m)]}, unif=[u16(), u16(1), u16(1)])
    return job


ROUND_KEYS = ("units", "units2", "target", "T", "b", "cells", "ret", "expo", "unif", "do_out")


def gen_seq(rng, kind):
    """2-4 rounds (send_event_time [, send_out_state]) on ONE handler instance, as in the real program; for the
    piecewise-constant handlers capped and uncapped candidates alternate."""
    cap = rng.random() < 0.5 if kind in ("PW2", "FIXED") else None
    gen = (lambda base, c: gen_new_case(rng, kind, base)) if kind in NEW_KINDS else \
        (lambda base, c: gen_case(rng, kind, base, c))
    first = gen(None, cap)
    rounds = [first]
    for _ in range(rng.choice([1, 2, 2, 3])):
        if cap is not None:
            cap = not cap if rng.random() < 0.85 else cap
        rounds.append(gen(first, cap))
    for k, rd in enumerate(rounds):
        # the last round and every capped round is committed; earlier ones are sometimes trashed
        rd["do_out"] = True if (k == len(rounds) - 1 or rng.random() < 0.65 or kind in ("LCV", "CCV")) else False
    job = {k: first[k] for k in ENV_KEYS if k in first}
    job["rounds"] = [{k: rd[k] for k in ROUND_KEYS if k in rd} for rd in rounds]
    return job


def flatten(job):
    """The rounds of a job as stand-alone single-round jobs (the model carries no state between rounds)."""
    if not job.get("rounds"):
        return [job]
    env = {k: v for k, v in job.items() if k != "rounds"}
    return [dict(env, **rd) for rd in job["rounds"]]


# ------------------------------------------------------------------------------------------------
# Coq terms
def cf(b):
    return "(of_bits %d)" % int(b)


def cfl(bs):
    return C.coq_list([cf(b) for b in bs])


def ctime(t):
    return "(mkTime %s %s)" % (cf(t[0]), cf(t[1]))


def copt(x, f):
    return "None" if x is None else "(Some %s)" % f(x)


def czl(ids):
    return C.coq_list([C.coq_z(i) for i in ids])


NANB = f2b(float("nan"))


def coq_hunit(u):
    return "(mkHU %s %s %s %s %s %s %s)" % (
        czl(u["id"]), cfl(u["pos"]), copt(u["vel"], cfl), copt(u["ts"], ctime),
        cf(NANB if u["charge"] is None else u["charge"]),
        "None" if u["parent"] is None else "(Some %d%%nat)" % u["parent"], cf(u["weight"]))


def coq_ounit(o):
    return "(%s, %s, %s, %s)" % (czl(o[0]), cfl(o[1]), copt(o[2], cfl), copt(o[3], ctime))


def coq_case(job, res):
    if "exc" in res:
        return None
    kind = job["kind"]
    job = dict(job)
    ret = dict(job["ret"])
    units = job["units"]
    if kind in ("CELLB", "CCELLB"):
        ret["disp"] = [f2b(float(job["cells"]["relative"]))]
    if kind in ("LCV", "CCV"):
        n0 = len(units)
        tgt = [dict(u, parent=None if u["parent"] is None else u["parent"] + n0) for u in (job["target"] or [])]
        units = units + tgt
        job["separations"] = [n0]
        ret["bdisp"] = list(job["T"])
        ret["bder"] = [job["b"]]
    job["ret"] = ret
    job["units"] = units

    def csep(s_):
        return cfl([f2b(float(s_[1]))]) if s_ and s_[0] == "cell" else cfl(s_)
    env = "(mkEnv %s %d%%nat %s %s %d%%nat %s %s %s %s %s)" % (
        cf(job["beta"]), job["dim"], cf(job["L"]), C.coq_bool(job["charge"]), job["ncharge"],
        C.coq_bool(job["change_required"]), cf(job["offset"]), cf(job["max_disp"]),
        C.coq_list(["%d%%nat" % i for i in job["separations"]]), SCHEMES[job["lifting"]])
    ret = job["ret"]
    fixed = job["kind"] == "FIXED"
    fd = "(mkFeeds %s %s %s %s %s %s %s)" % (
        cfl(ret.get("disp", [])), cfl(ret.get("bdisp", [])), cfl([] if fixed else ret.get("der", [])),
        cfl(ret.get("bder", [])), C.coq_list([cfl(v) for v in ret["der"]]) if fixed else "[]",
        cfl(job["expo"]), cfl(job["unif"]))
    calls = C.coq_list(["(mkPC %d%%nat %s %s %s %s)" % (c[0], cfl(c[1]), C.coq_list([csep(s) for s in c[2]]), cfl(c[3]),
                                                         copt(c[4], cf)) for c in res["calls"]])
    if kind in ("ROOTTL", "ROOTSUM") and res["out"] not in (None, "skipped"):
        return "HCase2 %s %s %s\n %s\n %s\n %s %s\n %s\n %s\n %s\n %s\n %s" % (
            kind, env, fd, C.coq_list([coq_hunit(u) for u in job["units"]]),
            C.coq_list([coq_hunit(u) for u in job["units2"]]),
            cfl(res["expo_args"]), C.coq_list(["(%s, %s)" % (cf(a), cf(b)) for a, b in res["unif_args"]]), calls,
            ctime(res["time"]), C.coq_list([coq_ounit(o) for o in res["state1"]]),
            C.coq_list([coq_ounit(o) for o in res["out"]]), "[]")
    if res["out"] in (None, "skipped"):
        return "HCaseET %s %s %s\n %s\n %s %s\n %s\n %s" % (
            job["kind"], env, fd, C.coq_list([coq_hunit(u) for u in job["units"]]), cfl(res["expo_args"]), calls,
            ctime(res["time"]), C.coq_list([coq_ounit(o) for o in res["state1"]]))
    return "HCase %s %s %s\n %s\n %s %s\n %s\n %s\n %s\n %s\n %s" % (
        job["kind"], env, fd, C.coq_list([coq_hunit(u) for u in job["units"]]),
        cfl(res["expo_args"]), C.coq_list(["(%s, %s)" % (cf(a), cf(b)) for a, b in res["unif_args"]]), calls,
        ctime(res["time"]), C.coq_list([coq_ounit(o) for o in res["state1"]]),
        C.coq_list([coq_ounit(o) for o in res["out"]]),
        C.coq_list(["(%s, %s, %s)" % (cf(r), czl(i), C.coq_bool(a)) for r, i, a in res["inserts"]]))


# ------------------------------------------------------------------------------------------------
# Python oracle (exact rationals; independent of the Coq model)
def fr(b):
    return Fr(b2f(b))


def tval(t):
    return fr(t[0]) + fr(t[1])


def is_leaf(units, i):
    return not any(u["parent"] == i for u in units)


def minimum_image_ok(sep_bits, ref_bits, tgt_bits, L):
    """sep == tgt - ref modulo L (up to float rounding) and |sep| <= L/2."""
    Lq = Fr(L)
    tol = Fr(math.ulp(L)) * 4
    for s, r, t in zip(sep_bits, ref_bits, tgt_bits):
        s, d = fr(s), fr(t) - fr(r)
        k = round((d - s) / Lq)
        if abs(d - s - k * Lq) > tol or abs(s) > Lq / 2 + tol:
            return False
    return len(sep_bits) == len(ref_bits)


def lifting_oracle(scheme, table, active, u1, u2):
    """table: list of Fraction rates in insertion order; returns the index selected."""
    neg, negi, pos_, seen = [], [], Fr(0), False
    for i, r in enumerate(table):
        if r > 0:
            if i == active:
                seen = True
                pos_ += u1 * r
            elif not seen:
                pos_ += r
        else:
            neg.append(-r)
            negi.append(i)
    if scheme == "outside":
        pos_ = sum(neg) - pos_
    elif scheme == "ratio":
        pos_ = u2 * sum(neg)
    acc = Fr(0)
    for i, r in zip(negi, neg):
        acc += r
        if pos_ <= acc:
            return i
    return negi[-1]


def slicing_fails(job, units, dumped, T, what):
    """Every unit with a velocity is at  position + velocity * (T - stamp)  (mod L) with stamp T; others untouched."""
    fails = []
    L = b2f(job["L"])
    Lq = Fr(L)
    by_id = {tuple(o[0]): o for o in dumped}
    for u in units:
        o = by_id[tuple(u["id"])]
        if u["vel"] is None:
            if o[1] != u["pos"] or o[2] is not None or o[3] is not None:
                fails.append("%s: unit %r without velocity changed" % (what, u["id"]))
            continue
        if o[3] != T or o[2] != u["vel"]:
            fails.append("%s: moving unit %r: time stamp / velocity" % (what, u["id"]))
        dt = tval(T) - tval(u["ts"])
        for d in range(job["dim"]):
            want = fr(u["pos"][d]) + fr(u["vel"][d]) * dt
            got = fr(o[1][d])
            k = round((want - got) / Lq)
            tol = Fr(math.ulp(L)) * 4 + abs(fr(u["vel"][d])) * Fr(math.ulp(max(1.0, float(abs(tval(T)))))) * 4 \
                + abs(want) * Fr(2) ** -50
            if abs(want - got - k * Lq) > tol or not (0 <= got < Lq):
                fails.append("%s: moving unit %r not time-sliced to the event time in direction %d" % (what, u["id"], d))
    return fails


def split_objects(units, leaves):
    srt = sorted(leaves, key=lambda i: units[i]["id"])
    half = len(srt) // 2
    if all(units[i]["vel"] is None for i in srt[half:]):
        return srt[:half], srt[half:]
    return srt[half:], srt[:half]


def composite_out_oracle(job, res, fails, units, pos1, a, loc, tgt, ber, calls, der, use_rate, u_draws, ch_pair, L):
    """Out-state of a composite-object event with known bounding rate: returns the index of the expected carrier."""
    nt = len(tgt)
    fdv = sum(der[:nt])
    rate_ev = max(Fr(0), fdv)
    if rate_ev <= u_draws[0] * ber:
        if len(calls) != nt or res["inserts"]:
            fails.append("event not confirmed, but the lifting table was filled")
        return a
    others = [i for i in loc if i != a]
    pd = {(i, t): der[nt + r_ * nt + k] for r_, i in enumerate(others) for k, t in enumerate(tgt)}
    table = {i: ((rate_ev if use_rate else fdv) if i == a else sum(pd[(i, t)] for t in tgt)) for i in loc}
    for k, t in enumerate(tgt):
        table[t] = -der[k] - sum(pd[(i, t)] for i in others)
    order = loc + tgt if units[loc[0]]["id"][0] < units[tgt[0]]["id"][0] else tgt + loc
    if sum(table.values()) != 0:
        fails.append("derivative table handed to the lifting does not sum to zero")
    sel = order[lifting_oracle(job["lifting"], [table[i] for i in order], order.index(a), u_draws[1], u_draws[2])]
    if [[fr(x[0]), x[1], x[2]] for x in res["inserts"]] != [[table[i], units[i]["id"], i == a] for i in order]:
        fails.append("lifting.insert calls are not the factor's derivative table in composite-object order")
    if table[sel] >= 0:
        fails.append("the lifting selected a unit with non-negative derivative")
    cs = calls[nt:]
    k = 0
    for i in others:
        for t in tgt:
            if k < len(cs):
                if not minimum_image_ok(cs[k][2][0], pos1(i), pos1(t), L):
                    fails.append("separation handed to the potential (lifting table) is not target - reference")
                if cs[k][3] != ch_pair(i, t):
                    fails.append("charges handed to the potential while filling the lifting table")
            k += 1
    if k != len(cs):
        fails.append("number of potential.derivative calls while filling the lifting table")
    return sel


def oracle_new(job, res):
    """ROOTTL, ROOTSUM, CELLB, CCELLB, LCV, CCV."""
    if "exc" in res:
        return ["handler raised " + res["exc"]]
    fails = []
    kind = job["kind"]
    L, beta = b2f(job["L"]), job["beta"]
    units = job["units"]
    if kind in ("LCV", "CCV"):
        n0 = len(units)
        units = units + [dict(u, parent=None if u["parent"] is None else u["parent"] + n0)
                         for u in (job["target"] or [])]
    leaves = [i for i in range(len(units)) if is_leaf(units, i)]
    calls, n1, T = res["calls"], res["n_calls1"], res["time"]
    s1 = {tuple(o[0]): o for o in res["state1"]}
    u_draws = [fr(x) for x in job["unif"]]

    def pos0(i):
        return units[i]["pos"]

    def pos1(i):
        return s1[tuple(units[i]["id"])][1]

    def ch_pair(x, y):
        return [units[x]["charge"], units[y]["charge"]] if job["charge"] else [f2b(1.0)] * job["ncharge"]

    def sep_ok(c, ref, tgt_, what):
        if not minimum_image_ok(c[2][0], ref, tgt_, L):
            fails.append("separation handed to the potential (%s) is not target - reference through the minimum image"
                         % what)

    def moved(out_units, base_units):
        m_ = {tuple(o[0]): o for o in out_units}
        return [u["id"] for u in base_units if (m_[tuple(u["id"])][2] is None) != (u["vel"] is None)]
    # ------------------------------------------------------------------ root-unit-active handlers
    if kind in ("ROOTTL", "ROOTSUM"):
        loc, tgt = split_objects(units, leaves)
        if kind == "ROOTTL":
            a, o = loc[0], tgt[0]
            n_expo = 1 if job["change_required"] else 0
            if n1 != 1 or calls[0][0] != 0:
                fails.append("expected exactly one potential.displacement call")
            else:
                sep_ok(calls[0], pos0(a), pos0(o), "event time")
                if calls[0][1] != units[a]["vel"]:
                    fails.append("velocity handed to the potential is not the active unit's")
                if calls[0][4] != (job["expo"][0] if job["change_required"] else None):
                    fails.append("potential change handed to displacement is not the expovariate draw")
                if calls[0][3] != ch_pair(leaves[0], leaves[1]):
                    fails.append("charges handed to the potential")
            disp = fr(job["ret"]["disp"][0])
            confirmed = True
        else:
            pairs = [(l_, t) for l_ in loc for t in tgt]
            n_expo = len(pairs)
            if n1 != len(pairs) or any(c[0] != 2 for c in calls[:n1]):
                fails.append("expected one bounding_potential.displacement call per (local, target) pair")
            else:
                for k, (l_, t) in enumerate(pairs):
                    sep_ok(calls[k], pos0(l_), pos0(t), "event time, pair %d" % k)
                    if calls[k][1] != units[l_]["vel"] or calls[k][4] != job["expo"][k] or calls[k][3] != ch_pair(l_, t):
                        fails.append("pair %d: velocity / own expovariate draw / charges handed to the bounding potential" % k)
            disp = min(fr(x) for x in job["ret"]["bdisp"][:len(pairs)])
            a = loc[0]
            ber = sum(max(Fr(0), fr(x)) for x in job["ret"]["bder"][:len(pairs)])
            fdv = sum(fr(x) for x in job["ret"]["der"][:len(pairs)])
            confirmed = fdv > 0 and u_draws[0] * ber < fdv
            if res["out"] != "skipped":
                cs = calls[n1:]
                if len(cs) != 2 * len(pairs):
                    fails.append("expected a bounding and a potential derivative call per pair in send_out_state")
                else:
                    for k, (l_, t) in enumerate(pairs):
                        for c in cs[2 * k: 2 * k + 2]:
                            sep_ok(c, pos1(l_), pos1(t), "out-state, pair %d" % k)
        if res["expo_args"] != [beta] * n_expo:
            fails.append("random.expovariate called with %r, expected %d call(s) with setting.beta = %r"
                         % ([b2f(x) for x in res["expo_args"]], n_expo, b2f(beta)))
        exact = tval(units[a]["ts"]) + disp
        if abs(tval(T) - exact) > Fr(math.ulp(max(1.0, float(exact)))):
            fails.append("candidate event time %r is not stamp + displacement = %r" % (float(tval(T)), float(exact)))
        fails += slicing_fails(job, units, res["state1"], T, "send_event_time")
        if res["out"] == "skipped":
            return fails
        # out-state = the fresh root cnodes, time-sliced, velocity of the whole object passed on
        u2 = job["units2"]
        out = {tuple(o[0]): o for o in res["out"]}
        leaves2 = [i for i in range(len(u2)) if is_leaf(u2, i)]
        loc2, tgt2 = split_objects(u2, leaves2)
        v = u2[loc2[0]]["vel"]
        if not confirmed:
            fails += slicing_fails(job, u2, res["out"], T, "send_out_state (not confirmed)")
            return fails
        for i in range(len(u2)):
            o = out[tuple(u2[i]["id"])]
            # positions: moving units of the fresh state are time-sliced, the others keep their position
            if u2[i]["vel"] is None and o[1] != u2[i]["pos"]:
                fails.append("send_out_state: resting unit %r moved" % u2[i]["id"])
        sl = [dict(u) for u in u2]
        pos_fail = slicing_fails(job, [u for u in u2 if u["vel"] is not None],
                                 [[o[0], o[1], u["vel"], T] for u in u2 if u["vel"] is not None
                                  for o in [out[tuple(u["id"])]]], T, "send_out_state")
        fails += [f for f in pos_fail if "time-sliced" in f]
        for i in loc2:
            o = out[tuple(u2[i]["id"])]
            if o[2] is not None or o[3] is not None:
                fails.append("leaf %r of the previously active object still carries a velocity" % u2[i]["id"])
        for i in tgt2:
            o = out[tuple(u2[i]["id"])]
            if o[2] != v or o[3] != T:
                fails.append("leaf %r of the target object did not receive the velocity / the event time" % u2[i]["id"])
        for grp, sign in ((loc2, 0), (tgt2, 1)):
            p = u2[grp[0]]["parent"]
            if p is None:
                continue
            o = out[tuple(u2[p]["id"])]
            if sign == 0:
                if o[2] is not None:
                    fails.append("root of the previously active object keeps velocity %r" % [b2f(x) for x in o[2]])
            else:
                want = [fr(c) * sum(fr(u2[i]["weight"]) for i in grp) for c in v]
                if o[2] is None or o[3] != T or any(abs(fr(g_) - w_) > Fr(1, 2 ** 40) * (1 + abs(w_))
                                                    for g_, w_ in zip(o[2], want)):
                    fails.append("root of the target object: velocity is not the sum of weight * velocity of its leaves")
        return fails
    # ------------------------------------------------------------------ cell-bounding handlers
    if kind in ("CELLB", "CCELLB"):
        cells = job["cells"]
        act = [i for i in leaves if units[i]["vel"] is not None]
        a = act[0]
        if kind == "CELLB":
            other = [i for i in leaves if i != a][0]
            cell_units = (a, other)
            bch = ch_pair(leaves[0], leaves[1])
        else:
            loc, tgt = split_objects(units, leaves)
            roots = [i for i in range(len(units)) if units[i]["parent"] is None]
            ar = units[a]["parent"]
            cell_units = (ar, [i for i in roots if i != ar][0])
            bch = ([units[a]["charge"]] + [units[t]["charge"] for t in tgt]) if job["charge"] else \
                [f2b(1.0)] * job["ncharge"]
        if res["expo_args"] != [beta]:
            fails.append("random.expovariate called with %r, expected one call with setting.beta = %r"
                         % ([b2f(x) for x in res["expo_args"]], b2f(beta)))
        want_cells = [["p2c", pos0(cell_units[0])], ["p2c", pos0(cell_units[1])], ["rel", cells["tokens"][1], cells["tokens"][0]]]
        if res["cells"][:3] != want_cells:
            fails.append("cells consulted in send_event_time: not cell(active), cell(other), relative_cell(other, active)")
        if n1 != 1 or calls[0][0] != 2 or calls[0][2] != [["cell", cells["relative"]]]:
            fails.append("expected one bounding_potential.displacement call with the relative cell")
        elif calls[0][1] != units[a]["vel"] or calls[0][4] != job["expo"][0] or calls[0][3] != bch:
            fails.append("velocity / expovariate draw / charges handed to the cell bounding potential")
        exact = tval(units[a]["ts"]) + fr(job["ret"]["bdisp"][0])
        if abs(tval(T) - exact) > Fr(math.ulp(max(1.0, float(exact)))):
            fails.append("candidate event time %r is not stamp + displacement = %r" % (float(tval(T)), float(exact)))
        fails += slicing_fails(job, units, res["state1"], T, "send_event_time")
        if res["out"] == "skipped":
            return fails
        left = cells["tokens"][2] != cells["tokens"][0]
        if res["cells"][3:] != [["p2c", pos1(cell_units[0])]]:
            fails.append("send_out_state did not look up the cell of the time-sliced active unit")
        if left:
            if res["out"] is not None or len(calls) != n1 or res["unif_args"]:
                fails.append("the active unit left its cell: send_out_state must return None without consulting anything")
            return fails
        if res["out"] is None:
            return fails + ["send_out_state returned None although the active unit is still in its cell"]
        cs = calls[n1:]
        if not cs or cs[0][0] != 3 or cs[0][2] != [["cell", cells["relative"]]] or cs[0][3] != bch:
            return fails + ["expected bounding_potential.derivative(velocity, relative cell, charges) first"]
        b = fr(job["ret"]["bder"][0])
        if kind == "CELLB":
            r = fr(job["ret"]["der"][0])
            if len(cs) != 2:
                fails.append("expected one potential.derivative call")
            else:
                sep_ok(cs[1], pos1(a), pos1(other), "out-state")
            expected = other if (r > 0 and u_draws[0] * b < r) else a
        else:
            der = [fr(x) for x in job["ret"]["der"]]
            for k, t in enumerate(tgt):
                if 1 + k < len(cs):
                    sep_ok(cs[1 + k], pos1(a), pos1(t), "out-state, target %d" % k)
            expected = composite_out_oracle(job, res, fails, units, pos1, a, loc, tgt, b, cs[1:], der, False, u_draws,
                                            ch_pair, L)
    # ------------------------------------------------------------------ cell veto, send_out_state
    else:
        act = [i for i in leaves if units[i]["vel"] is not None]
        a = act[0]
        fails += slicing_fails(job, units, res["state1"], T, "prepared state")
        b = fr(job["b"])
        if job["target"] is None:
            if calls or res["unif_args"] or res["inserts"] or moved(res["out"], units):
                fails.append("empty target cell: send_out_state must change nothing and consult nothing")
            return fails
        if kind == "LCV":
            other = [i for i in leaves if i != a][0]
            r = fr(job["ret"]["der"][0])
            if len(calls) != 1 or calls[0][0] != 1:
                fails.append("expected one potential.derivative call")
            else:
                sep_ok(calls[0], pos1(a), pos1(other), "out-state")
                if calls[0][3] != ch_pair(leaves[0], leaves[1]) or calls[0][1] != units[a]["vel"]:
                    fails.append("velocity / charges handed to the potential")
            expected = other if (r > 0 and u_draws[0] * b < r) else a
            if r > 0 and res["unif_args"] != [[0, job["b"]]]:
                fails.append("thinning draw is not uniform(0, stored bounding event rate)")
        else:
            loc, tgt = split_objects(units, leaves)
            der = [fr(x) for x in job["ret"]["der"]]
            for k, t in enumerate(tgt):
                if k < len(calls):
                    sep_ok(calls[k], pos1(a), pos1(t), "out-state, target %d" % k)
            if not res["unif_args"] or res["unif_args"][0] != [0, job["b"]]:
                fails.append("thinning draw is not uniform(0.0, stored bounding event rate)")
            expected = composite_out_oracle(job, res, fails, units, pos1, a, loc, tgt, b, calls, der, False, u_draws,
                                            ch_pair, L)
    s2 = {tuple(o[0]): o for o in res["out"]}
    carriers = [i for i in leaves if s2[tuple(units[i]["id"])][2] is not None]
    if carriers != [expected]:
        fails.append("after send_out_state the velocity is on leaf unit(s) %r, expected %r"
                     % ([units[i]["id"] for i in carriers], units[expected]["id"]))
    else:
        o = s2[tuple(units[expected]["id"])]
        if o[2] != units[a]["vel"] or o[3] != T:
            fails.append("the unit that received the velocity does not carry the active velocity / the event time")
    return fails


def oracle(job, res):
    """Returns a list of failure messages (empty = the stated facts hold on this run of the real handler)."""
    if job["kind"] in NEW_KINDS:
        return oracle_new(job, res)
    if "exc" in res:
        return ["handler raised " + res["exc"]]
    fails = []
    units, kind = job["units"], job["kind"]
    L, beta = b2f(job["L"]), job["beta"]
    leaves = [i for i in range(len(units)) if is_leaf(units, i)]
    act = [i for i in leaves if units[i]["vel"] is not None]
    if len(act) != 1:
        return ["generator: not exactly one active leaf"]
    a = act[0]
    ua = units[a]
    calls, n1 = res["calls"], res["n_calls1"]
    s1 = {tuple(o[0]): o for o in res["state1"]}
    s2 = {tuple(o[0]): o for o in res["out"]} if res["out"] not in (None, "skipped") else None
    T = res["time"]
    # --- budget
    n_expo = {"TL": 1 if job["change_required"] else 0, "TLB": 1, "PW2": 1, "FIXED": 1}.get(kind)
    if kind == "SUMMED":
        n_expo = len(leaves) // 2
    if res["expo_args"] != [beta] * n_expo:
        fails.append("random.expovariate called with %r, expected %d call(s) with setting.beta = %r"
                     % ([b2f(x) for x in res["expo_args"]], n_expo, b2f(beta)))
    # --- velocity handed to the potentials
    if any(c[1] != ua["vel"] for c in calls):
        fails.append("a potential was called with a velocity that is not the active unit's")
    # --- who is paired with whom
    srt = sorted(leaves, key=lambda i: units[i]["id"])
    half = len(srt) // 2
    if kind == "SUMMED":
        second_idle = all(units[i]["vel"] is None for i in srt[half:])
        loc, tgt = (srt[:half], srt[half:]) if second_idle else (srt[half:], srt[:half])
    other = [i for i in leaves if i != a][0] if kind in ("TL", "TLB", "PW2") else None

    def pos0(i):
        return units[i]["pos"]

    def pos1(i):
        return s1[tuple(units[i]["id"])][1]

    def check_sep(c, k, ref, tgt_, what):
        if not minimum_image_ok(c[2][k], ref, tgt_, L):
            fails.append("separation handed to the potential (%s) is not target - reference through the minimum image"
                         % what)

    def ch_pair(x, y):
        return [units[x]["charge"], units[y]["charge"]] if job["charge"] else [f2b(1.0)] * job["ncharge"]
    disp = None
    if kind == "TL":
        if len(calls) != 1 or calls[0][0] != 0:
            fails.append("expected exactly one potential.displacement call")
        else:
            check_sep(calls[0], 0, pos0(a), pos0(other), "event time")
            if calls[0][4] != (job["expo"][0] if job["change_required"] else None):
                fails.append("potential change handed to displacement is not the expovariate draw")
            if calls[0][3] != ch_pair(leaves[0], leaves[1]):
                fails.append("charges handed to the potential")
        disp = fr(job["ret"]["disp"][0])
    elif kind == "TLB":
        if n1 != 1 or calls[0][0] != 2:
            fails.append("expected exactly one bounding_potential.displacement call in send_event_time")
        else:
            check_sep(calls[0], 0, pos0(a), pos0(other), "event time")
            if calls[0][4] != job["expo"][0]:
                fails.append("potential change handed to the bounding potential is not the expovariate draw")
            if calls[0][3] != ch_pair(leaves[0], leaves[1]):
                fails.append("charges handed to the bounding potential")
        disp = fr(job["ret"]["bdisp"][0])
    elif kind == "SUMMED":
        if n1 != len(tgt) or any(c[0] != 2 for c in calls[:n1]):
            fails.append("expected one bounding_potential.displacement call per target unit")
        else:
            for k, t in enumerate(tgt):
                check_sep(calls[k], 0, pos0(a), pos0(t), "event time, target %d" % k)
                if calls[k][4] != job["expo"][k]:
                    fails.append("target %d: potential change is not its own expovariate draw" % k)
                if calls[k][3] != ch_pair(a, t):
                    fails.append("charges handed to the bounding potential (target %d)" % k)
        disp = min(fr(x) for x in job["ret"]["bdisp"][:len(tgt)])
    elif kind in ("PW2", "FIXED"):
        ders = job["ret"]["der"]
        ai = leaves.index(a)
        d1, d2 = (fr(ders[0]), fr(ders[1])) if kind == "PW2" else (fr(ders[0][ai]), fr(ders[1][ai]))
        cd = max(d1, d2) + fr(job["offset"])
        change, maxd = b2f(job["expo"][0]), b2f(job["max_disp"])
        rate = None
        if cd > 0 and change / float(cd) < maxd:      # the handler's own float division (dyadic cd)
            rate = cd
            disp = Fr(change / float(cd))
        else:
            disp = Fr(maxd)
        if n1 != 2 or any(c[0] != 1 for c in calls[:2]):
            fails.append("expected two potential.derivative calls in send_event_time")
        else:
            pairs = [(a, other)] if kind == "PW2" else list(zip(job["separations"][0::2], job["separations"][1::2]))
            for k, (x, y) in enumerate(pairs):
                rx, ry = (x, y) if kind == "PW2" else (leaves[x], leaves[y])
                check_sep(calls[0], k, pos0(rx), pos0(ry), "bound at the current position, separation %d" % k)
    # --- candidate time = stamp + displacement
    if disp is not None:
        exact = tval(ua["ts"]) + disp
        if abs(tval(T) - exact) > Fr(math.ulp(max(1.0, float(exact)))):
            fails.append("candidate event time %r is not stamp + displacement = %r" % (float(tval(T)), float(exact)))
    # --- time slicing
    Lq = Fr(L)
    for u in units:
        o = s1[tuple(u["id"])]
        if u["vel"] is None:
            if o[1] != u["pos"] or o[2] is not None or o[3] is not None:
                fails.append("unit %r without velocity changed in send_event_time" % u["id"])
            continue
        if o[3] != T or o[2] != u["vel"]:
            fails.append("moving unit %r: time stamp / velocity after send_event_time" % u["id"])
        dt = tval(T) - tval(u["ts"])
        for d in range(job["dim"]):
            want = fr(u["pos"][d]) + fr(u["vel"][d]) * dt
            got = fr(o[1][d])
            k = round((want - got) / Lq)
            tol = Fr(math.ulp(L)) * 4 + abs(fr(u["vel"][d])) * Fr(math.ulp(max(1.0, float(abs(tval(T)))))) * 4 \
                + abs(want) * Fr(2) ** -50
            if abs(want - got - k * Lq) > tol or not (0 <= got < Lq):
                fails.append("moving unit %r not time-sliced to the event time in direction %d" % (u["id"], d))
    if s2 is None:
        return fails
    # --- out-state: who carries the velocity
    u_draws = [fr(x) for x in job["unif"]]
    expected = a
    if kind == "TL":
        expected = other
    elif kind == "TLB":
        b, r = fr(job["ret"]["bder"][0]), fr(job["ret"]["der"][0])
        if r > 0 and u_draws[0] * b < r:
            expected = other
        for c in calls[n1:]:
            check_sep(c, 0, pos1(a), pos1(other), "out-state")
    elif kind in ("PW2", "FIXED") and rate is None:
        # a candidate capped at max_displacement (or a non-positive bound) is never an event: send_out_state neither
        # consults the potential nor draws, and leaves every velocity where it was
        if len(calls) != n1 or res["unif_args"] or res["inserts"]:
            fails.append("candidate capped at max_displacement, but send_out_state evaluated the potential / drew a "
                         "uniform number (%d calls, %d draws): a bounding rate of an earlier round is still cached"
                         % (len(calls) - n1, len(res["unif_args"])))
    elif kind == "PW2":
        if rate is not None:
            r = fr(job["ret"]["der"][2])
            if r > 0 and u_draws[0] * rate < r:
                expected = other
            if len(calls) == 3:
                check_sep(calls[2], 0, pos1(a), pos1(other), "out-state")
            else:
                fails.append("expected one potential.derivative call in send_out_state")
    elif kind == "FIXED":
        if rate is not None:
            v3 = [fr(x) for x in job["ret"]["der"][2]]
            ai = leaves.index(a)
            if v3[ai] > 0 and u_draws[0] * rate < v3[ai]:
                expected = leaves[lifting_oracle(job["lifting"], v3, ai, u_draws[1], u_draws[2])]
                want_ins = [[x, units[leaves[k]]["id"], k == ai] for k, x in enumerate(v3)]
                if [[fr(x[0]), x[1], x[2]] for x in res["inserts"]] != want_ins:
                    fails.append("lifting.insert calls are not (derivative_k, identifier_k, k == active)")
    elif kind == "SUMMED":
        nt = len(tgt)
        der = [fr(x) for x in job["ret"]["der"]]
        ber = sum(max(Fr(0), fr(x)) for x in job["ret"]["bder"][:nt])
        fdv = sum(der[:nt])
        rate_ev = max(Fr(0), fdv)
        for k, t in enumerate(tgt):
            for c in calls[n1 + 2 * k: n1 + 2 * k + 2]:
                check_sep(c, 0, pos1(a), pos1(t), "out-state, target %d" % k)
        if not rate_ev <= u_draws[0] * ber:
            others = [i for i in loc if i != a]
            pd = {(i, t): der[nt + r_ * nt + k] for r_, i in enumerate(others) for k, t in enumerate(tgt)}
            table = {}
            for i in loc:
                table[i] = rate_ev if i == a else sum(pd[(i, t)] for t in tgt)
            for k, t in enumerate(tgt):
                table[t] = -der[k] - sum(pd[(i, t)] for i in others)
            order = loc + tgt if units[loc[0]]["id"][0] < units[tgt[0]]["id"][0] else tgt + loc
            if sum(table.values()) != 0:
                fails.append("derivative table handed to the lifting does not sum to zero")
            sel = lifting_oracle(job["lifting"], [table[i] for i in order], order.index(a), u_draws[1], u_draws[2])
            expected = order[sel]
            want_ins = [[table[i], units[i]["id"], i == a] for i in order]
            if [[fr(x[0]), x[1], x[2]] for x in res["inserts"]] != want_ins:
                fails.append("lifting.insert calls are not the factor's derivative table in composite-object order")
            if table[expected] >= 0:
                fails.append("the lifting selected a unit with non-negative derivative")
            cs = calls[n1 + 2 * nt:]
            k = 0
            for i in others:
                for t in tgt:
                    if k < len(cs):
                        check_sep(cs[k], 0, pos1(i), pos1(t), "lifting table")
                        if cs[k][3] != ch_pair(i, t):
                            fails.append("charges handed to the potential while filling the lifting table")
                    k += 1
            if k != len(cs):
                fails.append("number of potential.derivative calls while filling the lifting table")
    carriers = [i for i in leaves if s2[tuple(units[i]["id"])][2] is not None]
    if carriers != [expected]:
        fails.append("after send_out_state the velocity is on leaf unit(s) %r, expected %r"
                     % ([units[i]["id"] for i in carriers], units[expected]["id"]))
    else:
        o = s2[tuple(units[expected]["id"])]
        if o[2] != ua["vel"] or o[3] != T:
            fails.append("the unit that received the velocity does not carry the active velocity / the event time")
    return fails


# ------------------------------------------------------------------------------------------------
# fail-closed translation of the shipped configurations
COVER = {
    "TwoLeafUnitEventHandler": "C01 glue TL",
    "TwoLeafUnitBoundingPotentialEventHandler": "C01 glue TLB",
    "TwoLeafUnitEventHandlerWithPiecewiseConstantBoundingPotential": "C01 glue PW2",
    "FixedSeparationsEventHandlerWithPiecewiseConstantBoundingPotential": "C01 glue FIXED (+ C05 glue)",
    "TwoCompositeObjectSummedBoundingPotentialEventHandler": "C01 glue SUMMED (+ C05 glue)",
    "LeafUnitCellVetoEventHandler": "C18 glue (send_event_time) + C01 glue LCV (send_out_state)",
    "CompositeObjectCellVetoEventHandler": "C18 glue (send_event_time) + C01 glue CCV (send_out_state; + C05 glue)",
    "TwoLeafUnitCellBoundingPotentialEventHandler": "C01 glue CELLB (stub cell system and cell bounding potential)",
    "TwoCompositeObjectCellBoundingPotentialEventHandler": "C01 glue CCELLB (stub cell system and cell bounding "
                                                           "potential; + C05 glue)",
    "RootUnitActiveTwoLeafUnitEventHandler": "C01 glue ROOTTL",
    "RootUnitActiveTwoCompositeObjectSummedBoundingPotentialEventHandler": "C01 glue ROOTSUM",
}
NON_INTERACTION = {"CellBoundaryEventHandler", "FixedIntervalSamplingEventHandler", "FinalTimeEndOfRunEventHandler",
                   "InitialChainStartOfRunEventHandler", "FixedIntervalDumpingEventHandler", "RootLeafUnitActiveSwitcher",
                   "SingleIndependentActivePeriodicDirectionEndOfChainEventHandler",
                   "SingleIndependentActiveSequentialDirectionEndOfChainEventHandler"}
OBJECT_OPTIONS = ("potential", "bounding_potential", "lifting", "estimator")


def camel(s):
    return "".join(p.capitalize() for p in s.split("_"))


def split_alias(v):
    v = v.replace("\n", " ").strip()
    if "(" in v:
        name, cls = v.split("(", 1)
        return name.strip(), cls.strip(" )")
    return v, v


def translate_ini(path):
    """Returns the list of interaction factors of one .ini; raises ValueError on anything it does not understand."""
    cfg = configparser.ConfigParser()
    if not cfg.read(path):
        raise ValueError("cannot read " + path)
    med = camel(cfg.get("Run", "mediator"))
    act = camel(split_alias(cfg.get(med, "activator"))[0])
    out = []
    for entry in cfg.get(act, "taggers").replace("\n", "").split(","):
        entry = entry.strip()
        if not entry:
            continue
        tag, _ = split_alias(entry)
        sec = camel(tag)
        if not cfg.has_section(sec) or not cfg.has_option(sec, "event_handler"):
            raise ValueError("%s: tagger section [%s] without event_handler" % (path, sec))
        hname, hcls = split_alias(cfg.get(sec, "event_handler"))
        hsec, hclass = camel(hname), camel(hcls)
        if hclass in NON_INTERACTION:
            continue
        if hclass not in COVER:
            raise ValueError("%s: unknown interaction event handler class %s" % (path, hclass))
        rec = {"tagger": tag, "handler": hclass, "covered_by": COVER[hclass],
               "number_event_handlers": cfg.get(sec, "number_event_handlers", fallback="1")}
        opts = dict(cfg.items(hsec)) if cfg.has_section(hsec) else {}
        for k, v in opts.items():
            if k in OBJECT_OPTIONS:
                n, c = split_alias(v)
                rec[k] = camel(c)
                psec = camel(n)
                if cfg.has_section(psec):
                    rec[k + "_options"] = dict(cfg.items(psec))
            elif k in ("charge", "offset", "max_displacement", "separations"):
                rec[k] = v
            else:
                raise ValueError("%s: option %s of [%s] is not understood" % (path, k, hsec))
        if "potential" not in rec and "estimator" not in rec:
            raise ValueError("%s: interaction handler [%s] without potential / estimator" % (path, hsec))
        out.append(rec)
    return out


def translate_all(ctx):
    base = os.path.join(ctx.scratch, "jellyfysh", "config_files")
    res, errors = {}, []
    for p in sorted(glob.glob(os.path.join(base, "**", "*.ini"), recursive=True)):
        try:
            res[os.path.relpath(p, base)] = translate_ini(p)
        except (ValueError, configparser.Error) as e:
            errors.append(str(e))
    return res, errors


# ------------------------------------------------------------------------------------------------
class _Fewer(object):
    """ctx proxy: a quarter of the case count of the re-run correspondence."""

    def __init__(self, ctx):
        self.__dict__["_ctx"] = ctx

    def __getattr__(self, name):
        return getattr(self.__dict__["_ctx"], name)

    def __setattr__(self, name, value):
        setattr(self.__dict__["_ctx"], name, value)

    def n(self, quick, thorough):
        return max(4, self.__dict__["_ctx"].n(quick, thorough) // 4)


def cell_veto_glue(ctx):
    """Cell-veto handlers: candidate time = stamp + Exp(beta) / (total rate * |charge factor| * speed) — the C18 builder's
    handler correspondence (harness/c18_glue.py, drivers/c18_cellveto.py), re-run here with fresh cases."""
    try:
        import c18_glue
    except ImportError as e:
        return {"skipped": "harness/c18_glue.py not importable: %s" % e}
    import random
    r = c18_glue.run(_Fewer(ctx), random.Random(ctx.rng.randrange(10 ** 9)))
    return {"fails": r["fails"], "send_event_time_calls": r["n"], "summary": r["summary"]}


def run_impl(ctx, jobs):
    chunks = [jobs[i:i + 150] for i in range(0, len(jobs), 150)]
    outs = C.run_driver_parallel(ctx, "c01_handlers", [{"jobs": ch} for ch in chunks])
    res = []
    for o in outs:
        res += o["out"]
    return res


def run(ctx, jobs_override=None):
    C.build_scratch(ctx)
    broken = []
    ok, out, nthm = C.check_props(ctx)
    if not ok:
        broken.append("Props/C01.v does not check: " + out[-600:])
    if jobs_override is not None:
        jobs = jobs_override
    else:
        n = ctx.n(40, 700)
        jobs = load_corpus() + [gen_case(ctx.rng, k) for k in KINDS for _ in range(n)]
        jobs += [gen_seq(ctx.rng, k) for k in KINDS for _ in range(ctx.n(30 if k in ("PW2", "FIXED") else 12, 400))]
        jobs += [gen_seq(ctx.rng, k) for k in NEW_KINDS for _ in range(ctx.n(25, 400))]
    seqs = jobs
    res_seq = run_impl(ctx, seqs)
    jobs, res, seq_of = [], [], []
    for si, (sj, sr) in enumerate(zip(seqs, res_seq)):
        fl = flatten(sj)
        rr = sr["rounds"] if "rounds" in sr else [sr]
        for k, (j, r) in enumerate(zip(fl, rr)):
            jobs.append(j)
            res.append(r)
            seq_of.append((si, k))
    fails, terms, owner, excs = [], [], [], 0
    stats = {"confirmed": 0, "rejected": 0, "lifting_used": 0}
    for i, (job, r) in enumerate(zip(jobs, res)):
        f = oracle(job, r)
        if f:
            fails.append((i, f))
            continue
        if r["inserts"]:
            stats["lifting_used"] += 1
        if r["out"] == "skipped":
            stats["trashed"] = stats.get("trashed", 0) + 1
        elif r["out"] is None:
            stats["out_none"] = stats.get("out_none", 0) + 1
        else:
            base_units = job.get("units2") or (job["units"] + (job.get("target") or []))
            moved = [o for o, u in zip(r["out"], base_units) if (o[2] is None) != (u["vel"] is None)]
            stats["confirmed" if moved else "rejected"] += 1
        t = coq_case(job, r)
        if t is None:
            excs += 1
        else:
            terms.append(t)
            owner.append(i)
    neval, bad, nfiles, nok, err = C.eval_cases(ctx, "c01", HEADER, terms, "check_hcase", "hcase", per_file=40)
    if err:
        broken.append("correspondence case files did not evaluate: " + err[-600:])
    mism = [owner[i] for i in bad]
    cv = cell_veto_glue(ctx) if jobs_override is None else {"skipped": "replay"}
    if cv.get("fails"):
        fails.append((None, ["cell-veto send_event_time (C18 glue re-run): " + cv["fails"][0][1]]))
        cv_case = cv["fails"][0][0]
    wiring, werr = translate_all(ctx)
    if werr:
        broken.append("translation of the shipped configurations failed closed: " + "; ".join(werr)[:500])
    if fails and fails[0][0] is None:
        C.violation(ctx, "oracle", {"kind": "c18-glue-case", "case": cv_case, "message": fails[0][1]},
                    "C01 glue fails on the implementation: " + fails[0][1][0][:250])
    elif fails:
        i, f = fails[0]
        C.violation(ctx, "oracle", {"kind": "c01-jobs", "jobs": [seqs[seq_of[i][0]]], "failing_round": seq_of[i][1],
                                    "impl_result": res[i], "message": f, "n_failing": len(fails)},
                    "C01 glue fails on the implementation (%s): %s" % (jobs[i]["kind"], f[0][:250]))
    elif mism:
        i = mism[0]
        C.violation(ctx, "correspondence",
                    {"kind": "c01-jobs", "jobs": [seqs[seq_of[i][0]]], "failing_round": seq_of[i][1],
                     "impl_result": res[i],
                     "message": "Model/Handlers.v does not reproduce the real handler on %d cases (first: %s); the "
                                "exact-arithmetic oracle found no failing input; correspondence "
                                "JF.Model.HandlersCases.check_hcase no longer checks" % (len(mism), jobs[i]["kind"])},
                    "handler model and implementation disagree", nofail=True)
    elif broken:
        C.violation(ctx, "obligation", {"kind": "obligation", "broken": broken}, broken[0][:200], nofail=True)
    kinds = {}
    for j in jobs:
        kinds[j["kind"]] = kinds.get(j["kind"], 0) + 1
    uncovered = sorted({"%s (%s)" % (r["handler"], r["covered_by"]) for v in wiring.values() for r in v
                        if r["covered_by"].startswith("not covered")})
    C.write_evidence(ctx, {
        "evaluations": len(jobs),
        "distinct_nontrivial": len({json.dumps(j, sort_keys=True) for j in jobs}),
        "rule": "one evaluation = send_event_time + send_out_state of a real event handler on a generated in-state; all "
                "are distinct random in-states; every one exercises the separation / time / time-slice arithmetic",
        "samples": [{"job": jobs[i], "impl": res[i]} for i in range(0, len(jobs), max(1, len(jobs) // 5))][:5],
        "input_distribution": dict(kinds, **{"events confirmed (velocity moved)": stats["confirmed"],
                                             "events rejected / not confirmed": stats["rejected"],
                                             "cases through a lifting scheme": stats["lifting_used"],
                                             "rounds trashed before send_out_state": stats.get("trashed", 0),
                                             "out-state None (active unit left its cell)": stats.get("out_none", 0),
                                             "handler instances reused over 2-4 rounds": sum(1 for q in seqs if q.get("rounds")),
                                             "cases outside the Coq model's vocabulary": excs}),
        "model_vs_impl_mismatches": len(mism),
        "oracle_failures": len(fails),
        "traces_validated_against_impl": neval,
        "case_files": nfiles, "case_files_ok": nok,
        "cell_veto_event_time_glue (C18's correspondence re-run)": {k: v for k, v in cv.items() if k != "fails"},
        "shipped_configurations": wiring,
        "handler_classes_used_by_shipped_configurations_without_handler_correspondence": uncovered,
        "explanation": "PARTIAL BY NATURE. Props/C01.v re-checked (%d theorems: survival law, superposition, jump balance "
                       "from C05 flow balance, pair factor); handler glue: %d real handler runs against the exact "
                       "oracle and the Coq model; %d shipped .ini translated. NOT decided by this technique: "
                       "irreducibility, the transport (free-flight) part of the generator, convergence of sampled "
                       "observables to the Reference*.dat distributions, agreement between algorithmic variants."
                       % (nthm, len(jobs), len(wiring)),
        "trusted_base": TRUSTED,
    }, ASSUME, level="proof (algebraic core + handler glue); distributional claim not decided")


TRUSTED = [
    "Coq Reals (classical Dedekind reals: sig_forall_dec, sig_not_dec, classic, functional_extensionality_dep) for "
    "survival_law / superposition",
    "reading 'length of an interval of the uniform draw = probability' and 'box of independent draws: product of the "
    "side lengths' (definitional, no measure theory formalised)",
    "C05: JF.Proofs.LiftingProofs.flow_balance_main (jump_balance is its corollary)",
    "hand-written model coq/Model/Handlers.v; stub potentials and patched draws of drivers/c01_handlers.py",
    "Flocq binary64 (Model/Periodic, Time, TimeSlice reused)",
]
ASSUME = [
    "NOT proved (statistical / measure-theoretic): irreducibility; the transport (free-flight) part of the generator "
    "and its combination with the jump part into stationarity of exp(-beta U); convergence of observables to "
    "Reference*.dat; agreement between algorithmic variants",
    "the potentials are oracles here: displacement inverts the cumulative uphill energy (C02), derivative is the "
    "directional derivative (C03), bounding rates dominate (C04, partial)",
    "in-state trees have at most two levels (all shipped configurations); derivative values fed to lifting cases are "
    "dyadic so that the float sums inside lifting.py are exact (the lifting itself is C05)",
    "cell-veto handlers: send_event_time (Walker sampling, bound lookup for (offset, direction, charge sign), candidate "
    "time) is C18's glue; here send_out_state runs on the state produced by the handler's own base-class methods "
    "for a prescribed event time and stored bounding rate; cell systems and (cell) bounding potentials are stubs",
    "handler classes listed under 'without handler correspondence' in the evidence (none at present) are not driven",
]


def load_corpus():
    p = os.path.join(C.VERIF, "corpus", "C01", "jobs.json")
    return json.load(open(p)) if os.path.exists(p) else []


def replay(ctx, path):
    data = json.load(open(path))
    if data.get("kind") == "c18-glue-case":
        import random
        import c18_glue
        C.build_scratch(ctx)
        r = c18_glue.run(ctx, random.Random(0), data["case"])
        if r["fails"]:
            C.violation(ctx, "oracle", {"kind": "c18-glue-case", "case": data["case"], "message": [r["fails"][0][1]]},
                        "C01 glue fails on the implementation: cell-veto send_event_time: " + r["fails"][0][1][:250])
        C.write_evidence(ctx, {"evaluations": r["n"], "distinct_nontrivial": r["n"],
                               "explanation": "replay of a cell-veto glue case (PARTIAL BY NATURE, see ASSUME)"}, ASSUME)
        return
    run(ctx, jobs_override=data.get("jobs", []))
