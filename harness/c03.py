"""C03 — reported event rates are the directional derivative of the model energy (DESIGN.md section 5, C03).

Closed forms (inverse power, Lennard-Jones, displaced even power, 1/r bounding potential in C, cell bounding,
bending): kernel-checked numerical correspondence with coq/Model/PotentialsR.v / CoulombBoundR.v (machinery of
harness/c02.py) + finite-difference oracle on the implementation's own energy function + scaling laws.
Merged-image (Ewald) Coulomb potential in C: NOT modelled in Coq; validated numerically only (periodicity, oddness,
axis permutation, agreement with a brute-force Ewald reference with a different splitting parameter)."""
import json
import math
from fractions import Fraction as Fr

import common as C
from common import f2b, b2f
import c02 as K
from c02 import Ar, MH, fl, sepv, xq, rq, bits

INF = math.inf


# ------------------------------------------------------------------------------------------------
def der_op(c, rng):
    """turn a displacement case of c02's generators into a derivative case"""
    op = dict(c["op"])
    op["k"] = c["fam"] + "_der"
    if c["fam"] != "cb":        # the cell-bounding rate is set by the preceding displacement call (needs a budget)
        op.pop("dE", None)
    return {"fam": c["fam"], "op": op}


def energy_mag(c):
    """magnitude of the terms entering one energy evaluation at the current separation: max(|U|, r |U'|)"""
    op = c["op"]
    r = math.sqrt(sum(t * t for t in sepv(op)))
    if c["fam"] == "ip":
        p = fl(op, "p")
        return abs(fl(op, "pref") * fl(op, "c1") * fl(op, "c2")) / r ** p * max(1.0, p)
    if c["fam"] == "lj":
        k, sg = fl(op, "k_"), fl(op, "sigma")
        return k * (12 * (sg / r) ** 12 + 6 * (sg / r) ** 6)
    k, r0, p = fl(op, "k_"), fl(op, "r0"), int(op["p"])
    return k * abs(r - r0) ** p + r * k * p * abs(r - r0) ** (p - 1)


def gen_bend(rng, n):
    out = []
    for _ in range(n):
        dim = rng.choice([3, 3, 2])
        s1 = [rng.uniform(-1.5, 1.5) for _ in range(dim)]
        s2 = [rng.uniform(-1.5, 1.5) for _ in range(dim)]
        n1 = math.sqrt(sum(t * t for t in s1))
        n2 = math.sqrt(sum(t * t for t in s2))
        cs = sum(a * b for a, b in zip(s1, s2)) / n1 / n2
        if n1 < 0.2 or n2 < 0.2 or abs(cs) > 0.995:
            continue
        op = {"k": "bend_der", "k_": f2b(rng.choice([1.0, 0.5, 2.3])), "phi0": f2b(rng.choice([1.9106, 2.0, 1.0, math.pi])),
              "dir": rng.randrange(dim), "speed": f2b(rng.choice(K.SPEEDS)), "sep1": bits(s1), "sep2": bits(s2)}
        out.append({"fam": "bend", "op": op})
    return out


def shipped_box_lengths(ctx):
    """system_length values of the shipped configuration files (read from the scratch copy of the current tree)"""
    import configparser
    import glob
    import os
    vals = set()
    for f in glob.glob(os.path.join(ctx.scratch, "jellyfysh", "config_files", "**", "*.ini"), recursive=True):
        cp = configparser.ConfigParser()
        try:
            cp.read(f)
        except configparser.Error:
            continue
        for sec in cp.sections():
            if cp.has_option(sec, "system_length"):
                try:
                    vals.add(float(cp.get(sec, "system_length")))
                except ValueError:
                    pass
    return sorted(vals)


BOX_POOL = [1.0, 2.0, 3.3, 10.0]
# small and very large boxes: the lattice sum must be scale invariant, D_L(s) = D_1(s / L) / L^2
SCALE_POOL = [1e-3, 0.02, 0.05, 0.1, 0.2, 0.3, 30.0, 100.0, 1e3]
COPY_VIAS = ["deepcopy", "tagger1", "tagger2", "dill", "pickle"]
REL_SEPS = [(1.0 / 7.0, 1.0 / 8.0, 1.0 / 5.0), (-0.31, 0.22, -0.43), (0.49, -0.05, 0.11), (0.02, 0.03, -0.01),
            (-0.499, 0.499, 0.25)]


def gen_mic_copies(rng, lengths, nsep):
    """every instance of the lattice-sum potential the application can hold (deep copies made by copy.deepcopy and by
    a real tagger with three event handlers, dill / pickle round trips) x box lengths x directions x charge signs"""
    out = []
    for L in lengths:
        seps = [REL_SEPS[0]] + rng.sample(REL_SEPS[1:], min(nsep - 1, len(REL_SEPS) - 1))
        if nsep > len(REL_SEPS):
            seps += [tuple(rng.uniform(-0.5, 0.5) for _ in range(3)) for _ in range(nsep - len(REL_SEPS))]
        for rel in seps:
            sep = [t * L for t in rel]
            for d in range(3):
                for (c1, c2) in ((1.0, 1.0), (1.0, -1.0)):
                    for via in COPY_VIAS:
                        op = {"k": "mic_der", "alpha": f2b(3.45), "fc": 6, "pc": 2, "pref": f2b(1.0), "c1": f2b(c1),
                              "c2": f2b(c2), "sep": bits(sep), "dir": d, "speed": f2b(rng.choice([1.0, 0.4, 2.5])),
                              "L": f2b(L), "via": via}
                        out.append({"fam": "miccopy", "op": op})
    return out


def gen_mic_scaling(rng, lengths, nsep):
    """lattice sum at every box length of the pool (tiny to huge boxes) at the same relative separations: compared
    with the brute-force Ewald reference at that length, with the L = 1 potential through the exact scaling law
    D_L(s) = D_1(s / L) / L^2, and with another splitting parameter"""
    out = []
    for L in lengths:
        rels = [REL_SEPS[0]] + rng.sample(REL_SEPS[1:], min(nsep - 1, len(REL_SEPS) - 1))
        if nsep > len(REL_SEPS):
            rels += [tuple(rng.uniform(-0.5, 0.5) for _ in range(3)) for _ in range(nsep - len(REL_SEPS))]
        for j, rel in enumerate(rels):
            for d in range(3):
                c2 = 1.0 if (j + d) % 2 == 0 else -1.0
                op = {"k": "mic_der", "alpha": f2b(3.45), "fc": 6, "pc": 2, "pref": f2b(1.0), "c1": f2b(1.0),
                      "c2": f2b(c2), "sep": bits([t * L for t in rel]), "dir": d, "speed": f2b(1.0), "L": f2b(L)}
                out.append({"fam": "micscale", "op": op, "rel": list(rel)})
    return out


def gen_mic(rng, n, lengths=(1.0, 1.0, 2.0, 3.3)):
    out = []
    for i in range(n):
        L = rng.choice(list(lengths))
        sep = [rng.uniform(-L / 2, L / 2) for _ in range(3)]
        if i % 5 == 0:
            sep[rng.randrange(3)] = rng.choice([-1, 1]) * L / 2 * (1 - 10 ** rng.uniform(-9, -2))   # near a box face
        if i % 5 == 1:
            sep = [t * 10 ** rng.uniform(-3, -1) for t in sep]                                     # near the origin
        op = {"k": "mic_der", "alpha": f2b(3.45), "fc": 6, "pc": 2, "pref": f2b(rng.choice([1.0, 1.0, 2.0])),
              "c1": f2b(rng.choice(K.CHARGES)), "c2": f2b(rng.choice(K.CHARGES)), "sep": bits(sep),
              "dir": rng.randrange(3), "speed": f2b(rng.choice(K.SPEEDS)), "L": f2b(L)}
        out.append({"fam": "mic", "op": op})
    return out


# ------------------------------------------------------------------------------------------------
def mirror_der(op):
    k = op["k"]
    sp = fl(op, "speed")
    if k == "ip_der":
        x, q = xq(sepv(op), op["dir"])
        return lambda A: K.m_ip_der(A, fl(op, "p"), fl(op, "pref"), fl(op, "c1"), fl(op, "c2"), x, float(q)) * sp
    if k in ("lj_der", "dep_der"):
        x, q = xq(sepv(op), op["dir"])
        m = MH("lj", fl(op, "k_"), fl(op, "sigma")) if k == "lj_der" else MH("dep", fl(op, "k_"), fl(op, "r0"),
                                                                                int(op["p"]))
        return lambda A: K.m_mh_der(A, m, x, float(q)) * sp
    if k == "ipc_der":
        x, q = xq(sepv(op), op["dir"])
        kc = fl(op, "pref") * fl(op, "c1") * fl(op, "c2")
        return lambda A: kc * x / K.mpow(A, x * x + float(q), 1.5) * sp
    if k == "cb_der":
        cf = fl(op, "ac") * fl(op, "tc")
        return lambda A: (fl(op, "upper") if cf > 0 else fl(op, "lower")) * cf * sp
    return None


def der_term(op):
    k = op["k"]
    sp = rq(fl(op, "speed"))
    if k == "cb_der":
        return "sv_derivative (cb_derivative (cb_rate %s %s (%s * %s))) %s" % (
            rq(fl(op, "upper")), rq(fl(op, "lower")), rq(fl(op, "ac")), rq(fl(op, "tc")), sp)
    x, q = xq(sepv(op), op["dir"])
    if k == "ip_der":
        inner = "ip_derivative %s %s %s %s %s %s" % (rq(fl(op, "p")), rq(fl(op, "pref")), rq(fl(op, "c1")),
                                                     rq(fl(op, "c2")), rq(x), rq(q))
    elif k == "lj_der":
        inner = "lj_derivative %s %s %s %s" % (rq(fl(op, "k_")), rq(fl(op, "sigma")), rq(x), rq(q))
    elif k == "dep_der":
        inner = "dep_derivative %s %s %d%%nat %s %s" % (rq(fl(op, "k_")), rq(fl(op, "r0")), int(op["p"]), rq(x), rq(q))
    elif k == "ipc_der":
        kc = Fr(fl(op, "pref")) * Fr(fl(op, "c1")) * Fr(fl(op, "c2"))
        inner = "ipc_derivative %s %s %s" % (rq(kc), rq(x), rq(q))
    else:
        raise KeyError(k)
    return "sv_derivative (%s) %s" % (inner, sp)


def bend_terms(op):
    """the three Coq terms for bend_der (norms enter as sqrt of exact rationals)"""
    s1, s2 = sepv(op, "sep1"), sepv(op, "sep2")
    d = op["dir"]
    n1 = sum((Fr(t) * Fr(t) for t in s1), Fr(0))
    n2 = sum((Fr(t) * Fr(t) for t in s2), Fr(0))
    dt = sum((Fr(a) * Fr(b) for a, b in zip(s1, s2)), Fr(0))
    base = "bend_derivative %s %s %s %s (sqrt %s) (sqrt %s) %s" % (rq(fl(op, "k_")), rq(fl(op, "phi0")), rq(s1[d]),
                                                                   rq(s2[d]), rq(n1), rq(n2), rq(dt))
    sp = rq(fl(op, "speed"))
    return ["fst (fst (%s)) * %s" % (base, sp), "snd (fst (%s)) * %s" % (base, sp), "snd (%s) * %s" % (base, sp)]


def bend_energy(k, phi0, s1, s2):
    n1 = math.sqrt(sum(t * t for t in s1))
    n2 = math.sqrt(sum(t * t for t in s2))
    c = sum(a * b for a, b in zip(s1, s2)) / n1 / n2
    return 0.5 * k * (math.acos(max(-1.0, min(1.0, c))) - phi0) ** 2


def bend_mirror(A, op, which):
    s1, s2 = sepv(op, "sep1"), sepv(op, "sep2")
    d = op["dir"]
    n1 = K.msqrt(A, sum(t * t for t in s1))
    n2 = K.msqrt(A, sum(t * t for t in s2))
    c = A.P(sum(a * b for a, b in zip(s1, s2)) / n1 / n2)
    phi = A.P(math.acos(c))
    dU = fl(op, "k_") * A.P(phi - fl(op, "phi0"))
    dphi = -1.0 / A.P(math.sin(phi))
    dc1 = A.P(s2[d] / n1 / n2 - c * s1[d] / n1 ** 2)
    dc2 = A.P(s1[d] / n1 / n2 - c * s2[d] / n2 ** 2)
    d1, d2 = dU * dphi * dc1, dU * dphi * dc2
    return (d1, A.P(-d1 - d2), d2)[which] * fl(op, "speed")


# ------------------------------------------------------------------------------------------------
# brute-force Ewald reference (pure Python, math.erfc), tin-foil boundary conditions:
# returns d/ds U(sep - s e_x) for unit charges, i.e. what merged_image_coulomb_potential.c derivative() reports
def ewald_reference(sep, L, alpha=2.3, pc=4, fc=11):
    sx, sy, sz = sep
    a = alpha / L
    tot = 0.0
    two_a_rootpi = 2.0 * a / math.sqrt(math.pi)
    for i in range(-pc, pc + 1):
        vx = sx + i * L
        for j in range(-pc, pc + 1):
            vy = sy + j * L
            for k in range(-pc, pc + 1):
                vz = sz + k * L
                r2 = vx * vx + vy * vy + vz * vz
                r = math.sqrt(r2)
                tot += vx * (two_a_rootpi * math.exp(-a * a * r2) + math.erfc(a * r) / r) / r2
    w = 2.0 * math.pi / L
    four = 0.0
    for i in range(1, fc + 1):
        si = math.sin(w * i * sx)
        for j in range(-fc, fc + 1):
            for k in range(-fc, fc + 1):
                n2 = i * i + j * j + k * k
                # sum over +-i of k_x sin(k.r): 2 * i * [sin(i x) cos(j y + k z)] (the cos(i x) sin(..) parts cancel)
                four += (4.0 * i / (n2 * L * L)) * math.exp(-math.pi ** 2 * n2 / alpha ** 2) * si * \
                    math.cos(w * (j * sy + k * sz))
    return tot + four


TRUSTED = [
    "Coq-Interval / Coquelicot as installed; Coq Reals axioms listed below",
    "hand-written real models coq/Model/PotentialsR.v, coq/Model/CoulombBoundR.v",
    "harness/c03.py, harness/c02.py + drivers/c02_potentials.py (exact float->rational conversion; tolerance = 2^-40 * "
    "condition number estimated by perturbation of a float mirror, printed with each case)",
    "for the merged-image Coulomb potential: the pure-Python brute-force Ewald reference in harness/c03.py "
    "(math.erfc/exp/sin/cos of CPython's libm)",
]
ASSUME = [
    "closed-form potentials are tied to the code by kernel-checked numerical agreement on generated inputs",
    "PARTIAL: the lattice-sum clauses of C03 (derivative of the fully converged lattice sum, independence of the "
    "Ewald splitting parameter, convergence of the truncated sums, position-space erfc part) are NOT proved in Coq; "
    "they are only validated numerically: box periodicity, oddness in the direction of motion, evenness in the "
    "transverse components, axis permutation, linearity in speed and charges, and agreement to 1e-9/L^2 with a "
    "brute-force Ewald sum using a different splitting parameter and larger cut-offs",
]


def run(ctx, cases_override=None):
    C.build_scratch(ctx, exts=("ipc", "mic"))
    rng = ctx.rng
    broken = []
    ok, out, nthm = C.check_props(ctx)
    if not ok:
        broken.append("Props/C03*.v do not check: " + out[-600:])
    # Fourier part of the lattice sum: closed form proved in Props/C03fourier.v; tie to the compiled extension
    # (fourier_array read back, C derivative vs recomputed loops, interval lemmas) — registers its own violations
    fourier_counts = None
    if cases_override is None:
        import c03fourier
        fourier_counts = c03fourier.check_fourier(ctx)
        ctx.notes.append("fourier part: %r" % (fourier_counts,))
    N = ctx.n(300, 5000)
    if cases_override is not None:
        cases = cases_override
    else:
        cases = [der_op(c, rng) for c in (K.gen_ip(rng, int(N * 0.3)) + K.gen_mh(rng, int(N * 0.2), "lj")
                                          + K.gen_mh(rng, int(N * 0.2), "dep") + K.gen_ipc(rng, int(N * 0.12))
                                          + K.gen_cb(rng, int(N * 0.04)))]
        lengths = sorted(set(BOX_POOL) | set(shipped_box_lengths(ctx)))
        cases += gen_bend(rng, int(N * 0.1)) + gen_mic(rng, ctx.n(40, 300), lengths=[1.0] + lengths)
        cases += gen_mic_copies(rng, lengths, ctx.n(2, 6))
        all_lengths = sorted(set(lengths) | set(SCALE_POOL))
        cases += gen_mic_scaling(rng, all_lengths, ctx.n(2, 5))
        cases += gen_mic(rng, ctx.n(18, 120), lengths=SCALE_POOL)
        # near the minimum of the Mexican hats (cancellation in r - r0) and near the axis planes
        for c in cases:
            if c["fam"] in ("lj", "dep", "ip") and rng.random() < 0.1:
                s = sepv(c["op"])
                s[c["op"]["dir"]] *= 10 ** rng.uniform(-8, -1)
                c["op"]["sep"] = bits(s)
    # ---- round 1: the derivative itself + companions for the scaling / symmetry laws
    ops, owner = [], []

    def add(i, role, op):
        ops.append(op)
        owner.append((i, role))

    for i, c in enumerate(cases):
        op = c["op"]
        add(i, "main", op)
        o2 = dict(op)
        o2["speed"] = f2b(2.0 * fl(op, "speed"))
        add(i, "speed2", o2)
        if "c1" in op:
            o3 = dict(op)
            o3["c1"] = f2b(2.0 * fl(op, "c1"))
            add(i, "charge2", o3)
            o4 = dict(op)
            o4["c1"], o4["c2"] = op["c2"], op["c1"]
            add(i, "swap", o4)
        if c["fam"] == "miccopy":
            o0 = dict(op)
            o0.pop("via", None)
            add(i, "orig", o0)
        if c["fam"] == "micscale":
            o1 = dict(op)
            o1["L"] = f2b(1.0)
            o1["sep"] = bits(c["rel"])
            add(i, "unit", o1)
            o2 = dict(op)
            o2["alpha"], o2["fc"], o2["pc"] = f2b(2.9), 8, 3
            add(i, "alpha2", o2)
        if c["fam"] in ("ipc", "mic"):
            d = op["dir"]
            s = sepv(op)
            o5 = dict(op)
            o5["dir"] = 0
            o5["sep"] = bits([s[d], s[(d + 1) % 3], s[(d + 2) % 3]])
            add(i, "perm", o5)
        if c["fam"] == "mic":
            d = op["dir"]
            s = sepv(op)
            L = fl(op, "L")
            for ax in range(3):
                t = list(s)
                t[ax] += L if t[ax] < 0 else -L
                o = dict(op)
                o["sep"] = bits(t)
                add(i, "shift%d" % ax, o)
                for sg, role in ((1, "faceP%d"), (-1, "faceM%d")):
                    t = list(s)
                    t[ax] = sg * L / 2
                    o = dict(op)
                    o["sep"] = bits(t)
                    add(i, role % ax, o)
                t = list(s)
                t[ax] = -t[ax]
                o = dict(op)
                o["sep"] = bits(t)
                add(i, "flip%d" % ax, o)
            o = dict(op)
            o["alpha"], o["fc"], o["pc"] = f2b(2.9), 8, 3
            add(i, "alpha2", o)
        if c["fam"] in ("ip", "lj", "dep"):
            s = sepv(op)
            d = op["dir"]
            r = math.sqrt(sum(t * t for t in s))
            h = 2.0 ** -17 * r
            for sg, role in ((-1, "Em"), (1, "Ep"), (-2, "Em2"), (2, "Ep2"), (-0.5, "Emh"), (0.5, "Eph")):
                t = list(s)
                t[d] = s[d] - sg * h      # active unit advanced by sg*h: the separation shortens
                o = dict(op)
                o["k"] = c["fam"] + "_pot"
                o["sep"] = bits(t)
                add(i, role, o)
            c["h"] = h
    res = K.run_ops(ctx, ops, chunk=600)
    got = [dict() for _ in cases]
    for (i, role), r in zip(owner, res):
        got[i][role] = r

    def val(r):
        if r is None or (r and r[0] == "EXC"):
            return None
        return [b2f(t) for t in r]

    viol = []
    coq_cases, idx, evs = [], [], {}
    n_fd = n_scale = n_mic = n_copy = n_scaling = 0
    scale_err = []
    mic_err = []
    copy_err = []
    ref_cache = {}
    for i, c in enumerate(cases):
        op = c["op"]
        g = got[i]
        main = val(g["main"])
        if main is None or any(t != t or abs(t) == INF for t in main):
            viol.append((c, g["main"], "derivative raised / returned a non-finite value: %r" % (g["main"],)))
            continue
        sp = fl(op, "speed")
        # --- scaling laws (exact up to two roundings)
        s2 = val(g["speed2"])
        for a, b in zip(main, s2 or []):
            n_scale += 1
            if abs(b - 2 * a) > 2.0 ** -50 * abs(a):
                viol.append((c, g["main"], "not linear in the speed: derivative(2v) = %r, 2 derivative(v) = %r" % (b, 2 * a)))
        if "charge2" in g:
            c2v = val(g["charge2"])
            sw = val(g["swap"])
            if c2v is None or abs(c2v[0] - 2 * main[0]) > 2.0 ** -49 * abs(main[0]):
                viol.append((c, g["main"], "not linear in the charge: derivative(2 c1) = %r vs %r" % (c2v, 2 * main[0])))
            if sw is None or abs(sw[0] - main[0]) > 2.0 ** -49 * abs(main[0]):
                viol.append((c, g["main"], "not symmetric in the two charges: %r vs %r" % (sw, main[0])))
        if "perm" in g:
            pv = val(g["perm"])
            if pv is None or pv[0] != main[0]:
                viol.append((c, g["main"], "direction %d on the separation differs from direction 0 on the permuted "
                             "separation: %r vs %r" % (op["dir"], main[0], pv)))
        # --- finite differences on the implementation's own energy
        if c["fam"] in ("ip", "lj", "dep"):
            E = {r_: val(g[r_]) for r_ in ("Em", "Ep", "Em2", "Ep2", "Emh", "Eph")}
            if all(E.values()):
                h = c["h"]
                cp = fl(op, "c1") * fl(op, "c2") if c["fam"] == "ip" else 1.0
                d1 = (E["Ep"][0] - E["Em"][0]) / (2 * h)
                d2 = (E["Ep2"][0] - E["Em2"][0]) / (4 * h)
                dh = (E["Eph"][0] - E["Emh"][0]) / h
                fd_h = (4 * d1 - d2) / 3 * sp      # Richardson: O(h^4)
                fd = (4 * dh - d1) / 3 * sp        # the same at half the step; the difference estimates the truncation
                # rounding error of an energy evaluation: relative to the magnitude of the terms that are subtracted
                # (LJ: two inverse powers; displaced even power: r - r0), i.e. to max(|U|, r |U'|)
                emax = max(max(abs(E[r_][0]) for r_ in E), energy_mag(c))
                tol = 1e-8 * abs(fd) + 2.0 ** -50 * emax / h * sp * 16 + 2.0 * abs(fd - fd_h) + 1e-300
                n_fd += 1
                # conditioning of the derivative itself (cancellation in r - r0 next to the minimum)
                fnc = mirror_der(op)
                evc = K.evaluate(fnc, rng) if fnc else None
                if evc is not None:
                    tol += 4.0 * evc["tol"]
                if abs(fd - main[0]) > tol + 1e-7 * abs(main[0]):
                    viol.append((c, g["main"], "derivative %r differs from the finite-difference rate of change of the "
                                 "implementation's energy %r (active unit advancing along the velocity)" % (main[0], fd)))
        if c["fam"] == "ipc":
            s = sepv(op)
            d = op["dir"]
            kc = fl(op, "pref") * fl(op, "c1") * fl(op, "c2")
            r = math.sqrt(sum(t * t for t in s))
            h = 2.0 ** -17 * r

            def U(sh):
                t = list(s)
                t[d] -= sh
                return kc / math.sqrt(sum(u * u for u in t))
            fd = (4 * (U(h) - U(-h)) / (2 * h) - (U(2 * h) - U(-2 * h)) / (4 * h)) / 3 * sp
            n_fd += 1
            if abs(fd - main[0]) > 1e-7 * abs(fd) + 2.0 ** -46 * abs(kc) / r / h * sp:
                viol.append((c, g["main"], "1/r bounding derivative %r differs from finite differences %r" % (main[0], fd)))
        if c["fam"] == "bend":
            s1, s2_ = sepv(op, "sep1"), sepv(op, "sep2")
            d = op["dir"]
            k_, phi0 = fl(op, "k_"), fl(op, "phi0")
            h = 2.0 ** -17

            def Ub(mv):
                # positions: j at origin, i at s1, k at s2; unit mv advanced by +sh along d
                def f(sh):
                    a, b = list(s1), list(s2_)
                    if mv == 0:
                        a[d] += sh
                    elif mv == 2:
                        b[d] += sh
                    else:
                        a[d] -= sh
                        b[d] -= sh
                    return bend_energy(k_, phi0, a, b)
                return (4 * (f(h) - f(-h)) / (2 * h) - (f(2 * h) - f(-2 * h)) / (4 * h)) / 3 * sp
            for mv in range(3):
                fd = Ub(mv)
                n_fd += 1
                if abs(fd - main[mv]) > 1e-6 * max(abs(t) for t in main) + 1e-9:
                    viol.append((c, g["main"], "bending derivative for unit %d: %r differs from finite differences %r"
                                 % (mv, main[mv], fd)))
            if abs(main[0] + main[1] + main[2]) > 2.0 ** -48 * max(abs(t) for t in main):
                viol.append((c, g["main"], "bending derivatives do not sum to zero: %r" % (main,)))
        if c["fam"] == "miccopy":
            n_copy += 1
            d = op["dir"]
            L = fl(op, "L")
            s = sepv(op)
            scale = abs(fl(op, "pref") * fl(op, "c1") * fl(op, "c2")) * sp
            rmin2 = sum(min(abs(t), L - abs(t)) ** 2 for t in s)
            ref_scale = scale * (1.0 / L ** 2 + 1.0 / max(rmin2, 1e-300))
            og = val(g["orig"])
            if og is None or abs(og[0] - main[0]) > 1e-12 * ref_scale:
                viol.append((c, g["main"], "the %s instance of the lattice-sum potential (L=%r) reports %r, the original "
                             "instance %r" % (op["via"], L, main[0], og)))
            key = (op["L"], tuple(op["sep"]), d)
            if key not in ref_cache:
                ref_cache[key] = ewald_reference([s[d], s[(d + 1) % 3], s[(d + 2) % 3]], L)
            ref = ref_cache[key] * fl(op, "pref") * fl(op, "c1") * fl(op, "c2") * sp
            copy_err.append(abs(ref - main[0]) / ref_scale)
            if abs(ref - main[0]) > 1e-9 * ref_scale:
                viol.append((c, g["main"], "the %s instance of the lattice-sum potential (L=%r) reports %r, the "
                             "brute-force Ewald reference is %r" % (op["via"], L, main[0], ref)))
            if og is not None and abs(ref - og[0]) > 1e-9 * ref_scale:
                viol.append((c, g["orig"], "lattice-sum derivative (L=%r) %r differs from the brute-force Ewald "
                             "reference %r" % (L, og[0], ref)))
            continue
        if c["fam"] == "micscale":
            n_scaling += 1
            d = op["dir"]
            L = fl(op, "L")
            s = sepv(op)
            cc = fl(op, "pref") * fl(op, "c1") * fl(op, "c2") * sp
            rmin2 = sum(min(abs(t), L - abs(t)) ** 2 for t in s)
            ref_scale = abs(cc) * (1.0 / L ** 2 + 1.0 / max(rmin2, 1e-300))
            un, a2 = val(g["unit"]), val(g["alpha2"])
            if un is None or abs(un[0] / L ** 2 - main[0]) > 1e-9 * ref_scale:
                viol.append((c, g["main"], "lattice sum violates the scaling law D_L(s) = D_1(s/L)/L^2 at L=%r: %r vs "
                             "%r" % (L, main[0], None if un is None else un[0] / L ** 2)))
            if a2 is None or abs(a2[0] - main[0]) > 1e-9 * ref_scale:
                viol.append((c, g["main"], "lattice sum at L=%r depends on the Ewald splitting parameter: alpha=3.45 -> "
                             "%r, alpha=2.9 -> %r" % (L, main[0], a2)))
            ref = ewald_reference([s[d], s[(d + 1) % 3], s[(d + 2) % 3]], L) * cc
            scale_err.append(abs(ref - main[0]) / ref_scale)
            if abs(ref - main[0]) > 1e-9 * ref_scale:
                viol.append((c, g["main"], "lattice-sum derivative at L=%r: %r differs from the brute-force Ewald "
                             "reference %r" % (L, main[0], ref)))
            continue
        if c["fam"] == "mic":
            n_mic += 1
            d = op["dir"]
            L = fl(op, "L")
            scale = abs(fl(op, "pref") * fl(op, "c1") * fl(op, "c2")) * sp
            s = sepv(op)
            rmin2 = sum(min(abs(t), L - abs(t)) ** 2 for t in s)
            ref_scale = scale * (1.0 / L ** 2 + 1.0 / max(rmin2, 1e-300))
            for ax in range(3):
                sh = val(g["shift%d" % ax])
                fp = val(g["flip%d" % ax])
                # a separation outside the primary cell [-L/2, L/2]^3 sees the truncation of the position-space sum
                if sh is None or abs(sh[0] - main[0]) > 1e-6 * ref_scale:
                    viol.append((c, g["main"], "lattice sum not periodic in the box along axis %d: %r vs %r" % (ax, sh, main[0])))
                fP, fM = val(g["faceP%d" % ax]), val(g["faceM%d" % ax])
                if fP is None or fM is None or abs(fP[0] - fM[0]) > 1e-9 * scale * 5.0 / L ** 2:
                    viol.append((c, g["main"], "lattice sum differs on opposite box faces (axis %d): %r vs %r" % (ax, fP, fM)))
                want = -main[0] if ax == d else main[0]
                if fp is None or abs(fp[0] - want) > 1e-12 * ref_scale:
                    viol.append((c, g["main"], "lattice sum not %s in component %d: %r vs %r" % (
                        "odd" if ax == d else "even", ax, fp, want)))
            a2 = val(g["alpha2"])
            if a2 is None or abs(a2[0] - main[0]) > 1e-9 * ref_scale:
                viol.append((c, g["main"], "lattice sum depends on the Ewald splitting parameter: alpha=3.45 -> %r, "
                             "alpha=2.9 -> %r" % (main[0], a2)))
            if n_mic <= ctx.n(12, 60):
                ps = [s[d], s[(d + 1) % 3], s[(d + 2) % 3]]
                ref = ewald_reference(ps, L) * fl(op, "pref") * fl(op, "c1") * fl(op, "c2") * sp
                mic_err.append(abs(ref - main[0]) / ref_scale)
                if abs(ref - main[0]) > 1e-9 * ref_scale:
                    viol.append((c, g["main"], "lattice-sum derivative %r differs from the brute-force Ewald reference %r"
                                 % (main[0], ref)))
        # --- Coq correspondence
        if c["fam"] == "bend":
            terms = bend_terms(op)
            for mv in range(3):
                ev = K.evaluate(lambda A, mv=mv: bend_mirror(A, op, mv), rng)
                if ev is None:
                    continue
                tol = max(ev["tol"], 2.0 ** -40 * max(abs(t) for t in main))
                info = {"k": "bend_der", "unit": mv, "cond": "%.3g" % ev["cond"], "tol": "%.3g" % tol}
                coq_cases.append(K.Case("Rabs (%s - %s) <= %s" % (terms[mv], rq(main[mv]), rq(Fr(tol))), "bend_case", info))
                idx.append(i)
                evs[len(coq_cases) - 1] = ev
            continue
        fn = mirror_der(op)
        if fn is None:
            continue
        ev = K.evaluate(fn, rng)
        if ev is None:
            continue
        info = {"k": op["k"], "cond": "%.3g" % ev["cond"], "tol": "%.3g" % ev["tol"], "impl": repr(main[0])}
        coq_cases.append(K.Case("Rabs (%s - %s) <= %s" % (der_term(op), rq(main[0]), rq(Fr(ev["tol"]))), "real_case", info))
        idx.append(i)
        evs[len(coq_cases) - 1] = ev
    nproved, bad, nfiles, nok, err = K.prove_cases(ctx, "c03", coq_cases, per_file=ctx.n(15, 60))
    if err and not bad:
        broken.append("correspondence case files did not evaluate: " + err[-600:])
    mism = sorted({idx[j] for j in bad})

    def pack(c, r, msg):
        return {"kind": "c03-cases", "cases": [{"fam": c["fam"], "op": c["op"]}], "impl_result": r, "message": msg,
                "readable": {k: (b2f(v) if isinstance(v, int) and k not in ("dir", "p", "p_int", "fc", "pc") else
                                 ([b2f(t) for t in v] if isinstance(v, list) else v)) for k, v in c["op"].items()}}
    if viol:
        c, r, msg = viol[0]
        d = pack(c, r, msg)
        d["n_failing"] = len(viol)
        C.violation(ctx, "oracle", d, "C03 fails on the implementation: " + msg)
    elif mism:
        i = mism[0]
        j = bad[0]
        d = pack(cases[i], got[i]["main"], "model/implementation disagree beyond tol=%g (cond %g) on %d cases; the "
                 "finite-difference oracle found no failing input; the correspondence with Model/PotentialsR.v "
                 "(theorems of Props/C03.v) no longer checks" % (evs[j]["tol"], evs[j]["cond"], len(mism)))
        C.violation(ctx, "correspondence", d, "derivative model and implementation disagree", nofail=True)
    elif broken:
        C.violation(ctx, "obligation", {"kind": "obligation", "broken": broken}, broken[0][:200], nofail=True)
    fams = {}
    for c in cases:
        fams[c["fam"]] = fams.get(c["fam"], 0) + 1
    conds = sorted(e["cond"] for e in evs.values() if math.isfinite(e["cond"]))
    C.write_evidence(ctx, {
        "evaluations": len(ops),
        "distinct_nontrivial": len(cases),
        "rule": "a case is one (potential parameters, separation(s), direction, speed, charges) tuple; each is "
                "evaluated with companions (doubled speed / charge, swapped charges, permuted axes, shifted / "
                "mirrored separations, displaced energies for finite differences)",
        "samples": [{"op": cases[i]["op"], "impl": got[i]["main"]} for i in range(0, len(cases), max(1, len(cases) // 6))][:6],
        "input_distribution": fams,
        "condition_numbers": {"median": conds[len(conds) // 2] if conds else None, "max": conds[-1] if conds else None},
        "cases_proved_in_coq": nproved,
        "coq_cases": len(coq_cases),
        "model_vs_impl_mismatches": len(mism),
        "finite_difference_checks": n_fd,
        "scaling_checks": n_scale,
        "lattice_sum_instances": {"cases": n_copy, "instances": COPY_VIAS,
                                  "box_lengths": sorted({b2f(c["op"]["L"]) for c in cases if c["fam"] == "miccopy"}),
                                  "max_deviation_from_bruteforce_ewald_over_scale": max(copy_err) if copy_err else None},
        "lattice_sum_box_scaling": {"cases": n_scaling,
                                    "box_lengths": sorted({b2f(c["op"]["L"]) for c in cases if c["fam"] == "micscale"}),
                                    "max_deviation_from_bruteforce_ewald_over_scale": max(scale_err) if scale_err else None},
        "lattice_sum": {"points": n_mic, "compared_with_bruteforce_ewald": len(mic_err),
                        "max_deviation_over_scale": max(mic_err) if mic_err else None,
                        "status": "numerical validation only (partial): not modelled in Coq"},
        "oracle_failures": len(viol),
        "traces_validated_against_impl": nproved,
        "case_files": nfiles, "case_files_ok": nok,
        "explanation": "Props/C03.v re-checked (%d theorems); closed-form derivatives compared with the real model inside "
                       "Coq (interval arithmetic, one Lemma per case); finite-difference oracle on the implementation's "
                       "own energy; scaling, symmetry and permutation laws on the compiled C extensions; lattice sum "
                       "validated numerically only (partial)" % nthm,
        "trusted_base": TRUSTED,
    }, ASSUME)


def replay(ctx, path):
    data = json.load(open(path))
    run(ctx, cases_override=data.get("cases", []))
