"""Fail-closed translator: config_files/**/*.ini  ->  Coq swiring terms (Model/Wiring.v), one per configuration,
and the obligation  wiring_static_ok w = true  decided by vm_compute.  An unknown tagger class, event-handler class
or malformed option makes the translation fail, which breaks the obligation (never silently skipped)."""
import glob
import os
import re
from configparser import ConfigParser

import common as C

TCLASS = {
    "factor_type_map_in_state_tagger": "TFactorMap", "cell_veto_tagger": "TCellVeto",
    "cell_bounding_potential_tagger": "TCellBounding", "excluded_cells_tagger": "TExcluded",
    "surplus_cells_tagger": "TSurplus", "cell_boundary_tagger": "TCellBoundary",
    "no_in_state_tagger": "TNoInState", "active_global_state_in_state_tagger": "TActiveGlobal",
    "active_root_unit_in_state_tagger": "TActiveRoot",
}
HKIND = {
    "initial_chain_start_of_run_event_handler": "KStart",
    "final_time_end_of_run_event_handler": "KEndOfRun",
    "fixed_interval_sampling_event_handler": "KSampling",
    "fixed_interval_dumping_event_handler": "KDumping",
    "single_independent_active_periodic_direction_end_of_chain_event_handler": "KEndOfChain",
    "single_independent_active_sequential_direction_end_of_chain_event_handler": "KEndOfChain",
    "root_leaf_unit_active_switcher": "KSwitcher",
    "cell_boundary_event_handler": "KCellBoundary",
    "leaf_unit_cell_veto_event_handler": "KCellVeto",
    "composite_object_cell_veto_event_handler": "KCellVeto",
    "two_leaf_unit_event_handler": "KInteraction",
    "two_leaf_unit_bounding_potential_event_handler": "KInteraction",
    "two_composite_object_summed_bounding_potential_event_handler": "KInteraction",
    "two_leaf_unit_cell_bounding_potential_event_handler": "KInteraction",
    "two_composite_object_cell_bounding_potential_event_handler": "KInteraction",
    "fixed_separations_event_handler_with_piecewise_constant_bounding_potential": "KInteraction",
    "two_leaf_unit_event_handler_with_piecewise_constant_bounding_potential": "KInteraction",
    "root_unit_active_two_leaf_unit_event_handler": "KInteraction",
    "root_unit_active_two_composite_object_summed_bounding_potential_event_handler": "KInteraction",
}


class TranslationError(Exception):
    pass


def camel(s):
    return "".join(p.capitalize() for p in s.split("_"))


def alias(x):
    x = x.strip()
    m = re.match(r"^(\w+)\s*\((\w+)\)$", x)
    if m:
        return m.group(1), m.group(2)
    if not re.match(r"^\w+$", x):
        raise TranslationError("cannot parse %r" % x)
    return x, x


def split_list(s):
    return [x.strip() for x in s.replace("\n", " ").split(",") if x.strip()]


def translate(path):
    cp = ConfigParser()
    if not cp.read(path):
        raise TranslationError("cannot read " + path)
    med = camel(alias(cp.get("Run", "mediator"))[0])
    act = camel(alias(cp.get(med, "activator"))[0])
    taggers = [alias(t) for t in split_list(cp.get(act, "taggers"))]
    names = [t[0] for t in taggers]
    if len(set(names)) != len(names):
        raise TranslationError("duplicate tagger name")
    labels = {}
    terms = []
    aims, start_deact = [], []
    for name, cls in taggers:
        sec = camel(name)
        if not cp.has_section(sec):
            raise TranslationError("no section for tagger " + name)
        if cls not in TCLASS:
            raise TranslationError("unknown tagger class " + cls)
        ehname, eh = alias(cp.get(sec, "event_handler"))
        if eh not in HKIND:
            raise TranslationError("unknown event handler class " + eh)
        if HKIND[eh] == "KSwitcher":
            # the mode of motion this tagger's event switches to (Model/Wiring.v, mode_fun_ok)
            aim = cp.get(camel(ehname), "aim_mode", fallback=None)
            if aim is None or aim.strip() not in ("leaf_unit_active", "root_unit_active"):
                raise TranslationError("mode switcher %s without a known aim_mode" % ehname)
            aims.append("(Some %d)" % (0 if aim.strip() == "leaf_unit_active" else 1))
        else:
            aims.append("None")
        if HKIND[eh] == "KStart":
            start_deact = split_list(cp.get(sec, "deactivate", fallback=""))
        lab = cp.get(sec, "internal_state_label", fallback=None)
        if lab is not None:
            labels.setdefault(lab.strip(), len(labels))

        def ids(opt):
            out = []
            for x in split_list(cp.get(sec, opt, fallback="")):
                if x not in names:
                    raise TranslationError("tag %s in %s of %s is not a tagger" % (x, opt, name))
                out.append(names.index(x))
            return C.coq_list(["%d" % i for i in out])
        for opt in cp.options(sec):
            if opt not in ("create", "trash", "activate", "deactivate", "event_handler", "number_event_handlers",
                           "internal_state_label", "factor_type_maps", "factor_type_maps_label", "tag"):
                raise TranslationError("unknown option %s in tagger section %s" % (opt, sec))
        terms.append("{| g_class := %s; g_hkind := %s; g_label := %s; g_creates := %s; g_trashes := %s; "
                     "g_activates := %s; g_deactivates := %s |}" % (
                         TCLASS[cls], HKIND[eh], "None" if lab is None else "(Some %d)" % labels[lab.strip()],
                         ids("create"), ids("trash"), ids("activate"), ids("deactivate")))
    # the mode after the start of the run: the one the switcher(s) deactivated by the start-of-run tagger aim at
    m0s = {aims[names.index(x)] for x in start_deact if x in names and aims[names.index(x)] != "None"}
    if len(m0s) > 1 or (not m0s and any(a != "None" for a in aims)):
        raise TranslationError("cannot determine the mode of motion after the start of the run")
    m0 = int(m0s.pop()[6:-1]) if m0s else 0
    translate.modes = (C.coq_list(aims), m0)
    return C.coq_list(terms), names


def static_obligations(ctx):
    """Translate every shipped .ini of the CURRENT tree and decide wiring_static_ok in Coq.
    Returns a list of broken-obligation messages (empty = all discharged)."""
    base = os.path.join(ctx.scratch, "jellyfysh")
    files = sorted(glob.glob(os.path.join(base, "config_files", "**", "*.ini"), recursive=True))
    lines = ["Require Import JF.Model.Kinematics JF.Model.Wiring.", "From Coq Require Import List Bool.",
             "Import ListNotations."]
    names, errs = [], []
    for i, f in enumerate(files):
        rel = os.path.relpath(f, base)
        try:
            term, _ = translate(f)
        except (TranslationError, Exception) as e:  # noqa  fail closed
            errs.append("translation of %s failed: %s" % (rel, e))
            continue
        lines.append("Definition w%d : swiring := %s." % (i, term))
        lines.append("Definition aims%d : list (option nat) := %s." % (i, translate.modes[0]))
        lines.append("Definition ok%d : bool := wiring_static_ok w%d && mode_fun_ok w%d aims%d %d." % (
            i, i, i, i, translate.modes[1]))
        names.append((i, rel))
    lines.append('Definition result := ("RESULT"%string, ' + C.coq_list(
        ["(%d, ok%d)" % (i, i) for i, _ in names]) + ").")
    lines.append("From Coq Require Import String.")
    lines.append("Eval vm_compute in result.")
    src = "\n".join(lines).replace('("RESULT"%string', '("RESULT"%string')
    # String must be imported before the literal is parsed
    src = src.replace("From Coq Require Import List Bool.", "From Coq Require Import List Bool String.")
    os.makedirs(ctx.gen, exist_ok=True)
    fn = os.path.join(ctx.gen, "Wiring_all.v")
    open(fn, "w").write(src + "\n")
    ctx.obligations += len(files)
    ctx.checker_cmds.append("coqc -Q coq JF <gen>/Wiring_all.v  (wiring_static_ok && mode_fun_ok of %d translated .ini files)" % len(files))
    ok, out = C.coqc(fn, ctx.gen)
    if not ok:
        return errs + ["Wiring_all.v does not compile: " + out[-500:]]
    flat = " ".join(out.split())
    res = dict((int(a), b == "true") for a, b in re.findall(r"\(\s*(\d+),\s*(true|false)\)", flat))
    for i, rel in names:
        if res.get(i):
            ctx.discharged += 1
        else:
            errs.append("wiring_static_ok / mode_fun_ok fails for %s (create/trash/activate/deactivate lists inconsistent "
                        "with the footprints of its taggers and event handlers, or the activated taggers are not a "
                        "function of the mode of motion)" % rel)
    ctx.notes.append("static wiring: %d configurations translated, %d ok" % (len(names), sum(res.values())))
    return errs
