"""C14 — Time stamps keep full resolution and order (DESIGN.md section 5, C14)."""
import math
from fractions import Fraction as Fr

import common as C
from common import f2b, b2f

HEADER = "Require Import JF.Base.F64 JF.Model.Time JF.Model.TimeCases.\nOpen Scope Z_scope."
PRED1 = math.nextafter(1.0, 0.0)


def pools(rng):
    qs = [0.0, 1.0, 2.0, 3.0, 7.0, 2.0 ** 52, 2.0 ** 52 - 1, 2.0 ** 51 + 1, 2.0 ** 31, 2.0 ** 32 - 1, 1e6, 123456789.0]
    qs += [2.0 ** k for k in (10, 20, 30, 40, 50)] + [2.0 ** k - 1 for k in (10, 20, 30, 40, 50)]
    rs = [0.0, 5e-324, 2.0 ** -1022, 2.0 ** -53, 2.0 ** -52, 0.25, 0.5, math.nextafter(0.5, 0), math.nextafter(0.5, 1),
          PRED1, math.nextafter(PRED1, 0), 0.1, 0.3, 0.7, 0.9999]
    ds = [0.0, 5e-324, 1e-310, 2.0 ** -1022, 1e-300, 1e-100, 2.0 ** -60, 2.0 ** -53, 2.0 ** -52, 1e-10, 1e-3, 0.1, 0.5,
          PRED1, 1.0, math.nextafter(1.0, 2), 1.5, 2.0, 3.7, 1e3, 2.0 ** 40, 2.0 ** 40 - 0.5, math.inf]
    return qs, rs, ds


def gen_time(rng, qs, rs):
    q = rng.choice(qs) if rng.random() < 0.6 else float(rng.randrange(0, 2 ** rng.randrange(1, 53)))
    r = rng.choice(rs) if rng.random() < 0.6 else rng.random()
    if rng.random() < 0.1:
        r = math.ldexp(rng.random(), -rng.randrange(0, 1074))
    return q, r


def gen_ops(ctx, n):
    rng = ctx.rng
    qs, rs, ds = pools(rng)
    ops = [["inf"]]
    for w in (0, 1, 2):
        for _ in range(12):
            q, r = gen_time(rng, qs, rs)
            ops.append(["cmpinf", f2b(q), f2b(r), w])
    for _ in range(n):
        k = rng.random()
        if k < 0.4:
            q, r = gen_time(rng, qs, rs)
            u = rng.random()
            if u < 0.5:
                d = rng.choice(ds)
            elif u < 0.8:
                d = rng.expovariate(1.0) * 10 ** rng.randrange(-12, 6)
            elif u < 0.9:  # land (nearly) on an integer boundary
                d = (1.0 - r) + rng.choice([0.0, 2.0 ** -53, -2.0 ** -53, 1.0, 2.0 ** -54])
                d = max(d, 0.0)
            else:
                d = math.ldexp(rng.random(), rng.randrange(-1074, 41))
            ops.append(["add", f2b(q), f2b(r), f2b(d)])
        elif k < 0.5:
            u = rng.random()
            x = rng.choice(ds + qs) if u < 0.4 else (rng.random() * 2.0 ** rng.randrange(-60, 60))
            if rng.random() < 0.15:
                x = x + rng.random()
            ops.append(["from", f2b(x)])
        elif k < 0.65:
            a = gen_time(rng, qs, rs)
            b = gen_time(rng, qs, rs)
            if rng.random() < 0.3:
                b = (a[0] + rng.choice([-1.0, 0.0, 1.0]), b[1])
                if b[0] < 0:
                    b = (0.0, b[1])
            ops.append(["sub", f2b(a[0]), f2b(a[1]), f2b(b[0]), f2b(b[1])])
        else:
            a = gen_time(rng, qs, rs)
            u = rng.random()
            if u < 0.25:
                b = a
            elif u < 0.5:
                b = (a[0], rng.choice(rs))
            elif u < 0.7:
                b = (a[0] + rng.choice([-1.0, 1.0]), rng.choice(rs))
            else:
                b = gen_time(rng, qs, rs)
            if rng.random() < 0.05:
                a = (math.inf, math.inf)
            if rng.random() < 0.05:
                b = (math.inf, math.inf)
            ops.append(["cmp", f2b(a[0]), f2b(a[1]), f2b(b[0]), f2b(b[1])])
    return ops


def case_term(op, res):
    k = op[0]
    if res and res[0] in ("EXC", "ERR"):
        return None
    if k == "add":
        return "CAdd %d %d %d %d %d" % (op[1], op[2], op[3], res[0], res[1])
    if k == "from":
        return "CFrom %d %d %d" % (op[1], res[0], res[1])
    if k == "sub":
        return "CSub %d %d %d %d %d" % (op[1], op[2], op[3], op[4], res[0])
    if k == "cmp":
        return "CCmp %d %d %d %d %s" % (op[1], op[2], op[3], op[4], C.coq_list([C.coq_bool(x) for x in res]))
    if k == "inf":
        return "CInf %d %d" % (res[0], res[1])
    if k == "cmpinf":
        INF = 0x7FF0000000000000
        a = (op[1], op[2]) if op[3] == 0 else (INF, INF)
        return "CCmp %d %d %d %d %s" % (a[0], a[1], INF, INF, C.coq_list([C.coq_bool(x) for x in res[:6]])) \
            + ";\n" + "CCmp %d %d %d %d %s" % (INF, INF, a[0], a[1], C.coq_list([C.coq_bool(x) for x in res[6:]]))
    if k == "heap":
        return "CHeap %s %s" % (C.coq_list(["(%d, %d)" % (q, r) for q, r in op[1]]),
                                C.coq_list(["%d%%nat" % i for i in res]))
    if k == "heappurge":
        return "CHeap %s %s" % (C.coq_list(["(%d, %d)" % (q, r) for q, r in purge_valid_times(op)]),
                                C.coq_list(["%d%%nat" % i for i in res]))
    if k == "hist":
        INF = 0x7FF0000000000000
        st = []
        for x in op[1]:
            st.append({"new": lambda: "HNew %d %d" % (x[1], x[2]), "from": lambda: "HFrom %d" % x[1],
                       "upd": lambda: "HUpd %d %d" % (x[1], x[2]),
                       "updadd": lambda: "HUpdAdd %d %d %d" % (x[1], x[2], x[3]),
                       "updfrom": lambda: "HUpdFrom %d" % x[1], "updinf": lambda: "HUpd %d %d" % (INF, INF),
                       "add": lambda: "HAdd %d" % x[1]}
                      .get(x[0], lambda: "HCopy")())
        return "CHist %s %d %d %d %d %d %s %d %d %d %d" % (
            C.coq_list(st), op[2][0], op[2][1], op[3], res[0], res[1],
            C.coq_list([C.coq_bool(x) for x in res[2:14]]), res[14], res[15], res[16], res[17])


def ulp(x):
    return Fr(math.ulp(float(x)))


def normalised(q, r):
    return math.isfinite(q) and q == math.floor(q) and 0.0 <= r < 1.0


def oracle(op, res):
    """The property stated directly on the implementation's output (exact rationals).
    Returns None if it holds (or the case is outside the property's domain), else a message."""
    k = op[0]
    if res and res[0] in ("EXC", "ERR"):
        return "exception %s in op %s" % (res[1], k)
    if k == "add":
        q, r, d = b2f(op[1]), b2f(op[2]), b2f(op[3])
        nq, nr = b2f(res[0]), b2f(res[1])
        if not normalised(q, r) or d < 0 or q > 2.0 ** 52:
            return None
        if math.isinf(d):
            return None if (nq == math.inf and nr == math.inf) else "inf not absorbing"
        if not normalised(nq, nr):
            return "result not normalised: (%r, %r)" % (nq, nr)
        exact = Fr(q) + Fr(r) + Fr(d)
        got = Fr(nq) + Fr(nr)
        s = r + d
        if abs(got - exact) > ulp(s) / 2:
            return "error %s exceeds half an ulp of r+d" % float(got - exact)
        if got < Fr(q) + Fr(r):
            return "time decreased"
        return None
    if k == "from":
        x = b2f(op[1])
        nq, nr = b2f(res[0]), b2f(res[1])
        if x < 0 or math.isnan(x):
            return None
        if math.isinf(x):
            return None if nq == nr == math.inf else "from_float(inf)"
        if not normalised(nq, nr) or Fr(nq) + Fr(nr) != Fr(x):
            return "from_float not exact"
        return None
    if k == "sub":
        a = (b2f(op[1]), b2f(op[2]))
        b = (b2f(op[3]), b2f(op[4]))
        if not (normalised(*a) and normalised(*b)) or max(a[0], b[0]) > 2.0 ** 52:
            return None
        exact = Fr(a[0]) + Fr(a[1]) - Fr(b[0]) - Fr(b[1])
        got = Fr(b2f(res[0]))
        if abs(got - exact) > 3 * ulp(max(1.0, abs(float(exact)))):
            return "sub error %s" % float(got - exact)
        return None
    if k == "cmp":
        a = (b2f(op[1]), b2f(op[2]))
        b = (b2f(op[3]), b2f(op[4]))

        def val(t):
            if t[0] == math.inf:
                return None
            return Fr(t[0]) + Fr(t[1])
        if not all((normalised(*t) and t[0] <= 2.0 ** 52) or t == (math.inf, math.inf) for t in (a, b)):
            return None
        va, vb = val(a), val(b)
        if va is None and vb is None:
            exp = [1, 0, 0, 0, 1, 1]
        elif va is None:
            exp = [0, 1, 0, 1, 0, 1]
        elif vb is None:
            exp = [0, 1, 1, 0, 1, 0]
        else:
            exp = [int(va == vb), int(va != vb), int(va < vb), int(va > vb), int(va <= vb), int(va >= vb)]
        return None if list(res) == exp else "comparison %r != exact %r" % (res, exp)
    if k == "inf":
        return None if b2f(res[0]) == b2f(res[1]) == math.inf else "inf constant"
    if k == "cmpinf":
        q, r = b2f(op[1]), b2f(op[2])
        if op[3] == 0 and not (normalised(q, r) and q <= 2.0 ** 52):
            return None
        if op[3] == 0:     # finite normalised time vs the singleton: smaller, and the singleton larger
            exp = [0, 1, 1, 0, 1, 0, 0, 1, 0, 1, 0, 1]
        else:              # an infinite time however built equals the singleton
            exp = [1, 0, 0, 0, 1, 1, 1, 0, 0, 0, 1, 1]
        return None if list(res) == exp else "comparison with the module-level inf: %r != exact %r" % (res, exp)
    if k == "hist":
        return oracle_hist(op, res)
    if k in ("heap", "heappurge"):
        vals = [Fr(b2f(q)) + Fr(b2f(r)) for q, r in (op[1] if k == "heap" else purge_valid_times(op))]
        if sorted(res) != list(range(len(vals))):
            return "heap did not return every event once: %r" % (res,)
        for a, b in zip(res, res[1:]):
            if vals[b] < vals[a]:
                return "C heap returned time %s before the smaller time %s" % (float(vals[a]), float(vals[b]))
        return None
    return None


def purge_valid_times(op):
    """times of the events that are valid after the purge: one per handler, the victim's is the new one"""
    ts = [list(t) for t in op[1]]
    ts[int(op[2])] = list(op[4])
    return ts


def oracle_hist(op, res):
    if len(res) != 23:
        return "result shape"
    steps, trail, msgs = op[1], res[21], res[22]
    if msgs:
        return "aliasing after history %s: %s" % ("/".join(x[0] for x in steps), "; ".join(msgs))
    if res[18] != 1:
        return "update()/copy aliased or changed another Time object (or returned a value)"
    if list(res[19:21]) != list(res[0:2]):
        return "operations changed the Time object"
    if len(trail) != len(steps) or list(trail[-1]) != list(res[0:2]):
        return "result shape (trail)"
    INF = f2b(math.inf)
    hist = "after history %s: " % "/".join(x[0] for x in steps)
    prev = None
    for n, (x, tr) in enumerate(zip(steps, trail)):
        tr = list(tr)
        m = None
        if x[0] in ("new", "upd"):
            if tr != [x[1], x[2]]:
                m = "Time object does not hold the value of its last assignment: (%r, %r) instead of (%r, %r)" % (
                    b2f(tr[0]), b2f(tr[1]), b2f(x[1]), b2f(x[2]))
        elif x[0] == "updinf":
            if tr != [INF, INF]:
                m = "Time object updated from inf holds (%r, %r)" % (b2f(tr[0]), b2f(tr[1]))
        elif x[0] in ("from", "updfrom"):
            m = oracle(["from", x[1]], tr)
        elif x[0] == "updadd":
            m = oracle(["add", x[1], x[2], x[3]], tr)
        elif x[0] == "add":
            m = oracle(["add", prev[0], prev[1], x[1]], tr)
        elif tr != prev:
            m = "%s does not hold the value of the original: (%r, %r)" % (x[0], b2f(tr[0]), b2f(tr[1]))
        if m:
            return hist + "step %d: %s" % (n, m)
        prev = tr
    fq, fr = res[0], res[1]
    for m in (oracle(["cmp", fq, fr, op[2][0], op[2][1]], list(res[2:8])),
              oracle(["cmp", op[2][0], op[2][1], fq, fr], list(res[8:14])),
              oracle(["add", fq, fr, op[3]], list(res[14:16])),
              oracle(["sub", fq, fr, op[2][0], op[2][1]], [res[16]]),
              oracle(["sub", op[2][0], op[2][1], fq, fr], [res[17]])):
        if m:
            return hist + m
    return None


def hist_ops(ctx, n):
    """object histories: construct, update() (also repeatedly, also from/to inf, from results of + and from_float),
    copy / deepcopy / pickle / dill round trips, then all comparisons, +, - on the final object"""
    rng = ctx.rng
    qs, rs, ds = pools(rng)
    INF = f2b(math.inf)
    ops = []
    for _ in range(n):
        vals = []                                   # finite values the object held (for choosing the other operand)

        def tm():
            q, r = gen_time(rng, qs, rs)
            vals.append((q, r))
            return q, r
        u = rng.random()
        if u < 0.75:
            q, r = tm()
            steps = [["new", f2b(q), f2b(r)]]
        elif u < 0.9:
            steps = [["from", f2b(rng.random() * 2.0 ** rng.randrange(-20, 40))]]
        else:
            steps = [["new", INF, INF]]
        nupd = 0
        for _ in range(rng.randrange(1, 5)):
            v = rng.random()
            if v < 0.5:
                q, r = tm()
                steps.append(["upd", f2b(q), f2b(r)])
                nupd += 1
            elif v < 0.58:
                q, r = gen_time(rng, qs, rs)
                d = rng.choice(ds[:-1]) if rng.random() < 0.5 else rng.expovariate(1.0) * 10 ** rng.randrange(-6, 4)
                steps.append(["updadd", f2b(q), f2b(r), f2b(d)])
                vals.append((q + math.floor(r + d), 0.5))
                nupd += 1
            elif v < 0.64:
                x = rng.random() * 2.0 ** rng.randrange(-20, 40)
                steps.append(["updfrom", f2b(x)])
                vals.append((math.floor(x), 0.5))
                nupd += 1
            elif v < 0.70:
                steps.append(["updinf"])
                nupd += 1
            elif v < 0.86:
                # the object becomes the RESULT of an addition (+ inf, + 0.0, + finite), later steps mutate that result
                z = rng.random()
                d = math.inf if z < 0.4 else (0.0 if z < 0.55 else rng.expovariate(1.0) * 10 ** rng.randrange(-6, 3))
                steps.append(["add", f2b(d)])
                if vals and math.isfinite(d):
                    vals.append((vals[-1][0] + math.floor(d), 0.5))
            else:
                steps.append([rng.choice(["copy", "deepcopy", "pickle", "dill"])])
        if nupd == 0:
            q, r = tm()
            steps.append(["upd", f2b(q), f2b(r)])
        if rng.random() < 0.5:
            steps.append([rng.choice(["copy", "deepcopy", "pickle", "dill"])])
        w = rng.random()
        if vals and w < 0.75:
            # near one of the values the object holds or held: equal, a remainder apart, a quotient apart, in between
            q, r = rng.choice(vals) if rng.random() < 0.5 else vals[-1]
            z = rng.random()
            if z < 0.25:
                b = (q, r)
            elif z < 0.5:
                b = (q, rng.choice(rs))
            elif z < 0.7:
                b = (max(q + rng.choice([-1.0, 1.0]), 0.0), rng.choice(rs))
            else:
                q2 = rng.choice(vals)[0]
                b = (math.floor((q + q2) / 2.0), rng.choice(rs))
        elif w < 0.8:
            b = (math.inf, math.inf)
        else:
            b = gen_time(rng, qs, rs)
        if not (b[0] == math.inf or (math.isfinite(b[0]) and b[0] <= 2.0 ** 52)):
            b = gen_time(rng, qs, rs)
        d = rng.choice(ds) if rng.random() < 0.5 else rng.expovariate(1.0) * 10 ** rng.randrange(-9, 4)
        ops.append(["hist", steps, [f2b(b[0]), f2b(b[1])], f2b(d)])
    return ops


def purge_ops(ctx, n):
    """the C heap after a purge (delete_events, reached when a handler's lazy-deletion counter leaves the range of a C
    unsigned int): all remaining valid events must still come out in the exact order of their times"""
    rng = ctx.rng
    ops = []
    for _ in range(n):
        nh = rng.randrange(6, 16)
        q0 = float(rng.choice([0, 1, 57854, 2 ** 31, 2 ** 40]))

        def t():
            u = rng.random()
            if u < 0.3:
                return [f2b(q0 + rng.randrange(0, 3)), f2b(min(rng.choice([0.9999, 0.5, 0.25]) + rng.randrange(0, 64) * 2.0 ** -53, PRED1))]
            return [f2b(q0 + rng.randrange(0, 40)), f2b(rng.random())]
        times = [t() for _ in range(nh)]
        stale = [t() for _ in range(rng.randrange(2, 9))]
        ops.append(["heappurge", times, rng.randrange(nh), stale, t()])
    return ops


def heap_ops(ctx, n):
    """times pushed to the real C heap (heap.c compares quotient, then remainder) and popped completely: times that
    differ by less than the float resolution of their sum, across quotient boundaries, at large quotients"""
    rng = ctx.rng
    ops = []
    for _ in range(n):
        k = rng.randrange(3, 9)
        q0 = float(rng.choice([0, 1, 57854, 2 ** 20, 2 ** 31, 2 ** 40, 2 ** 52 - 4]))
        ts = []
        for _ in range(k):
            u = rng.random()
            if u < 0.4:
                q, r = q0, rng.choice([0.9999, 0.5, 0.25]) + rng.randrange(0, 64) * 2.0 ** -53
            elif u < 0.6:
                q, r = q0 + 1, rng.randrange(0, 8) * 2.0 ** -60
            elif u < 0.8:
                q, r = q0, PRED1 - rng.randrange(0, 8) * 2.0 ** -53
            else:
                q, r = q0 + rng.randrange(0, 3), rng.random()
            ts.append([f2b(q), f2b(min(r, PRED1))])
        ops.append(["heap", ts])
    return ops


def monotone_pairs(ctx, n):
    """add is monotone in the displacement: pairs (t, d1 <= d2)."""
    rng = ctx.rng
    qs, rs, ds = pools(rng)
    ops = []
    for _ in range(n):
        q, r = gen_time(rng, qs, rs)
        d1 = rng.choice(ds[:-1]) if rng.random() < 0.4 else rng.random() * 10 ** rng.randrange(-15, 3)
        u = rng.random()
        d2 = math.nextafter(d1, math.inf) if u < 0.4 else (d1 * (1 + 2.0 ** -rng.randrange(1, 52)) if u < 0.8 else d1 + rng.random())
        ops.append(["add", f2b(q), f2b(r), f2b(d1)])
        ops.append(["add", f2b(q), f2b(r), f2b(d2)])
    return ops


def run_impl(ctx, ops):
    chunks = [ops[i:i + 5000] for i in range(0, len(ops), 5000)]
    outs = C.run_driver_parallel(ctx, "c14_time", [{"ops": ch} for ch in chunks])
    res = []
    for o in outs:
        res += o["out"]
    return res


def run(ctx, ops_override=None):
    C.build_scratch(ctx, exts=("heap",))
    broken = []
    ok, out, nthm = C.check_props(ctx)
    if not ok:
        broken.append("Props/C14.v does not check: " + out[-600:])
    n = ctx.n(4000, 200000)
    corpus = load_corpus()
    ops = ops_override if ops_override is not None else corpus + gen_ops(ctx, n) + heap_ops(ctx, ctx.n(300, 5000)) \
        + hist_ops(ctx, ctx.n(1500, 40000)) + purge_ops(ctx, ctx.n(200, 3000))
    mono = [] if ops_override is not None else monotone_pairs(ctx, ctx.n(500, 20000))
    res = run_impl(ctx, ops + mono)
    res_main, res_mono = res[:len(ops)], res[len(ops):]
    # correspondence: model vs implementation, bit-exact, evaluated in Coq
    terms, idxmap = [], []
    for i, (op, r) in enumerate(zip(ops + mono, res)):
        t = case_term(op, r)
        if t is not None:
            for tt in t.split(";\n"):
                terms.append(tt)
                idxmap.append(i)
    neval, bad, nfiles, nok, err = C.eval_cases(ctx, "c14", HEADER, terms, "check_tcase", "tcase", per_file=1000)
    if err:
        broken.append("correspondence case files did not evaluate: " + err[-600:])
    allops = ops + mono
    mism = [idxmap[i] for i in bad]
    # oracle on the implementation (model-independent)
    fails = []
    for i, (op, r) in enumerate(zip(allops, res)):
        m = oracle(op, r)
        if m:
            fails.append((i, m))
    for j in range(0, len(mono), 2):
        a, b = res_mono[j], res_mono[j + 1]
        if a[0] in ("EXC", "ERR") or b[0] in ("EXC", "ERR"):
            continue
        va = (b2f(a[0]), b2f(a[1]))
        vb = (b2f(b[0]), b2f(b[1]))
        if va > vb:
            fails.append((len(ops) + j, "add not monotone in displacement"))
    kinds = {}
    for op in allops:
        kinds[op[0]] = kinds.get(op[0], 0) + 1
    distinct = len({json_key(op) for op in allops})
    if fails:
        i, m = fails[0]
        C.violation(ctx, "oracle", {"kind": "c14-ops", "ops": [allops[i]] if allops[i][0] != "add" or i < len(ops)
                                    else allops[i - (i - len(ops)) % 2: i - (i - len(ops)) % 2 + 2],
                                    "impl_result": res[i], "message": m,
                                    "n_failing": len(fails)}, "C14 fails on the implementation: " + m)
    elif mism:
        i = mism[0]
        C.violation(ctx, "correspondence", {"kind": "c14-ops", "ops": [allops[i]], "impl_result": res[i],
                                            "message": "model/implementation disagree bit-wise (%d cases); the "
                                            "exact-arithmetic oracle found no failing input; correspondence "
                                            "JF.Model.TimeCases.check_tcase no longer checks" % len(mism)},
                    "Time model and implementation disagree", nofail=True)
    elif broken:
        C.violation(ctx, "obligation", {"kind": "obligation", "broken": broken}, broken[0][:200], nofail=True)
    C.write_evidence(ctx, {
        "evaluations": len(allops),
        "distinct_nontrivial": distinct,
        "rule": "operations on Time drawn from edge pools (quotients 0..2^52, remainders 0..pred 1, displacements "
                "denormal..2^40, inf) mixed with random values; distinct = distinct (op, bit-pattern) tuples; every "
                "case exercises float arithmetic, none is trivial",
        "samples": [{"op": allops[i], "impl": res[i]} for i in range(0, min(len(allops), 2000), 400)],
        "input_distribution": kinds,
        "model_vs_impl_mismatches": len(mism),
        "oracle_failures": len(fails),
        "traces_validated_against_impl": neval,
        "case_files": nfiles, "case_files_ok": nok,
        "explanation": "Props/C14.v re-checked (%d theorems); bit-exact correspondence of Model/Time.v with "
                       "jellyfysh.base.time.Time evaluated in Coq, including objects with a history (update() from "
                       "fresh / computed / infinite times, copy, deepcopy, pickle, dill) on which every comparison, + and "
                       "- must see the value of the last assignment; the real C heap drained in order, also after a "
                       "purge (delete_events); exact-rational oracle on the implementation" % nthm,
        "trusted_base": TRUSTED,
    }, ASSUME)


def json_key(op):
    import json
    return json.dumps(op)


TRUSTED = [
    "Flocq 4.1 IEEE754.BinarySingleNaN (executable binary64) and its *_correct theorems",
    "hand-written model coq/Model/Time.v, coq/Base/PyFloat.v (CPython float divmod/rem transcribed)",
    "correspondence harness harness/c14.py + drivers/c14_time.py (bit-level (de)serialisation of floats)",
]
ASSUME = [
    "the model is tied to the code by bit-exact differential evaluation on generated inputs, not by a semantics of Python",
    "heap.c's comparison is the same quotient-then-remainder function (checked in C06)",
    "Time defines __eq__ without __hash__ (unhashable) and no __float__: neither is exercised",
    "results of operations are fresh values in the (functional) Coq model; aliasing — a result of +, from_float or a "
    "copy being the module constant inf or an earlier object, an update() reaching another object, the module constant "
    "changing — is checked on the implementation only, by keeping every returned Time alive and re-reading it after "
    "every mutation, plus a probe that fresh Heap/List schedulers still hand back a finite event",
]


def load_corpus():
    import json
    import os
    p = os.path.join(C.VERIF, "corpus", "C14", "ops.json")
    return json.load(open(p)) if os.path.exists(p) else []


def replay(ctx, path):
    import json
    data = json.load(open(path))
    run(ctx, ops_override=data.get("ops", []))
