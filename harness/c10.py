"""C10 — Cell-based and file-based factor decompositions cover each partner exactly once (DESIGN.md section 5, C10).

* obligations: Props/C10.v re-checked; the shipped factor-set files are translated (fail-closed) into
  <gen>/FactorSets.v where `parse_file raw = Some parsed`, `wf_file n parsed = true` and `load_file` succeeding are
  decided by vm_compute (three theorems per file).
* correspondence (evaluated inside Coq): the real SingleActiveCellOccupancy + TagActivator + cell taggers + the cell-veto
  handler's walker domain + the mediator's target lookup against Model/Occupancy.v (initialize, update, taggers) on the
  Z^d-modulo-counts cell system; the real FactorTypeMaps parser / yield_factor_identifier / FactorTypeMapInStateTagger
  against Model/FactorMap.v on generated well-formed and malformed files.
* oracle (independent of Coq): set arithmetic on the taggers' outputs (partition of the other relevant units), and the
  expected instantiations of the index sets computed from an independent strict parse of the file.
"""
import glob
import json
import math
import os
import re
from collections import Counter

import common as C
from common import f2b, b2f

HEADER = ("Require Import JF.Model.Occupancy JF.Model.FactorMap JF.Model.OccupancyCases.\n"
          "Open Scope Z_scope.")
DRIVER = "c10_taggers"


# ------------------------------------------------------------------------------------------------
# Coq term helpers
def lz(t):
    return "[" + "; ".join(C.coq_z(x) for x in t) + "]"


def llz(ts):
    return "[" + "; ".join(lz(t) for t in ts) + "]"


def lllz(tss):
    return "[" + "; ".join(llz(ts) for ts in tss) + "]"


def codes(s):
    return "[" + "; ".join(str(ord(ch)) for ch in s) + "]"


# ------------------------------------------------------------------------------------------------
# occupancy configurations
def gen_position(rng, lengths, counts):
    pos = []
    for L, n in zip(lengths, counts):
        u = rng.random()
        if u < 0.25:
            k = rng.randrange(0, n + 1)
            x = k * (L / n)
            v = rng.random()
            if v < 0.3:
                x = math.nextafter(x, math.inf)
            elif v < 0.6:
                x = math.nextafter(x, -math.inf)
            if x < 0.0:
                x = 0.0
            if x >= L:
                x = rng.choice([0.0, math.nextafter(L, 0.0)])
        else:
            x = rng.random() * L
            if x >= L:
                x = 0.0
        pos.append(x)
    return pos


def gen_occ_config(rng, small):
    dim = rng.choice([1, 2, 2, 3, 3])
    if rng.random() < 0.5:
        per = [rng.randrange(3, 8)]
        counts = per * dim
    else:
        per = [rng.randrange(3, 8) for _ in range(dim)]
        counts = list(per)
    if dim == 3 and small:
        per = [min(p, 5) for p in per]
        counts = [min(c, 5) for c in counts]
    layers = rng.choice([1, 1, 1, 1, 0, 2])
    if rng.random() < 0.6:
        lengths = [1.0] * dim
    else:
        lengths = [rng.choice([1.0, 2.0, 1.5, 3.7, 0.3, 10.0]) for _ in range(dim)]
    levels = 1 if rng.random() < 0.6 else 2
    n_per_root = 1 if levels == 1 else rng.choice([2, 2, 3])
    cell_level = 1 if levels == 1 else rng.choice([1, 2])
    charge_filter = (cell_level == levels) and rng.random() < 0.4
    max_occ = rng.choice([1, 1, 2, 2, 3, 3, 5, 8, 0, -1])
    ncell_units = rng.randrange(2, 14 if small else 30)
    nroots = ncell_units if cell_level == 1 else max(1, ncell_units // n_per_root)
    # hot cells: several units per cell
    hot = [gen_position(rng, lengths, counts) for _ in range(rng.randrange(1, 4))]

    def position():
        if rng.random() < 0.45:
            h = rng.choice(hot)
            p = []
            for x, L, n in zip(h, lengths, counts):
                y = x + (rng.random() - 0.5) * (L / n) * 0.6
                if not (0.0 <= y < L):
                    y = x
                p.append(y)
            return p
        return gen_position(rng, lengths, counts)

    def charge():
        return rng.choice([0.0, 0.0, 1.0, -1.0, 0.5, 2.0]) if charge_filter else None

    roots = []
    for _ in range(nroots):
        r = {"pos": [f2b(x) for x in position()], "charge": charge() if levels == 1 else None}
        if levels == 2:
            r["children"] = [{"pos": [f2b(x) for x in position()], "charge": charge()} for _ in range(n_per_root)]
        roots.append(r)
    leaves = [[i] for i in range(nroots)] if levels == 1 else [[i, j] for i in range(nroots) for j in range(n_per_root)]
    if levels == 2 and cell_level == 1:
        # one (random) leaf per composite object, every composite object active in turn
        order = [[i, rng.randrange(n_per_root)] for i in range(nroots)]
    else:
        order = list(leaves)
    rng.shuffle(order)
    if rng.random() < 0.3:
        order = order + [rng.choice(order) for _ in range(3)]      # units that become active again
    steps = []
    for leaf in order:
        steps.append({"leaf": leaf})
        while rng.random() < 0.3:
            steps.append({"leaf": leaf, "move": [f2b(x) for x in position()]})
    return {"dim": dim, "lengths": [f2b(x) for x in lengths], "cells_per_side": per, "layers": layers,
            "levels": levels, "n_per_root": n_per_root, "cell_level": cell_level, "charge_filter": charge_filter,
            "max_occ": max_occ, "roots": roots, "steps": steps,
            "n_handlers": (nroots * n_per_root if cell_level == 2 else nroots) + 3}


def snap_term(sn):
    return "(mkSnap %s %s %s)" % (
        lllz(sn["occupants"]),
        "[" + "; ".join("(%s, %s)" % (lz(c), llz(v)) for c, v in sn["surplus"]) + "]",
        "[" + "; ".join("(%s, %s)" % (lz(c), lz(i)) for c, i in sn["active"]) + "]")


def occ_case_term(cfg, out, upto=None):
    """Coq term of one occupancy case (None if the driver output is not a complete run)."""
    if "exc" in out or any("exc" in s for s in out["steps"]):
        return None
    if any(len(s["update_args"]) != 1 for s in out["steps"]):
        return None
    counts = cfg["cells_per_side"] if len(cfg["cells_per_side"]) == cfg["dim"] else cfg["cells_per_side"] * cfg["dim"]
    steps = []
    for s in out["steps"][:upto]:
        (nid, rel, cell), = s["update_args"]
        t = s["taggers"]
        steps.append("(mkStep %s %s %s %s %s %s %s %s %s %s)" % (
            lz(nid), C.coq_bool(rel), lz(cell), snap_term(s["state"]),
            lllz(t["cell_veto"]), lllz(t["cell_bounding"]), lllz(t["nearby"]), lllz(t["surplus"]),
            lllz(t["cell_boundary"]),
            "[" + "; ".join("(%s, %s, %s)" % (lz(r), lz(tc), llz(ids)) for r, tc, ids in s["veto_targets"]) + "]"))
    units = "[" + "; ".join("(%s, %s, %s)" % (lz(u), lz(c), C.coq_bool(r)) for u, c, r in out["units"]) + "]"
    return "mkOccCase %s %s %s %s %s %s %s %s %s" % (
        lz(counts), C.coq_z(cfg["layers"]), C.coq_z(cfg["max_occ"]), llz(out["cells"]), llz(out["veto_domain"]),
        llz(out["veto_keys"]), units, snap_term(out["init"]), "[" + ";\n ".join(steps) + "]")


def occ_oracle(cfg, out):
    """C10 (cell part) stated directly on the real taggers' outputs: the three families partition the other
    relevant units.  Returns (message, step index) or None."""
    if "exc" in out:
        return "driver could not build the real objects: %s %s" % (out["exc"], out.get("tb", "")[-300:]), 0
    relevant = [tuple(u) for u, _, r in out["units"] if r]
    if len(set(relevant)) != len(relevant):
        return "unit identifiers not unique", 0
    limit = cfg["max_occ"]

    def check_snapshot(sn, cells_of, k):
        rec = []
        for c, ids in zip(out["cells"], sn["occupants"]):
            if limit > 0 and len(ids) > limit:
                return "cell %r lists %d occupants, limit %d" % (c, len(ids), limit), k
            rec += [(tuple(i), tuple(c)) for i in ids]
        for c, ids in sn["surplus"]:
            if not ids:
                return "empty surplus list stored for cell %r" % (c,), k
            rec += [(tuple(i), tuple(c)) for i in ids]
        flat = [i for c, ids in sn["surplus"] for i in ids]
        if flat != sn["yield_surplus"]:
            return "yield_surplus differs from the surplus dictionary", k
        act = [tuple(i) for _, i in sn["active"]]
        want = Counter(u for u in relevant if u not in act)
        got = Counter(i for i, _ in rec)
        if got != want:
            return "recorded units %r != relevant non-active units %r" % (sorted(got.elements()),
                                                                          sorted(want.elements())), k
        for i, c in rec:
            if cells_of[i] != c:
                return "unit %r recorded in cell %r but its position is in cell %r" % (i, c, cells_of[i]), k
        for c, i in sn["active"]:
            if cells_of[tuple(i)] != tuple(c):
                return "active cell %r is not the cell %r of the active unit" % (c, cells_of[tuple(i)]), k
        return None

    cells_of = {tuple(u): tuple(c) for u, c, _ in out["units"]}
    m = check_snapshot(out["init"], cells_of, 0)
    if m:
        return m
    for k, s in enumerate(out["steps"]):
        if "exc" in s:
            return "the implementation raised %s on a valid configuration: %s" % (s["exc"], s.get("tb", "")[-300:]), k
        if len(s["update_args"]) != 1:
            return "not exactly one active unit on the cell level", k
        (nid, rel, cell), = s["update_args"]
        cells_of[tuple(nid)] = tuple(cell)
        m = check_snapshot(s["state"], cells_of, k)
        if m:
            return m
        t = s["taggers"]
        act = [tuple(i) for _, i in s["state"]["active"]]
        if rel and act != [tuple(nid)]:
            return "relevant active unit %r not recorded as active (%r)" % (nid, act), k
        if not rel and act:
            return "irrelevant unit recorded as active", k
        if not act:
            if any(t[x] for x in t) or s["veto_targets"]:
                return "in-states generated without a relevant active unit", k
            continue
        a = act[0]
        for name in ("cell_veto", "cell_bounding", "nearby", "surplus", "cell_boundary"):
            for ins in t[name]:
                if tuple(ins[0]) != a:
                    return "%s in-state %r does not start with the active unit" % (name, ins), k
        if t["cell_boundary"] != [[list(a)]]:
            return "cell_boundary in-states %r" % (t["cell_boundary"],), k
        others = Counter(u for u in relevant if u != a)
        nearby = [tuple(i) for ins in t["nearby"] for i in ins[1:]]
        surplus = [tuple(i) for ins in t["surplus"] for i in ins[1:]]
        bounding = [tuple(i) for ins in t["cell_bounding"] for i in ins[1:]]
        if any(len(ins) != 2 for ins in t["nearby"] + t["surplus"]):
            return "pair in-state with a wrong number of identifiers", k
        if any(len(ins) < 2 for ins in t["cell_bounding"]):
            return "cell-bounding in-state without target", k
        fams = [("cell-bounding", bounding)]
        if out["veto_domain"]:
            if t["cell_veto"] != [[list(a)]]:
                return "cell_veto in-states %r" % (t["cell_veto"],), k
            veto = [tuple(i) for _, _, ids in s["veto_targets"] for i in ids]
            fams.append(("cell-veto", veto))
        for fname, far in fams:
            union = Counter(far) + Counter(nearby) + Counter(surplus)
            if union != others:
                missed = sorted((others - union).elements())
                twice = sorted((union - others).elements())
                return ("%s + nearby + surplus targets do not partition the other relevant units: missed %r, "
                        "treated twice %r" % (fname, missed, twice)), k
        if len(fams) == 2 and Counter(fams[0][1]) != Counter(fams[1][1]):
            return "cell-veto targets %r != cell-bounding targets %r" % (sorted(fams[1][1]), sorted(fams[0][1])), k
    return None


# ------------------------------------------------------------------------------------------------
# factor files
STRICT_LINE = re.compile(r"^\[([0-9]+(?:, [0-9]+)*)\], ([A-Z][A-Za-z]*)$")


class TranslatorError(Exception):
    pass


def strict_parse(text):
    """Independent strict parse: comment lines and '[i, j, ...], Name' lines only.  Fail closed otherwise."""
    if any(ord(ch) >= 128 for ch in text) or "\r" in text:
        raise TranslatorError("non-ASCII character or carriage return")
    out = []
    lines = text.split("\n")
    if lines and lines[-1] == "":
        lines = lines[:-1]
    for ln in lines:
        if ln.startswith("#"):
            continue
        m = STRICT_LINE.match(ln)
        if not m:
            raise TranslatorError("line %r is not '[i, j, ...], FactorName'" % ln)
        out.append(([int(x) for x in m.group(1).split(", ")], m.group(2)))
    return out


def file_lines(text):
    """The lines as Python's file iteration yields them (newline kept)."""
    parts = text.split("\n")
    lines = [p + "\n" for p in parts[:-1]]
    if parts[-1] != "":
        lines.append(parts[-1])
    return lines


def py_wf(parsed, n):
    """Independent statement of well-formedness (same content as wf_file)."""
    by = {}
    for S, nm in parsed:
        if not S or any(not (0 <= i < 2 * n) for i in S) or len(set(S)) != len(S) or not any(i < n for i in S):
            return False
        by.setdefault(nm, []).append(S)
    for nm, sets in by.items():
        if len({all(i < n for i in S) for S in sets}) != 1:
            return False
        if len({frozenset(S) for S in sets}) != len(sets):
            return False
    return True


def min_n(parsed):
    mx = max([i for S, _ in parsed for i in S] + [0])
    return mx // 2 + 1


def expected_instates(parsed, n, nroot, name, act):
    """C10 (file part): the index sets of the file that contain the active point mass, instantiated once per other
    composite object (inter-object) or once (intra-object)."""
    sets = [S for S, nm in parsed if nm == name]
    exp = Counter()
    if n == 1:
        (r,) = act
        if sets:
            for o in range(nroot):
                if o != r:
                    exp[((r,), (o,))] += 1
        return exp
    r, a = act
    for S in sets:
        if a not in S:
            continue
        if all(i < n for i in S):
            exp[tuple((r, t) for t in S)] += 1
        else:
            for o in range(nroot):
                if o != r:
                    exp[tuple((r, t) if t < n else (o, t - n) for t in S)] += 1
    return exp


NAMES = ["Harmonic", "Coulomb", "LennardJones", "Bending", "Lj", "A", "Xy", "Sphere"]


def gen_wf_sets(rng, n):
    """A well-formed list of (index set, name)."""
    parsed = []
    for nm in rng.sample(NAMES, rng.randrange(1, 5)):
        local = rng.random() < 0.5 and n >= 1
        if n == 1:
            local = False if rng.random() < 0.8 else True
        seen = set()
        for _ in range(rng.randrange(1, 5)):
            if local:
                k = rng.randrange(1, n + 1)
                S = rng.sample(range(n), k)
            else:
                lo = rng.sample(range(n), rng.randrange(1, n + 1))
                hi = rng.sample(range(n, 2 * n), rng.randrange(1, n + 1))
                S = lo + hi
                rng.shuffle(S)
                if rng.random() < 0.5:
                    S = sorted(S)
            if frozenset(S) in seen:
                continue
            seen.add(frozenset(S))
            parsed.append((S, nm))
    rng.shuffle(parsed)
    return parsed


def render(rng, parsed, decorate=True):
    lines = []
    if decorate and rng.random() < 0.5:
        lines.append("# generated factor set")
    for S, nm in parsed:
        ln = "[" + ", ".join(str(i) if not decorate or rng.random() < 0.9 else "0" + str(i) for i in S) + "], " + nm
        if decorate and rng.random() < 0.1:
            ln += rng.choice([" # trailing", "1", " x", "\t"])
        lines.append(ln)
        if decorate and rng.random() < 0.1:
            lines.append("#" + rng.choice(["", " comment", "[0, 1], Harmonic"]))
    text = "\n".join(lines)
    if not decorate or rng.random() < 0.7:
        text += "\n"
    return text


def queries_for(rng, parsed, n, nroot, invalid=False):
    names = sorted({nm for _, nm in parsed}) + ["Foo"]
    qs = []
    for nm in names:
        if n == 1:
            acts = [[r] for r in range(nroot)]
        else:
            acts = [[r, a] for r in range(nroot) for a in range(n)]
        rng.shuffle(acts)
        acts = acts[:4]
        if n > 1 and rng.random() < 0.5 and nroot > 0:
            r = rng.randrange(nroot)
            acts = [[r, a] for a in range(n)]              # a whole composite object is active
        if invalid and rng.random() < 0.5:
            acts.append(rng.choice([[nroot, 0], [0, n], [0], [0, 0, 0], [nroot]]))
        qs.append([nm, acts])
    return qs


def gen_fmap_job(rng):
    n = rng.choice([1, 2, 2, 3, 3, 4])
    nroot = rng.randrange(1, 5)
    parsed = gen_wf_sets(rng, n)
    kind = "wf"
    u = rng.random()
    text = None
    if u < 0.45:
        text = render(rng, parsed)
    else:
        kind = rng.choice(["big_index", "mixed_local", "syntax", "dup_index", "dup_set", "perm_set", "blank",
                           "tab_sep", "high_only"])
        if kind == "big_index":
            S, nm = rng.choice(parsed)
            parsed.insert(rng.randrange(len(parsed) + 1), (S + [rng.choice([2 * n, 2 * n + 1, 99])], nm))
            text = render(rng, parsed)
        elif kind == "mixed_local":
            S, nm = rng.choice(parsed)
            other = [0] if not all(i < n for i in S) else [0, n]
            parsed.append((other, nm))
            text = render(rng, parsed)
        elif kind == "syntax":
            text = render(rng, parsed, decorate=False)
            lines = text.split("\n")
            k = rng.randrange(len(lines) - 1)
            ln = lines[k]
            lines[k] = rng.choice([ln.replace(", ", ","), ln.replace("], ", "] "), ln.replace("[", "", 1),
                                   ln.replace("]", "", 1), ln[:ln.index("]") + 3] + ln[ln.index("]") + 3:].lower(),
                                   " " + ln, ln.replace("[", "[-", 1), ln.replace("], ", "],  "),
                                   ln.replace("[", "[ ", 1), "[], " + ln.split("], ")[1], ln.replace("], ", "],")])
            text = "\n".join(lines)
        elif kind == "dup_index":
            S, nm = rng.choice(parsed)
            parsed.append((S + [S[0]], nm + "Dup"))
            text = render(rng, parsed)
        elif kind == "dup_set":
            S, nm = rng.choice(parsed)
            parsed.append((list(S), nm))
            text = render(rng, parsed)
        elif kind == "perm_set":
            S, nm = rng.choice(parsed)
            parsed.append((list(reversed(S)), nm))
            text = render(rng, parsed)
        elif kind == "blank":
            text = render(rng, parsed, decorate=False)
            lines = text.split("\n")
            lines.insert(rng.randrange(len(lines)), "")
            text = "\n".join(lines)
        elif kind == "tab_sep":
            text = render(rng, parsed, decorate=False).replace("], ", rng.choice(["],\t", "],\x0b", "],\x1f", "],\x0c"]), 1)
        elif kind == "high_only":
            parsed.append(([n + rng.randrange(n)], rng.choice(NAMES) + "High"))
            text = render(rng, parsed)
    return {"text": text, "n": n, "nroot": nroot, "gen_kind": kind,
            "queries": queries_for(rng, parsed, n, nroot, invalid=rng.random() < 0.3)}


ERRMAP = {"Other:FactorSetError": "FactorSetError", "AttributeError": "AttributeErrorF",
          "AssertionError": "AssertionErrorF", "KeyError": "KeyErrorF",
          "Other:NotImplementedError": "NotImplementedErrorF"}


def yres_term(y):
    if y[0] == "OK":
        return "(YOk %s)" % lllz(y[1])
    return "(YErr %s)" % ERRMAP.get(y[1], "OtherErrorF")


def fm_case_term(job, out):
    if "exc" in out:
        return None
    lines = "[" + ";\n ".join(codes(ln) for ln in file_lines(job["text"])) + "]"
    if out["load"][0] == "EXC":
        return "mkFmCase %s %d %d (LErr %s) []" % (lines, job["n"], job["nroot"],
                                                    ERRMAP.get(out["load"][1], "OtherErrorF"))
    locals_ = "[" + "; ".join("(%s, %s)" % (codes(k), C.coq_bool(bool(v["local"])))
                              for k, v in sorted(out["maps"].items())) + "]"
    qs = []
    for (nm, acts), q in zip(job["queries"], out["queries"]):
        qs.append("(mkQuery %s %s %s %s)" % (codes(nm), llz(acts),
                                              "[" + "; ".join(yres_term(y) for y in q["yield"]) + "]",
                                              yres_term(q["tagger"])))
    return "mkFmCase %s %d %d (LOk %s) %s" % (lines, job["n"], job["nroot"], locals_, "[" + ";\n ".join(qs) + "]")


def fm_oracle(job, out):
    """For files that are well-formed by the independent strict parse: generated in-states == expected
    instantiations, each exactly once; the tagger's output is their duplicate-free union."""
    if "exc" in out:
        return "driver failure: %s %s" % (out["exc"], out.get("tb", "")[-300:])
    shipped = job.get("gen_kind", "").startswith("shipped:")
    n, nroot = job["n"], job["nroot"]
    try:
        parsed = strict_parse(job["text"])
    except TranslatorError as e:
        if shipped:
            return "shipped factor-set file %s is not a well-formed factor file: %s" % (job["gen_kind"][8:], e)
        return None         # outside the property's domain (malformed); the model correspondence still applies
    if not py_wf(parsed, n):
        if shipped:
            # a shipped file must be well-formed: show the consequence on the real parser
            m = shipped_file_search(job, out, (None, job["gen_kind"][8:], job["text"], parsed, n))
            return m or ("shipped factor-set file %s is not well-formed (index out of range, repeated index, "
                         "mixed locality or repeated index set)" % job["gen_kind"][8:])
        return None
    if out["load"][0] != "OK":
        return "well-formed file rejected by the parser: %s" % out["load"][1]
    names = {nm for _, nm in parsed}
    for (nm, acts), q in zip(job["queries"], out["queries"]):
        if nm not in names:
            continue
        if n == 1 and any(all(i < n for i in S) for S, nm2 in parsed if nm2 == nm):
            continue        # an intra-object factor without composite objects: identifiers have no leaf index
        union = set()
        valid_all = True
        for a, y in zip(acts, q["yield"]):
            valid = (len(a) == (1 if n == 1 else 2) and 0 <= a[0] < nroot and (n == 1 or 0 <= a[1] < n))
            if not valid:
                valid_all = False
                continue
            if y[0] != "OK":
                return "yield_factor_identifier(%r) for %s raised %s" % (a, nm, y[1])
            got = Counter(tuple(tuple(i) for i in x) for x in y[1])
            exp = expected_instates(parsed, n, nroot, nm, tuple(a))
            if got != exp:
                return ("factor %s, active %r: generated in-states %r != expected instantiations %r"
                        % (nm, a, sorted(got.elements()), sorted(exp.elements())))
            union |= set(exp)
        if valid_all:
            if q["tagger"][0] != "OK":
                return "tagger raised %s for %s, actives %r" % (q["tagger"][1], nm, acts)
            got = [tuple(tuple(i) for i in x) for x in q["tagger"][1]]
            if len(set(got)) != len(got) or set(got) != union:
                return "tagger in-states %r != duplicate-free union %r" % (sorted(got), sorted(union))
    return None


def translate_factor_sets(ctx):
    """Fail-closed translation of the shipped factor-set files into <gen>/FactorSets.v.
    Returns (list of (ident, path, text, parsed, n), error text)."""
    d = os.path.join(ctx.scratch, "jellyfysh", "config_files", "factor_set_files")
    files = sorted(glob.glob(os.path.join(d, "*.txt")))
    if not files:
        raise TranslatorError("no factor-set files found in %s" % d)
    items = []
    body = ["(* generated by harness/c10.py from config_files/factor_set_files/*.txt -- do not edit *)",
            "Require Import JF.Model.FactorMap.", "From Coq Require Import List ZArith Bool.",
            "Import ListNotations.", "Open Scope Z_scope.", ""]
    for p in files:
        ident = re.sub(r"[^A-Za-z0-9_]", "_", os.path.splitext(os.path.basename(p))[0])
        text = open(p, newline="").read()
        parsed = strict_parse(text)          # raises TranslatorError
        if not parsed:
            raise TranslatorError("%s contains no factor set" % p)
        n = min_n(parsed)
        items.append((ident, p, text, parsed, n))
        body.append("Definition raw_%s : list (list Z) := [\n %s\n]." % (
            ident, ";\n ".join(codes(ln) for ln in file_lines(text))))
        body.append("Definition parsed_%s : pfile := [%s]." % (
            ident, "; ".join("(%s, %s)" % (lz(S), codes(nm)) for S, nm in parsed)))
        body.append("Definition n_%s : Z := %d." % (ident, n))
        body.append("Theorem translated_%s : parse_file raw_%s = Some parsed_%s.\nProof. vm_compute. reflexivity. Qed."
                    % (ident, ident, ident))
        body.append("Theorem wf_%s : wf_file n_%s parsed_%s = true.\nProof. vm_compute. reflexivity. Qed."
                    % (ident, ident, ident))
        body.append("Theorem loads_%s : match load_file n_%s raw_%s with FOk _ => True | FErr _ => False end.\n"
                    "Proof. vm_compute. exact I. Qed.\n" % (ident, ident, ident))
    return items, "\n".join(body) + "\n"


def check_factor_sets(ctx, broken):
    """Writes and compiles FactorSets.v (+ per-file pieces on failure).  Returns the translated items and the list
    of idents whose obligations failed."""
    items, text = translate_factor_sets(ctx)
    path = os.path.join(ctx.gen, "FactorSets.v")
    with open(path, "w") as f:
        f.write(text)
    ctx.obligations += 3 * len(items)
    ctx.checker_cmds.append("coqc -Q coq JF <gen>/FactorSets.v   (%d files: translated_, wf_, loads_)" % len(items))
    ok, out = C.coqc(path, ctx.gen, timeout=600)
    failed = []
    if ok:
        ctx.discharged += 3 * len(items)
        return items, failed
    # find the file(s) whose obligations fail
    head = text.split("Definition raw_")[0]
    for ident, p, ftext, parsed, n in items:
        start = text.index("Definition raw_%s " % ident)
        nxt = text.find("Definition raw_", start + 10)
        piece = head + text[start:nxt if nxt >= 0 else len(text)]
        pp = os.path.join(ctx.gen, "FactorSet_%s.v" % ident)
        with open(pp, "w") as f:
            f.write(piece)
        ok1, out1 = C.coqc(pp, ctx.gen, timeout=600)
        if ok1:
            ctx.discharged += 3
        else:
            failed.append(ident)
            broken.append("FactorSets.v: obligations of %s do not check: %s" % (os.path.basename(p), out1[-400:]))
    return items, failed


def shipped_jobs(items):
    jobs = []
    for ident, p, text, parsed, n in items:
        nroot = 3
        names = sorted({nm for _, nm in parsed})
        acts = [[r] for r in range(nroot)] if n == 1 else [[r, a] for r in range(nroot) for a in range(n)]
        qs = [[nm, acts] for nm in names]
        if n > 1:
            qs += [[nm, [[1, a] for a in range(n)]] for nm in names]
        jobs.append({"text": text, "n": n, "nroot": nroot, "gen_kind": "shipped:" + os.path.basename(p),
                     "queries": qs})
    return jobs


# ------------------------------------------------------------------------------------------------
# the cell taggers on REAL RUNS (traced jellyfysh.run.main): recorded fresh generation of every cell-based tagger at
# every leg against the model's tagger functions on the replayed occupancy (check_tcase_run), and the partition
# stated directly on the recorded generations
RUN_HEADER = ("Require Import JF.Base.F64 JF.Model.Occupancy JF.Model.OccupancyRun.\n"
              "From Coq Require Import ZArith.\nOpen Scope Z_scope.")
TKIND = {"CellVetoTagger": "TVeto", "CellBoundingPotentialTagger": "TBounding", "ExcludedCellsTagger": "TNearby",
         "SurplusCellsTagger": "TSurplus", "CellBoundaryTagger": "TBoundary"}


def cell_taggers(meta, si):
    import tracecheck as TC
    out = []
    for ti, t in enumerate(meta["taggers"]):
        base = TC.tagger_base(meta, ti)
        if t.get("internal_state") == si and base in TKIND:
            out.append((ti, TKIND[base]))
    return out


def leg_entry(d, ti):
    return d[str(ti)] if str(ti) in d else d[ti]


def run_payloads(ctx):
    import hist
    import c11
    cfgs = [c for c in hist.shipped_configs(ctx) if c11.has_cells(ctx, c)]
    jobs = [(c, {}) for c in cfgs] + [j for j in hist.crowded_jobs(cfgs) if c11.has_cells(ctx, j[0])]
    if not ctx.quick():
        jobs += hist.variations(ctx, cfgs, 30)
    pls = [{"config": c, "seed": ctx.seed, "max_legs": ctx.n(120, 400), "overrides": ov, "record_fresh": True,
            "record_instates": False} for (c, ov) in jobs]
    # a filter charge that is negative for the relevant units (oxygen indicator 0, -1, 0)
    for c in cfgs:
        if c.endswith("water/coulomb_cell_veto_lj_cell_veto.ini") or \
                c.endswith("water/coulomb_power_bounded_lj_cell_bounded.ini"):
            pls.append({"config": c, "seed": ctx.seed, "max_legs": ctx.n(120, 400), "record_fresh": True,
                        "record_instates": False, "overrides": {"OxygenIndicator": {"charge_values": "0, -1, 0"}}})
    # extended dipoles on a composite-level cell system: molecules straddle cell boundaries (the active point mass
    # lies in another cell than its composite object), many committed cell-veto events with a target
    for c in cfgs:
        if c.endswith("dipoles/cell_veto.ini"):
            for k, cells in enumerate(["4, 4, 4", "5, 4, 4"] if ctx.quick() else ["4, 4, 4", "5, 4, 4", "4, 5, 6", "5"]):
                pls.append({"config": c, "seed": ctx.seed + k, "max_legs": ctx.n(400, 1200), "record_fresh": True,
                            "record_instates": False, "overrides": extended_dipoles(8 if k % 2 == 0 else 6, cells)})
    return pls


def extended_dipoles(nroots, cells):
    return {"RandomInputHandler": {"number_of_root_nodes": nroots},
            "DipoleRandomNodeCreator": {"min_initial_dipole_separation": 0.12, "max_initial_dipole_separation": 0.2},
            "HarmonicPotential": {"equilibrium_separation": 0.16},
            "DipoleMonteCarloEstimator": {"dipole_separation": 0.2},
            "CuboidPeriodicCells": {"cells_per_side": cells},
            "CoulombNearby": {"number_event_handlers": 5 * nroots},
            "CoulombSurplus": {"number_event_handlers": 5 * nroots},
            "Harmonic": {"number_event_handlers": 5 * nroots}, "Repulsive": {"number_event_handlers": 5 * nroots}}


def encode_tcase(tr, max_legs, si):
    import c11
    r = c11.encode_ocase_n(tr, max_legs, si)
    if r is None:
        return None
    oterm, used = r
    meta = tr["meta"]
    tags = cell_taggers(meta, si)
    if not tags or any("fresh" not in tr["legs"][n] for n in [0] + used):
        return None
    gens = []
    for n in [0] + used:
        leg = tr["legs"][n]
        g = []
        for ti, kind in tags:
            f = leg_entry(leg["fresh"], ti)
            act = bool(leg_entry(leg["activated"], ti))
            if isinstance(f, str):          # the real tagger raised: no generation can match
                f, act = [[[-1]]], True
            g.append("(mkTGen %s %s %s)" % (kind, C.coq_bool(act), lllz(f)))
        gens.append("[" + "; ".join(g) + "]")
    layers = meta["internal_states"][si]["neighbor_layers"]
    level = meta["internal_states"][si]["cell_level"]
    vetos = []
    for n in [0] + used:
        leg = tr["legs"][n]
        v = []
        if leg.get("pick") is not None and leg.get("args") and any(leg["args"]):
            tg = meta["taggers"][meta["handlers"][leg["pick"]]["tagger"]]
            if "CellVetoEventHandler" in tg["handler_bases"] and tg.get("internal_state") == si:
                v.append([u["id"] for a in leg["args"] if a for u in a if len(u["id"]) == level])
        vetos.append(lllz(v))
    return "mkTCase (%s) %s %s %s" % (oterm, C.coq_z(layers), "[" + ";\n ".join(gens) + "]",
                                      "[" + "; ".join(vetos) + "]")


def run_oracle(tr):
    """C10 on a recorded real run, from the recorded generations and internals only: at every leg with a relevant
    active unit the targets of the far family (cell-bounding tagger; for cell-veto: the occupants of the cells that
    are not nearby the active cell), of the nearby tagger and of the surplus tagger partition the other relevant
    units; nearby targets sit in nearby cells, far targets do not.  Returns [(leg, message)]."""
    meta = tr["meta"]
    if tr.get("error"):
        return [(len(tr["legs"]), "run raised %s: %s" % (tr["error"]["exc"], tr["error"]["msg"][:200]))]
    out = []
    nchecked = 0
    for si, ist in enumerate(meta["internal_states"]):
        if "SingleActiveCellOccupancy" not in (ist.get("class") or ""):
            continue
        tags = cell_taggers(meta, si)
        counts, layers = ist["cells_per_side"], ist["neighbor_layers"]
        import c11
        indep = c11.relevant_ids(tr, si)     # relevance independent of the implementation's own filter

        def nearby(c0, c1):
            return all(min((a - b) % n, (b - a) % n) <= layers for a, b, n in zip(c0, c1, counts))
        for n, leg in enumerate(tr["legs"]):
            if not leg.get("occ") or leg["occ"][si] is None or "fresh" not in leg:
                continue
            occ = leg["occ"][si]
            gen = {}
            bad = False
            for ti, kind in tags:
                f = leg_entry(leg["fresh"], ti)
                if isinstance(f, str):
                    out.append((n, "tagger %s raised %s" % (meta["taggers"][ti]["tag"], f)))
                    bad = True
                    continue
                if leg_entry(leg["activated"], ti):
                    gen.setdefault(kind, []).append(f)
                elif f:
                    out.append((n, "deactivated tagger %s generates in-states" % meta["taggers"][ti]["tag"]))
            if bad:
                continue
            if indep is not None:
                act_units = [u["id"] for u in leg.get("active") or [] if len(u["id"]) == ist["cell_level"]]
                if len(act_units) == 1 and act_units[0] in indep and occ["active_id"] != act_units[0]:
                    out.append((n, "the active unit %r has a non-zero %s but the occupancy records active unit %r: "
                                "its partners are not treated" % (act_units[0], ist.get("charge_name"), occ["active_id"])))
            if occ["active_id"] is None:
                for kind, fs in gen.items():
                    if any(fs_ for fs_ in fs):
                        out.append((n, "%s in-states generated without a relevant active unit" % kind))
                continue
            a = tuple(occ["active_id"])
            cell_of = {}
            for d in (occ["occupants"], occ["surplus"]):
                for k, ids in d.items():
                    for i in ids:
                        cell_of[tuple(i)] = [int(x) for x in k.split(",")]
            relevant = indep if indep is not None else occ["relevant"]
            if indep is not None and sorted(map(tuple, indep)) != sorted(map(tuple, occ["relevant"])):
                out.append((n, "charge filter: the occupancy treats %r as relevant, the units with a non-zero %s are %r"
                            % (sorted(map(tuple, occ["relevant"]))[:8], ist.get("charge_name"),
                               sorted(map(tuple, indep))[:8])))
            others = Counter(tuple(i) for i in relevant if tuple(i) != a)
            for kind, fs in gen.items():
                for f in fs:
                    for ins in f:
                        if tuple(ins[0]) != a:
                            out.append((n, "%s in-state %r does not start with the active unit %r" % (kind, ins, a)))
            if "TNearby" not in gen or "TSurplus" not in gen:
                continue
            near_t = [tuple(i) for ins in gen["TNearby"][0] for i in ins[1:]]
            sur_t = [tuple(i) for ins in gen["TSurplus"][0] for i in ins[1:]]
            fams = []
            if "TBounding" in gen:
                fams.append(("cell-bounding", [tuple(i) for ins in gen["TBounding"][0] for i in ins[1:]]))
            if "TVeto" in gen:
                ac = occ["active_cell"]
                fams.append(("cell-veto", [tuple(i) for k, ids in occ["occupants"].items() for i in ids
                                           if not nearby([int(x) for x in k.split(",")], ac)]))
            for fname, far in fams:
                nchecked += 1
                union = Counter(far) + Counter(near_t) + Counter(sur_t)
                if union != others:
                    out.append((n, "%s + nearby + surplus targets of the recorded generations do not partition the "
                                "other relevant units: missed %r, treated twice %r"
                                % (fname, sorted((others - union).elements()), sorted((union - others).elements()))))
                for t in far:
                    if t in cell_of and nearby(cell_of[t], occ["active_cell"]):
                        out.append((n, "%s target %r sits in a nearby cell" % (fname, t)))
            for t in near_t:
                if t in cell_of and not nearby(cell_of[t], occ["active_cell"]):
                    out.append((n, "nearby target %r does not sit in a nearby cell" % (t,)))
    # committed cell-veto events: the targets handed to send_out_state are the occupants of ONE cell that is not
    # nearby the recorded active cell (a walker item translated to the active cell); a target in a nearby cell is
    # treated twice (the nearby tagger already pairs it with the active unit)
    import tracecheck as TC
    nveto = 0
    for n, leg in enumerate(tr["legs"]):
        if leg.get("pick") is None or not leg.get("occ"):
            continue
        h = meta["handlers"][leg["pick"]]
        tg = meta["taggers"][h["tagger"]]
        if "CellVetoEventHandler" not in tg["handler_bases"]:
            continue
        args = leg.get("args")
        if not args or not any(args):
            continue                      # target cell empty (or arguments not recorded)
        si = tg.get("internal_state")
        if si is None or si < 0 or leg["occ"][si] is None:
            out.append((n, "cell-veto handler %s is not connected to a recorded occupancy" % h["class"]))
            continue
        ist = meta["internal_states"][si]
        counts, layers, level = ist["cells_per_side"], ist["neighbor_layers"], ist["cell_level"]
        occ = leg["occ"][si]
        where = {tuple(i): [int(x) for x in k.split(",")] for k, ids in occ["occupants"].items() for i in ids}
        targets = [tuple(u["id"]) for a in args if a for u in a if len(u["id"]) == level]
        nveto += 1
        if occ["active_cell"] is None:
            out.append((n, "cell-veto event committed without a recorded active cell"))
            continue
        cells = []
        for t in targets:
            if t not in where:
                out.append((n, "cell-veto target %r is not an occupant of any cell (active unit %r)"
                            % (t, occ["active_id"])))
            else:
                cells.append(where[t])
        if any(c != cells[0] for c in cells):
            out.append((n, "cell-veto targets %r come from different cells %r" % (targets, cells)))
        for t, c in zip(targets, cells):
            if all(min((a - b) % m, (b - a) % m) <= layers for a, b, m in zip(c, occ["active_cell"], counts)):
                out.append((n, "cell-veto event targets unit %r in cell %r, which is nearby the active cell %r of unit "
                            "%r: treated twice (the nearby tagger already pairs them)"
                            % (t, c, occ["active_cell"], occ["active_id"])))
    tr["_c10_checked"] = nchecked
    tr["_c10_veto"] = nveto
    return out


def real_runs(ctx, broken, payloads=None):
    """Returns (traces, oracle failures [(trace index, leg, message)], mismatching trace indices, #cases evaluated)."""
    pls = payloads if payloads is not None else run_payloads(ctx)
    trs = C.run_driver_parallel(ctx, "trace_run", pls, timeout=1200)
    for tr, pl in zip(trs, pls):
        tr["payload"] = pl
    fails = []
    for ti, tr in enumerate(trs):
        for leg, msg in run_oracle(tr):
            fails.append((ti, leg, msg))
    terms, idx = [], []
    nlegs = ctx.n(200, 400)
    for ti, tr in enumerate(trs):
        if tr.get("error"):
            continue
        for si in range(len(tr["meta"]["internal_states"])):
            t = encode_tcase(tr, nlegs, si)
            if t is not None:
                terms.append(t)
                idx.append(ti)
    neval, bad, nf, nok, err = C.eval_cases(ctx, "c10run", RUN_HEADER, terms, "check_tcase_run", "tcase", per_file=1)
    if err:
        broken.append("real-run case files did not evaluate: " + err[-600:])
    return trs, fails, sorted({idx[i] for i in bad}), neval


# ------------------------------------------------------------------------------------------------
def chunked(xs, k):
    return [xs[i:i + k] for i in range(0, len(xs), k)]


def run_impl(ctx, cfgs, jobs):
    payloads = [{"occ": ch} for ch in chunked(cfgs, max(1, len(cfgs) // (C.NCPU * 2) + 1))] if cfgs else []
    payloads += [{"fmap": ch} for ch in chunked(jobs, max(1, len(jobs) // C.NCPU + 1))] if jobs else []
    outs = C.run_driver_parallel(ctx, DRIVER, payloads)
    occ_out, fm_out = [], []
    for o in outs:
        occ_out += o["occ"]
        fm_out += o["fmap"]
    return occ_out, fm_out


def shrink_occ(cfg, out, k):
    """keep only the steps up to the failing one"""
    c = dict(cfg)
    c["steps"] = cfg["steps"][:k + 1]
    return c


def load_corpus():
    occ, fm = [], []
    d = os.path.join(C.VERIF, "corpus", "C10")
    for p in sorted(glob.glob(os.path.join(d, "*.json"))):
        data = json.load(open(p))
        occ += data.get("occ", [])
        fm += data.get("fmap", [])
    return occ, fm


def run(ctx, occ_override=None, fm_override=None, run_payload_override=None):
    C.build_scratch(ctx, exts=("heap", "mic", "ipc"))
    broken = []
    ok, out, nthm = C.check_props(ctx)
    if not ok:
        broken.append("Props/C10.v does not check: " + out[-600:])
    replaying = occ_override is not None or fm_override is not None or run_payload_override is not None
    # translator + its obligations
    items, failed_files = [], []
    translator_error = None
    try:
        items, failed_files = check_factor_sets(ctx, broken)
    except TranslatorError as e:
        translator_error = str(e)
        broken.append("factor-set translator failed closed: " + translator_error)
    rng = ctx.rng
    if replaying:
        cfgs = list(occ_override or [])
        jobs = list(fm_override or [])
    else:
        c_occ, c_fm = load_corpus()
        cfgs = list(c_occ)
        target = ctx.n(500, 20000)
        nsteps = 0
        while nsteps < target:
            cfg = gen_occ_config(rng, small=ctx.quick())
            cfgs.append(cfg)
            nsteps += len(cfg["steps"])
        jobs = list(c_fm) + shipped_jobs(items)
        jobs += [gen_fmap_job(rng) for _ in range(ctx.n(300, 6000))]
    occ_out, fm_out = run_impl(ctx, cfgs, jobs)

    # oracle (independent of the model)
    occ_fail = []
    for i, (cfg, o) in enumerate(zip(cfgs, occ_out)):
        m = occ_oracle(cfg, o)
        if m:
            occ_fail.append((i, m[0], m[1]))
    fm_fail = []
    for i, (job, o) in enumerate(zip(jobs, fm_out)):
        m = fm_oracle(job, o)
        if m:
            fm_fail.append((i, m))

    # correspondence in Coq
    occ_terms, occ_idx = [], []
    for i, (cfg, o) in enumerate(zip(cfgs, occ_out)):
        t = occ_case_term(cfg, o)
        if t is not None:
            occ_terms.append(t)
            occ_idx.append(i)
    fm_terms, fm_idx = [], []
    for i, (job, o) in enumerate(zip(jobs, fm_out)):
        t = fm_case_term(job, o)
        if t is not None:
            fm_terms.append(t)
            fm_idx.append(i)
    per_occ = max(1, min(8, len(occ_terms) // C.NCPU + 1))
    n1, bad1, nf1, nok1, err1 = C.eval_cases(ctx, "c10occ", HEADER, occ_terms, "check_occ_case", "occ_case",
                                             per_file=per_occ)
    n2, bad2, nf2, nok2, err2 = C.eval_cases(ctx, "c10fm", HEADER, fm_terms, "check_fm_case", "fm_case",
                                             per_file=max(1, min(60, len(fm_terms) // C.NCPU + 1)))
    if err1 or err2:
        broken.append("correspondence case files did not evaluate: " + (err1 + err2)[-600:])
    occ_mism = [occ_idx[i] for i in bad1]
    fm_mism = [fm_idx[i] for i in bad2]

    nstates = sum(len(o.get("steps", [])) for o in occ_out)
    # real runs
    import time as _time
    t_rr = _time.time()
    if replaying and run_payload_override is None:
        rtrs, rfails, rmism, rneval = [], [], [], 0
    else:
        rtrs, rfails, rmism, rneval = real_runs(ctx, broken, run_payload_override)
    ctx.notes.append("real runs (tracing + oracle + Coq replay) took %.1fs" % (_time.time() - t_rr))
    # verdicts
    if rfails:
        ti, leg, m = rfails[0]
        pl = dict(rtrs[ti]["payload"])
        pl["max_legs"] = leg + 2
        C.violation(ctx, "oracle_run", {"kind": "c10-trace", "payload": pl, "leg": leg, "message": m,
                                        "n_failing": len(rfails),
                                        "other_failures": [(rtrs[a]["payload"]["config"], b, c) for a, b, c in rfails[1:6]]},
                    "C10 fails on a real run: %s (leg %d of %s)" % (m, leg, pl["config"]))
    elif rmism:
        ti = rmism[0]
        C.violation(ctx, "conformance_run", {"kind": "c10-trace", "payload": rtrs[ti]["payload"],
                                             "message": "the generations recorded on a real run are not those of the "
                                             "model taggers on the replayed occupancy (%d traces); the set-arithmetic "
                                             "oracle found no failing leg; correspondence "
                                             "JF.Model.OccupancyRun.check_tcase_run no longer checks" % len(rmism)},
                    "recorded tagger generations not accepted by the Coq model", nofail=True)
    if occ_fail:
        i, m, k = occ_fail[0]
        C.violation(ctx, "oracle", {"kind": "c10-occ", "occ": [shrink_occ(cfgs[i], occ_out[i], k)], "message": m,
                                    "failing_step": k, "n_failing": len(occ_fail),
                                    "impl_step": (occ_out[i].get("steps") or [None])[min(k, len(occ_out[i].get("steps", [])) - 1)]
                                    if occ_out[i].get("steps") else occ_out[i]},
                    "C10 fails on the implementation: " + m)
    if fm_fail:
        i, m = fm_fail[0]
        C.violation(ctx, "oracle_fmap", {"kind": "c10-fmap", "fmap": [jobs[i]], "message": m, "impl": fm_out[i],
                                         "n_failing": len(fm_fail)},
                    "C10 (factor file part) fails on the implementation: " + m)
    if failed_files and not fm_fail:
        # a shipped file is not well-formed: look at what the real parser generates from it
        ident = failed_files[0]
        it = [x for x in items if x[0] == ident][0]
        job = [j for j in jobs if j["gen_kind"] == "shipped:" + os.path.basename(it[1])]
        msg = shipped_file_search(job[0], fm_out[jobs.index(job[0])], it) if job else None
        if msg:
            C.violation(ctx, "oracle_fmap", {"kind": "c10-fmap", "fmap": job, "message": msg,
                                             "file": os.path.basename(it[1])},
                        "shipped factor-set file violates C10: " + msg)
            broken = [b for b in broken if not b.startswith("FactorSets.v")]
    if not occ_fail and occ_mism:
        i = occ_mism[0]
        C.violation(ctx, "correspondence", {"kind": "c10-occ", "occ": [cfgs[i]],
                                            "message": "Model/Occupancy.v and the implementation disagree on %d "
                                            "configuration(s); the set-arithmetic oracle found no failing input; "
                                            "correspondence JF.Model.OccupancyCases.check_occ_case no longer checks"
                                            % len(occ_mism)},
                    "occupancy/tagger model and implementation disagree", nofail=True)
    if not fm_fail and fm_mism:
        i = fm_mism[0]
        C.violation(ctx, "correspondence_fmap", {"kind": "c10-fmap", "fmap": [jobs[i]], "impl": fm_out[i],
                                                 "message": "Model/FactorMap.v and the implementation disagree on %d "
                                                 "file(s); the oracle found no failing input; correspondence "
                                                 "JF.Model.OccupancyCases.check_fm_case no longer checks" % len(fm_mism)},
                    "factor-map model and implementation disagree", nofail=True)
    if broken and not ctx.violations:
        C.violation(ctx, "obligation", {"kind": "obligation", "broken": broken}, broken[0][:200], nofail=True)

    kinds = Counter(j["gen_kind"].split(":")[0] for j in jobs)
    dist = {
        "occupancy_configurations": len(cfgs), "occupancy_states": nstates,
        "dims": dict(Counter(c["dim"] for c in cfgs)),
        "occupant_limits": dict(Counter(c["max_occ"] for c in cfgs)),
        "layers": dict(Counter(c["layers"] for c in cfgs)),
        "charge_filter": sum(1 for c in cfgs if c["charge_filter"]),
        "composite_objects": sum(1 for c in cfgs if c["levels"] == 2),
        "same_id_moves": sum(1 for c in cfgs for s in c["steps"] if "move" in s),
        "states_with_surplus": sum(1 for o in occ_out for s in o.get("steps", []) if s.get("state", {}).get("surplus")),
        "states_without_veto_domain": sum(len(o.get("steps", [])) for o in occ_out if not o.get("veto_domain")),
        "factor_files": dict(kinds),
        "factor_file_load_errors": dict(Counter(o["load"][1] for o in fm_out if "load" in o and o["load"][0] == "EXC")),
        "real_runs": {"traces": len(rtrs), "legs": sum(len(t["legs"]) for t in rtrs),
                      "legs_with_partition_checked": sum(t.get("_c10_checked", 0) for t in rtrs),
                      "cell_veto_events_with_target_checked": sum(t.get("_c10_veto", 0) for t in rtrs),
                      "coq_cases": rneval, "configs": sorted({t["payload"]["config"] for t in rtrs})},
    }
    distinct = len({json.dumps(s.get("state"), sort_keys=True) + json.dumps(s.get("update_args"))
                    for o in occ_out for s in o.get("steps", [])}) + len({j["text"] + str(j["n"]) for j in jobs})
    C.write_evidence(ctx, {
        "evaluations": nstates + sum(len(q[1]) for j in jobs for q in j["queries"]),
        "distinct_nontrivial": distinct,
        "rule": "distinct (occupancy internals, update arguments) pairs after an update of a real "
                "SingleActiveCellOccupancy with an active unit, plus distinct (factor file text, nodes per root)",
        "samples": [{"cfg": {k: v for k, v in cfgs[i].items() if k not in ("roots", "steps")},
                     "first_step": (occ_out[i].get("steps") or [None])[0]} for i in range(0, min(len(cfgs), 40), 10)],
        "input_distribution": dist,
        "model_vs_impl_mismatches": len(occ_mism) + len(fm_mism) + len(rmism),
        "oracle_failures": len(occ_fail) + len(fm_fail) + len(rfails),
        "traces_validated_against_impl": n1 + n2 + rneval,
        "case_files": nf1 + nf2, "case_files_ok": nok1 + nok2,
        "factor_set_files_translated": [os.path.basename(x[1]) + " (n=%d)" % x[4] for x in items],
        "explanation": "Props/C10.v re-checked (%d theorems); %d shipped factor-set files translated and wf_file decided "
                       "by vm_compute; real taggers/occupancy/activator vs Model/Occupancy.v and real FactorTypeMaps vs "
                       "Model/FactorMap.v evaluated in Coq; set-arithmetic oracle on every case" % (nthm, len(items)),
        "trusted_base": TRUSTED,
    }, ASSUME)


def shipped_file_search(job, out, item):
    """A shipped file failed wf_file: show the consequence on the real parser (duplicates / missing)."""
    ident, p, text, parsed, n = item
    if "queries" not in out:
        return "the real parser rejects the shipped file %s: %r" % (os.path.basename(p), out.get("load"))
    for (nm, acts), q in zip(job["queries"], out["queries"]):
        for a, y in zip(acts, q["yield"]):
            if y[0] != "OK":
                return "yield_factor_identifier(%r) for %s raised %s" % (a, nm, y[1])
            got = Counter(tuple(tuple(i) for i in x) for x in y[1])
            as_sets = Counter(frozenset(f) for f in got.elements())
            dup = [sorted(f) for f, c in as_sets.items() if c > 1]
            if dup:
                return ("file %s, factor %s, active %r: the factor %r is generated more than once"
                        % (os.path.basename(p), nm, a, dup[0]))
    return None


TRUSTED = [
    "hand-written models coq/Model/Occupancy.v, coq/Model/FactorMap.v (transcribed from the Python sources)",
    "correspondence harness harness/c10.py + drivers/c10_taggers.py (JSON (de)serialisation of identifier tuples; "
    "line splitting of factor files as Python's file iteration; a stub Estimator supplies the numerical bounds of the "
    "cell-veto / cell-bounding handlers, which do not influence who is a target)",
    "cell index arithmetic of CuboidPeriodicCells is compared with the Z^d-modulo-counts model on every case "
    "(its own proof obligations belong to C16)",
]
ASSUME = [
    "the models are tied to the code by differential evaluation on generated inputs, not by a semantics of Python",
    "cells_partition assumes a cell system whose nearby relation is translation invariant (cellsys_ok); it is decided "
    "by vm_compute for concrete tori (Props/C10.v example) and is the subject of C16 for the float cell model",
    "nodes per composite object of a shipped factor-set file is taken as the smallest n with all indices < 2n",
]


def replay(ctx, path):
    data = json.load(open(path))
    if data.get("kind") == "c10-trace":
        pl = dict(data["payload"])
        pl["record_fresh"] = True
        run(ctx, occ_override=[], fm_override=[], run_payload_override=[pl])
    else:
        run(ctx, occ_override=data.get("occ", []), fm_override=data.get("fmap", []))
