"""C15 — Periodic wrapping and minimum-image separations are exact modular arithmetic (DESIGN.md section 5, C15)."""
import json
import math
import os
from fractions import Fraction as Fr

import common as C
from common import f2b, b2f

HEADER = "Require Import JF.Base.F64 JF.Model.Periodic JF.Model.PeriodicCases.\nOpen Scope Z_scope."
NANB = 0x7FF8000000000000
BIG = Fr(2) ** 1023
NF = math.nextafter
INF = math.inf
CHUNK_OPS = 5000
PER_FILE = 500

BASE_L = [1.0, 0.1, 3.7, 1e-3, 1e3, 10.0, 0.3, 7.25] + [2.0 ** k for k in (-20, -10, -3, -1, 1, 2, 5, 10, 20)]
TINY_L = [1e-300, 2.0 ** -1000, 2.0 ** -1021]
SUB_L = [2.0 ** -1022, 3 * 5e-324, 5e-324, 2.0 ** -1022 + 5e-324, 2.0 ** -1023 + 5e-324]
BAD_L = [0.0, -0.0, -1.0, -5e-324, INF, math.nan, -INF]


# ----------------------------------------------------------------------------------------------
# helpers
def canon(b):
    return NANB if math.isnan(b2f(b)) else int(b)


def is_exc(res):
    return bool(res) and res[0] in ("EXC", "ERR")


def valid_len(L):
    return math.isfinite(L) and L > 0.0


def setting_lengths(st):
    if st[0] == "cubic":
        return [b2f(st[2])] * int(st[1])
    return [b2f(b) for b in st[1]]


def setting_dim(st):
    return int(st[1]) if st[0] == "cubic" else len(st[1])


def length_at(st, i):
    """The box length the implementation uses for direction i (None: index outside a cuboid's tuple)."""
    if st[0] == "cubic":
        return b2f(st[2])
    return b2f(st[1][i]) if 0 <= i < len(st[1]) else None


def eff_setting(g):
    """The box a group's results must obey: a group evaluated through the cuboid class under a hypercubic setting
    (via == "cuboid") is a cuboid with `dimension` equal lengths."""
    st = g["setting"]
    if g.get("via") == "cuboid" and st[0] == "cubic":
        return ["cuboid", [int(st[2])] * int(st[1])]
    return st


def set_eff(groups):
    for g in groups:
        g["eff"] = eff_setting(g)


def setting_term(st):
    if st[0] == "cubic":
        return "(SCubic %d%%nat %d)" % (int(st[1]), int(st[2]))
    return "(SCuboid %s)" % C.coq_list(["%d" % int(b) for b in st[1]])


def hexf(b):
    x = b2f(b)
    return x.hex() if math.isfinite(x) else repr(x)


def describe(st, op):
    """Readable form of a setting + op (hex floats) for replay files and messages."""
    d = {"setting": [st[0]] + ([st[1], hexf(st[2])] if st[0] == "cubic" else [[hexf(b) for b in st[1]]])}
    o = [op[0]]
    for a in op[1:]:
        o.append([hexf(b) for b in a] if isinstance(a, list) else a)
    if op[0] in ("pos_entry", "sep_entry", "next"):
        o[1] = hexf(op[1])
    d["op"] = o
    return d


# ----------------------------------------------------------------------------------------------
# generator
def gen_length(rng):
    u = rng.random()
    if u < 0.50:
        return rng.choice(BASE_L), "pool"
    if u < 0.57:
        return rng.choice(TINY_L), "tiny"
    if u < 0.61:
        return rng.choice(SUB_L), "subnormal-adjacent"
    if u < 0.625:
        return rng.choice(BAD_L), "invalid-or-nonfinite"
    L = 0.0
    while L <= 0.0:
        L = rng.random() * 10 ** rng.randrange(-3, 4)
    return L, "random"


def gen_pos(rng, L):
    """A position entry relative to box length L; returns (value, edge class)."""
    if not valid_len(L):
        L = 1.0
    u = rng.random()
    if u < 0.10:
        return -rng.random() * L, "negative"
    if u < 0.22:
        return rng.choice([-1e-17, -5e-324, -(2.0 ** -1074) * rng.randrange(1, 10), -L * 2.0 ** -53,
                           -L * 2.0 ** -54, -1e-17 * L, -L * 2.0 ** -rng.randrange(50, 60),
                           -rng.random() * L * 2.0 ** -53]), "tiny-negative"
    if u < 0.27:
        return rng.choice([0.0, -0.0]), "zero"
    if u < 0.37:
        return rng.choice([L, NF(L, 0.0), NF(L, INF), -L, -NF(L, 0.0), -NF(L, INF), 2 * L, NF(2 * L, 0.0)]), "at-L"
    if u < 0.44:
        return rng.choice([1, 2, 3, 10, 1000, 2 ** 30]) * rng.choice([-1, 1]) * L, "multiple-of-L"
    if u < 0.50:
        if rng.random() < 0.1:
            return rng.choice([1e300, -1e300]), "many-boxes-away"
        return rng.choice([-1, 1]) * rng.random() * L * 10 ** rng.randrange(1, 16), "many-boxes-away"
    if u < 0.58:
        return rng.choice([-1, 1]) * 2.0 ** rng.randrange(-1074, 61), "power-of-two"
    if u < 0.66:
        h = L / 2.0
        return rng.choice([h, NF(h, INF), NF(h, -INF), -h, NF(-h, INF), NF(-h, -INF), 1.5 * L]), "half-L"
    if u < 0.80:
        return rng.random() * L, "in-box"
    if u < 0.993:
        return rng.uniform(-2 * L, 3 * L), "near-box"
    return rng.choice([math.nan, INF, -INF]), "nonfinite"


def gen_sep(rng, L):
    if not valid_len(L):
        L = 1.0
    u = rng.random()
    if u < 0.15:
        h = L / 2.0
        return rng.choice([h, -h, NF(h, INF), NF(h, -INF), NF(-h, INF), NF(-h, -INF), h + L, -h - L, h - L,
                           3 * h, -3 * h]), "pm-half-L"
    if u < 0.35:
        return rng.random() * L - rng.random() * L, "difference-in-box"
    return gen_pos(rng, L)


def gen_inbox(rng, L):
    if not valid_len(L):
        L = 1.0
    u = rng.random()
    if u < 0.75:
        return rng.random() * L
    if u < 0.90:
        return rng.choice([0.0, NF(L, 0.0), L / 2.0, NF(L / 2.0, INF), 5e-324, L * 2.0 ** -53])
    return gen_pos(rng, L)[0]


def entry_deps(st, op):
    """Entry ops whose results the oracle needs to judge a vector op (component-wise equality)."""
    k = op[0]
    if k == "pos":
        return [["pos_entry", b, i] for i, b in enumerate(op[1])]
    if k == "sep":
        return [["sep_entry", b, i] for i, b in enumerate(op[1])]
    if k == "sepvec":
        d = min(setting_dim(st), len(op[1]), len(op[2]))
        return [["sep_entry", f2b(b2f(op[2][i]) - b2f(op[1][i])), i] for i in range(d)]
    return []


def gen_group(rng, stats):
    """One setting and 20..60 ops; returns a list of one group, or two (cuboid with equal lengths + cubic twin)."""
    dim = rng.randrange(1, 4)
    cubic = rng.random() < 0.45
    twin = False
    if cubic:
        L, lc = gen_length(rng)
        st = ["cubic", dim, f2b(L)]
        stats["length_class"][lc] = stats["length_class"].get(lc, 0) + 1
    else:
        if rng.random() < 0.30:
            L, lc = gen_length(rng)
            ls = [L] * dim
            twin = True
            stats["length_class"][lc] = stats["length_class"].get(lc, 0) + 1
        else:
            ls = []
            for _ in range(dim):
                L, lc = gen_length(rng)
                stats["length_class"][lc] = stats["length_class"].get(lc, 0) + 1
                ls.append(L)
        st = ["cuboid", [f2b(x) for x in ls]]
    lengths = setting_lengths(st)
    ops = []
    nops = rng.randrange(20, 61)

    def cls(c):
        stats["edge_class"][c] = stats["edge_class"].get(c, 0) + 1

    while len(ops) < nops:
        u = rng.random()
        i = rng.randrange(dim)
        odd = (not twin) and rng.random() < 0.006     # index / length outside the setting's dimension
        if u < 0.30:
            x, c = gen_pos(rng, lengths[i])
            cls(c)
            ops.append(["pos_entry", f2b(x), dim + rng.randrange(2) if odd else i])
        elif u < 0.55:
            x, c = gen_sep(rng, lengths[i])
            cls(c)
            ops.append(["sep_entry", f2b(x), dim + rng.randrange(2) if odd else i])
        elif u < 0.63:
            x, c = gen_pos(rng, lengths[i])
            cls(c)
            ops.append(["next", f2b(x), dim if odd else i])
        elif u < 0.75:
            v = []
            for j in range(dim + (1 if odd else 0)):
                x, c = gen_pos(rng, lengths[min(j, dim - 1)])
                cls(c)
                v.append(f2b(x))
            op = ["pos", v]
            ops += entry_deps(st, op) + [op]
        elif u < 0.85:
            v = []
            for j in range(dim + (1 if odd else 0)):
                x, c = gen_sep(rng, lengths[min(j, dim - 1)])
                cls(c)
                v.append(f2b(x))
            op = ["sep", v]
            ops += entry_deps(st, op) + [op]
        else:
            n = dim + (1 if odd else 0)
            if rng.random() < 0.8:
                r = [gen_inbox(rng, lengths[min(j, dim - 1)]) for j in range(n)]
                t = [gen_inbox(rng, lengths[min(j, dim - 1)]) for j in range(n)]
                cls("sepvec-in-box")
            else:
                r = [gen_pos(rng, lengths[min(j, dim - 1)])[0] for j in range(n)]
                t = [gen_pos(rng, lengths[min(j, dim - 1)])[0] for j in range(n)]
                cls("sepvec-generic")
            op = ["sepvec", [f2b(x) for x in r], [f2b(x) for x in t]]
            ops += entry_deps(st, op) + [op]
    g = {"setting": st, "ops": ops}
    if twin:
        cub = ["cubic", dim, st[1][0]]
        return [g, {"setting": cub, "ops": [list(o) for o in ops], "twin": -1},
                {"setting": cub, "via": "cuboid", "ops": [list(o) for o in ops], "twin": -2}]
    if cubic and rng.random() < 0.7:
        # the cuboid class is usable under a hypercubic setting: same ops through HypercuboidPeriodicBoundaries
        return [g, {"setting": st, "via": "cuboid", "ops": [list(o) for o in ops], "twin": -1}]
    return [g]


def gen_groups(ctx, n):
    rng = ctx.rng
    stats = {"length_class": {}, "edge_class": {}}
    groups = []
    total = 0
    while total < n:
        gs = gen_group(rng, stats)
        for h in gs[1:]:
            h["twin"] = len(groups)           # absolute index of the first group, fixed up by the caller's offset
        for g in gs:
            total += len(g["ops"])
        groups += gs
    return groups, stats


# ----------------------------------------------------------------------------------------------
# implementation runs
def run_impl(ctx, groups):
    """Run all groups through the driver; returns per group (results, init, stored)."""
    chunks, cur, cnt = [], [], 0
    start = 0
    for gi, g in enumerate(groups):
        cur.append({"setting": g["setting"], "ops": g["ops"], "via": g.get("via", "own"),
                    "history": g.get("history") or []})
        g["_chunk_start"] = start
        cnt += len(g["ops"])
        if cnt >= CHUNK_OPS:
            chunks.append(cur)
            cur, cnt = [], 0
            start = gi + 1
    if cur:
        chunks.append(cur)
    outs = C.run_driver_parallel(ctx, "c15_periodic", [{"groups": ch} for ch in chunks])
    res, init, stored, alias = [], [], [], []
    for o in outs:
        res += o["out"]
        init += o["init"]
        stored += o["stored"]
        alias += o.get("alias") or [[] for _ in o["out"]]
    for g, a in zip(groups, alias):
        g["_alias"] = a
    if len(res) != len(groups) or any(len(r) != len(g["ops"]) for r, g in zip(res, groups)):
        raise C.DriverError("driver c15_periodic returned a result of the wrong shape")
    return res, init, stored


# ----------------------------------------------------------------------------------------------
# correspondence terms
def zlist(bits):
    return C.coq_list(["%d" % canon(b) for b in bits])


def case_term(st, op, res):
    s = setting_term(st)
    k = op[0]
    exc = is_exc(res)
    if k in ("pos_entry", "sep_entry", "next"):
        e = "None" if exc else "(Some %d)" % canon(res[0])
        ctor = {"pos_entry": "PPosEntry", "sep_entry": "PSepEntry", "next": "PNext"}[k]
        return "%s %s %d %d%%nat %s" % (ctor, s, int(op[1]), int(op[2]), e)
    if k in ("pos", "sep"):
        e = "None" if exc else "(Some %s)" % zlist(res)
        return "%s %s %s %s" % ("PPos" if k == "pos" else "PSep", s, C.coq_list(["%d" % int(b) for b in op[1]]), e)
    if k == "sepvec":
        e = "None" if exc else "(Some %s)" % zlist(res)
        return "PSepVec %s %s %s %s" % (s, C.coq_list(["%d" % int(b) for b in op[1]]),
                                        C.coq_list(["%d" % int(b) for b in op[2]]), e)
    return None


# ----------------------------------------------------------------------------------------------
# oracle: the property stated on the implementation's outputs, exact rationals
def ulp(x):
    return Fr(math.ulp(float(x)))


def nearest_dist(a, b, fL):
    """min over integers k near (b - a)/L of |a - (b - k L)|."""
    k0 = round((b - a) / fL)
    return min(abs(a - (b - k * fL)) for k in (k0 - 1, k0, k0 + 1))


def chk_wrap(x, L, w):
    """(a): w = correct_position_entry(x) for box length L (finite > 0), x finite."""
    if math.isnan(w) or not (0.0 <= w < L):
        if w == L:
            return "corrected position equals the box length L (outside the half-open range [0, L))"
        return "corrected position %s outside [0, L)" % float(w).hex()
    if w == 0.0 and math.copysign(1.0, w) < 0:
        return "corrected position is -0.0"
    err = nearest_dist(Fr(w), Fr(x), Fr(L))
    if x >= 0.0:
        if err != 0:
            return "corrected position of a non-negative entry is not exactly congruent modulo L (error %s)" % float(err)
    elif err > ulp(L) / 2:
        return "corrected position not congruent to the entry modulo L within ulp(L)/2 (error %s)" % float(err)
    return None


def chk_sep(s, L, d, extra=Fr(0), exact=None):
    """(b): d = correct_separation_entry(s) for box length L (finite > 0), s finite.
    exact: the exact rational the result must be congruent to (default s); extra: additional tolerance."""
    Lh = L / 2.0
    fL, fLh = Fr(L), Fr(Lh)
    in_dom = abs(Fr(s)) + fL <= BIG
    if math.isnan(d):
        return "separation is NaN for a finite entry" if in_dom else None
    bound = fL / 2 if fLh * 2 == fL else max(fLh, fL - fLh)
    if math.isinf(d) or abs(Fr(d)) > bound:
        return "|corrected separation| = %s exceeds half the box length" % float(abs(d)).hex()
    if in_dom:
        t = s + Lh
        tol = ulp(t) / 2 + ulp(L) + extra
        err = nearest_dist(Fr(d), Fr(s) if exact is None else exact, fL)
        if err > tol:
            return "corrected separation not congruent modulo L (error %s > tolerance %s)" % (float(err), float(tol))
    return None


def expected_exc(st, op):
    """Exception the implementation must raise for inputs outside the setting's dimension (else None)."""
    dim = setting_dim(st)
    k = op[0]
    if k == "sepvec":
        return "IndexError" if min(len(op[1]), len(op[2])) < dim else None
    if st[0] == "cubic":
        return None
    if k in ("pos_entry", "sep_entry", "next"):
        return None if 0 <= int(op[2]) < dim else "IndexError"
    return "IndexError" if len(op[1]) > dim else None


def oracle_group(g, res, init, stored):
    """Returns list of (op index, message)."""
    st = g.get("eff") or eff_setting(g)
    ops = g["ops"]
    lengths = setting_lengths(st)
    fails = []
    ok_lengths = all(valid_len(L) for L in lengths)
    if init != "ok":
        if init[0] == "EXC" and init[1] == "AttributeError" and any(L <= 0.0 for L in lengths):
            return []      # the setting refuses non-positive lengths
        return [(0, "setting could not be initialised: %r" % (init,))]
    if any(L <= 0.0 for L in lengths):
        return [(0, "setting accepted a non-positive system length")]
    # the module holds the given lengths and their float halves
    want = [[f2b(lengths[0])], [f2b(lengths[0] / 2.0)]] if st[0] == "cubic" else \
        [[f2b(L) for L in lengths], [f2b(L / 2.0) for L in lengths]]
    if [[canon(b) for b in r] for r in stored] != [[canon(b) for b in r] for r in want]:
        return [(0, "setting module stores lengths %r, expected %r" % (stored, want))]
    entry = {}
    for op, r in zip(ops, res):
        if op[0] in ("pos_entry", "sep_entry") and not is_exc(r):
            entry[(op[0], int(op[1]), int(op[2]))] = canon(r[0])
    dim = setting_dim(st)
    for j, (op, r) in enumerate(zip(ops, res)):
        k = op[0]
        ee = expected_exc(st, op)
        if is_exc(r):
            if not (r[0] == "EXC" and r[1] == ee):
                fails.append((j, "unexpected exception %r" % (r,)))
            continue
        if ee is not None:
            fails.append((j, "expected %s, got a result" % ee))
            continue
        if k in ("pos_entry", "sep_entry", "next"):
            L = length_at(st, int(op[2]))
            x = b2f(op[1])
            y = b2f(r[0])
            if len(r) != 1:
                fails.append((j, "result shape"))
                continue
            if k == "next":
                if canon(f2b(x + L)) != canon(r[0]):       # (d)
                    fails.append((j, "next_image differs from position_entry + system_length"))
                continue
            if not (valid_len(L) and math.isfinite(x)):
                continue
            m = chk_wrap(x, L, y) if k == "pos_entry" else chk_sep(x, L, y)
            if m:
                fails.append((j, m))
            continue
        # vector ops (c)
        if k in ("pos", "sep"):
            if len(r) != len(op[1]):
                fails.append((j, "vector length changed"))
                continue
            ek = "pos_entry" if k == "pos" else "sep_entry"
            for i, (b, rb) in enumerate(zip(op[1], r)):
                want_b = entry.get((ek, int(b), i))
                if want_b is None:
                    fails.append((j, "harness: entry op for component %d missing" % i))
                elif want_b != canon(rb):
                    fails.append((j, "component %d of correct_%s differs from the entry function" % (
                        i, "position" if k == "pos" else "separation")))
                    break
            continue
        if k == "sepvec":
            if len(r) != dim:
                fails.append((j, "separation_vector has length %d != dimension %d" % (len(r), dim)))
                continue
            for i in range(dim):
                tf, rf = b2f(op[2][i]), b2f(op[1][i])
                raw = tf - rf
                want_b = entry.get(("sep_entry", f2b(raw), i))
                if want_b is None:
                    # the raw difference may be a NaN with another payload
                    want_b = entry.get(("sep_entry", canon(f2b(raw)), i))
                if want_b is None:
                    fails.append((j, "harness: entry op for component %d missing" % i))
                    break
                if want_b != canon(r[i]):
                    fails.append((j, "component %d of separation_vector differs from "
                                     "correct_separation_entry(target - reference)" % i))
                    break
                L = lengths[i]
                if not (valid_len(L) and math.isfinite(tf) and math.isfinite(rf)):
                    continue
                if abs(Fr(tf)) + abs(Fr(rf)) + Fr(L) > BIG:
                    continue
                m = chk_sep(raw, L, b2f(r[i]), extra=ulp(raw) / 2, exact=Fr(tf) - Fr(rf))
                if m:
                    fails.append((j, "component %d: %s" % (i, m)))
                    break
    return fails


def twin_fails(groups, res, init):
    """(e) the same ops through the other class / the other setting kind with equal lengths: bit-identical."""
    fails, ntwin = [], 0
    for gi, g in enumerate(groups):
        t = g.get("twin")
        if t is None:
            continue
        h = groups[t]
        if setting_lengths(g["eff"]) != setting_lengths(h["eff"]) and not any(
                math.isnan(x) for x in setting_lengths(g["eff"])):
            continue
        if init[gi] != "ok" or init[t] != "ok":
            if (init[gi] == "ok") != (init[t] == "ok"):
                fails.append((gi, 0, "cubic and cuboid settings differ in accepting the lengths", None, init[gi]))
            continue
        for j, (op, ra, rb) in enumerate(zip(g["ops"], res[gi], res[t])):
            if op != h["ops"][j]:
                break
            if expected_exc(g["eff"], op) or expected_exc(h["eff"], op):
                continue
            ntwin += 1
            ca = ra if is_exc(ra) else [canon(b) for b in ra]
            cb = rb if is_exc(rb) else [canon(b) for b in rb]
            if ca != cb:
                fails.append((gi, j, "cubic and cuboid periodic boundaries differ for equal lengths "
                                     "(%s via %s vs %s via %s): %r vs %r"
                              % (g["setting"][0], g.get("via", "own"), h["setting"][0], h.get("via", "own"), ra, rb),
                              "twin", ra))
    return fails, ntwin


def alias_fails(groups, res):
    """(f) results are values: a list returned / corrected by an earlier call, kept alive by the caller, must not be
    changed by a later call, and separation_vector must return a new list every time.  (The Coq model is functional
    and cannot express aliasing: this clause is checked on the implementation only.)"""
    fails = []
    for gi, g in enumerate(groups):
        for (j, c, m) in g.get("_alias") or []:
            ops = g["ops"]
            keep = needed_ops(g["eff"], ops[j]) + ([] if c == j else needed_ops(g["eff"], ops[c]))
            fails.append((gi, j, "aliasing: " + m + " (op %d: %s, op %d: %s)" % (j, ops[j][0], c, ops[c][0]),
                          keep, res[gi][j]))
    return fails


def oracle_all(groups, res, init, stored):
    """Group oracle + aliasing + twin comparison (used by the run and by the shrinker)."""
    fails = []
    for gi, g in enumerate(groups):
        for j, m in oracle_group(g, res[gi], init[gi], stored[gi]):
            fails.append((gi, j, m, None, res[gi][j]))
    fails += alias_fails(groups, res)
    tf, ntwin = twin_fails(groups, res, init)
    return fails + tf, ntwin


def history_of(groups, gi):
    """Settings initialised earlier in the same driver process (explicit history first), without immediate repeats."""
    g = groups[gi]
    hist = []
    for h in groups[g.get("_chunk_start", 0):gi]:
        hist += list(h.get("history") or []) + [h["setting"]]
    hist = list(g.get("history") or []) if not hist else hist + list(g.get("history") or [])
    out = []
    for st in hist:
        if not out or out[-1] != st:
            out.append(st)
    return out


def shrink_history(ctx, rg_of, hist):
    """Shortest suffix of the history with which the replay groups still fail the oracle (fresh process each)."""
    for n in [0, 1, 2, 3, 4, 8, 16, 32, 64]:
        if n >= len(hist):
            break
        rg = rg_of(hist[len(hist) - n:] if n else [])
        try:
            set_eff(rg)
            r, i, s_ = run_impl(ctx, rg)
            f, _ = oracle_all(rg, r, i, s_)
        except Exception:  # noqa
            f = []
        if f:
            return hist[len(hist) - n:] if n else []
    return hist


def needed_ops(st, op):
    return entry_deps(st, op) + [op]


# ----------------------------------------------------------------------------------------------
def run(ctx, groups_override=None):
    C.build_scratch(ctx)
    broken = []
    ok, out, nthm = C.check_props(ctx)
    if not ok:
        broken.append("Props/C15.v does not check: " + out[-600:])
    if groups_override is not None:
        groups, gstats = groups_override, {"length_class": {}, "edge_class": {}}
    else:
        corpus = load_corpus()
        gen, gstats = gen_groups(ctx, ctx.n(6000, 300000))
        for g in gen:
            if g.get("twin") is not None:
                g["twin"] += len(corpus)
        groups = corpus + gen
    for gi, g in enumerate(groups):
        t = g.get("twin")
        if t is not None and not (0 <= t < len(groups) and t != gi and
                                  len(groups[t]["ops"]) == len(g["ops"])):
            g["twin"] = None
    set_eff(groups)
    # round 1
    res, init, stored = run_impl(ctx, groups)
    # round 2: idempotence of the wrap — feed every corrected position back through the implementation
    groups2, back = [], []
    for gi, g in enumerate(groups):
        if init[gi] != "ok":
            continue
        ops2, idx = [], []
        for j, (op, r) in enumerate(zip(g["ops"], res[gi])):
            if op[0] == "pos_entry" and not is_exc(r):
                ops2.append(["pos_entry", canon(r[0]), op[2]])
                idx.append(j)
        if ops2:
            groups2.append({"setting": g["setting"], "via": g.get("via", "own"), "ops": ops2})
            back.append((gi, idx))
    set_eff(groups2)
    res2, init2, _ = run_impl(ctx, groups2) if groups2 else ([], [], [])

    # correspondence: model vs implementation, bit-exact, evaluated in Coq
    terms, idxmap = [], []
    for gi, g in enumerate(groups):
        if init[gi] != "ok":
            continue
        for j, (op, r) in enumerate(zip(g["ops"], res[gi])):
            if is_exc(r) and r[0] == "ERR":
                continue
            t = case_term(g["eff"], op, r)
            if t is not None:
                terms.append(t)
                idxmap.append((gi, j, op, r))
    for g2, r2, i2, (gi, idx) in zip(groups2, res2, init2, back):
        if i2 != "ok":
            continue
        for op, r, j in zip(g2["ops"], r2, idx):
            if is_exc(r) and r[0] == "ERR":
                continue
            terms.append(case_term(g2["eff"], op, r))
            idxmap.append((gi, j, op, r))
    neval, bad, nfiles, nok, err = C.eval_cases(ctx, "c15", HEADER, terms, "check_pcase", "pcase", per_file=PER_FILE)
    if err:
        broken.append("correspondence case files did not evaluate: " + err[-600:])
    mism = [idxmap[i] for i in bad]

    # oracle on the implementation (model-independent)
    fails = []          # (group index, op index, message, ops to keep for the replay, impl result)
    for gi, g in enumerate(groups):
        for j, m in oracle_group(g, res[gi], init[gi], stored[gi]):
            fails.append((gi, j, m, None, res[gi][j]))
    fails += alias_fails(groups, res)                                    # (f) no aliasing between results
    for g2, r2, i2, (gi, idx) in zip(groups2, res2, init2, back):       # (a) idempotence
        for op, r, j in zip(g2["ops"], r2, idx):
            L = length_at(g2["eff"], int(op[2]))
            x = b2f(groups[gi]["ops"][j][1])
            if L is None or not (valid_len(L) and math.isfinite(x)):
                continue
            if i2 != "ok" or is_exc(r) or canon(r[0]) != canon(op[1]):
                fails.append((gi, j, "correct_position_entry is not idempotent: corrected value %s is mapped to %r"
                              % (hexf(op[1]), r if is_exc(r) or i2 != "ok" else hexf(r[0])),
                              [groups[gi]["ops"][j]], res[gi][j]))
    tf, ntwin = twin_fails(groups, res, init)                             # (e) cubic == cuboid
    fails += tf

    # statistics
    kinds, nonfinite, raw_eq_L, sep_raw_eq_L, extreme, nexc, ncomp = {}, 0, 0, 0, 0, 0, 0
    distinct = set()
    settings = {"cubic": 0, "cuboid": 0, "dim1": 0, "dim2": 0, "dim3": 0, "init_refused": 0, "twin_pairs": 0}
    for gi, g in enumerate(groups):
        st = g["eff"]
        settings[st[0]] += 1
        if g.get("via") == "cuboid":
            settings["cuboid_class_under_cubic_setting"] = settings.get("cuboid_class_under_cubic_setting", 0) + 1
        if gi > g.get("_chunk_start", 0):
            tr = "%s->%s" % (groups[gi - 1]["setting"][0], g["setting"][0])
            settings["transition " + tr] = settings.get("transition " + tr, 0) + 1
        settings["dim%d" % setting_dim(st)] = settings.get("dim%d" % setting_dim(st), 0) + 1
        if init[gi] != "ok":
            settings["init_refused"] += 1
        if g.get("twin") is not None:
            settings["twin_pairs"] += 1
        skey = json.dumps(st)
        for op, r in zip(g["ops"], res[gi]):
            kinds[op[0]] = kinds.get(op[0], 0) + 1
            distinct.add((skey, json.dumps(op)))
            if is_exc(r):
                nexc += 1
            if init[gi] != "ok":
                continue
            if op[0] in ("pos_entry", "sep_entry", "next"):
                comps = [(op[1], int(op[2]))]
            elif op[0] == "sepvec":
                comps = [(f2b(b2f(t) - b2f(rf)), i) for i, (rf, t) in enumerate(zip(op[1], op[2]))]
            else:
                comps = [(b, i) for i, b in enumerate(op[1])]
            for b, i in comps:
                ncomp += 1
                x = b2f(b)
                L = length_at(st, i) if st[0] == "cubic" or i < setting_dim(st) else None
                if not math.isfinite(x):
                    nonfinite += 1
                    continue
                if L is None or not valid_len(L):
                    continue
                if abs(x) > L * 2.0 ** 200:
                    extreme += 1
                if op[0] in ("pos_entry", "pos"):
                    if x % L == L:
                        raw_eq_L += 1
                elif op[0] != "next":
                    t = x + L / 2.0
                    if math.isfinite(t) and t % L == L:
                        sep_raw_eq_L += 1

    def mk(gg, ops, hist, extra=None):
        d = {"setting": gg["setting"], "via": gg.get("via", "own"), "history": hist, "ops": ops}
        if extra:
            d.update(extra)
        return d

    if fails:
        gi, j, m, keep, ir = fails[0]
        g = groups[gi]
        op = g["ops"][j] if g["ops"] else None
        if op is None:
            ops_keep = []
        elif keep in (None, "twin"):
            ops_keep = needed_ops(g["eff"], op)
        else:
            ops_keep = keep
        if keep == "twin":      # g is the twin of groups[g["twin"]] (same ops, other class / setting kind)
            first = groups[g["twin"]]

            def rg_of(hist):
                return [mk(first, [list(o) for o in ops_keep], hist),
                        mk(g, [list(o) for o in ops_keep], hist, {"twin": 0})]
        else:
            def rg_of(hist):
                return [mk(g, [list(o) for o in ops_keep], hist)]
        if groups_override is None:
            full = history_of(groups, gi)
            hist = shrink_history(ctx, rg_of, full)
        else:
            full = hist = list(g.get("history") or [])
        C.violation(ctx, "oracle", {"kind": "c15-groups", "groups": rg_of(hist),
                                    "failing": dict(describe(g["eff"], op), via=g.get("via", "own"))
                                    if op is not None else None,
                                    "history_of_initialisations_in_the_process": {
                                        "kept": len(hist), "original": len(full),
                                        "note": "settings initialised, used once and reset earlier in the same "
                                                "process, oldest first; shrunk to the shortest failing suffix"},
                                    "impl_result": ir if is_exc(ir) or not isinstance(ir, list)
                                    else [hexf(b) for b in ir],
                                    "message": m, "n_failing": len(fails)},
                    "C15 fails on the implementation: " + m)
    elif mism:
        gi, j, op, r = mism[0]
        hist = history_of(groups, gi) if groups_override is None else list(groups[gi].get("history") or [])
        C.violation(ctx, "correspondence", {"kind": "c15-groups",
                                            "groups": [mk(groups[gi], needed_ops(groups[gi]["eff"],
                                                                                 groups[gi]["ops"][j]), hist)],
                                            "failing": dict(describe(groups[gi]["eff"], op),
                                                            via=groups[gi].get("via", "own")),
                                            "impl_result": r if is_exc(r) else [hexf(b) for b in r],
                                            "message": "model/implementation disagree bit-wise (%d cases); the "
                                            "exact-arithmetic oracle found no failing input; correspondence "
                                            "JF.Model.PeriodicCases.check_pcase no longer checks" % len(mism)},
                    "Periodic model and implementation disagree", nofail=True)
    elif broken:
        C.violation(ctx, "obligation", {"kind": "obligation", "broken": broken}, broken[0][:200], nofail=True)

    allcases = [(groups[gi]["eff"], op, res[gi][j]) for gi in range(len(groups))
                for j, op in enumerate(groups[gi]["ops"])]
    nall = len(allcases)
    dist = dict(kinds)
    dist.update({
        "groups": len(groups), "settings": settings, "length_classes": gstats["length_class"],
        "edge_classes": gstats["edge_class"], "components_evaluated": ncomp,
        "raw_float_modulo_equals_L (x % L == L, the F1 situation)": raw_eq_L,
        "separation_raw_modulo_equals_L ((s + L/2) % L == L)": sep_raw_eq_L,
        "extreme_ratio_components (|x| > 2^200 L)": extreme, "nonfinite_components": nonfinite,
        "exception_results": nexc, "idempotence_round_ops": sum(len(g2["ops"]) for g2 in groups2),
        "cubic_vs_cuboid_ops_compared": ntwin,
        "list_objects_kept_alive_and_rechecked (results of separation_vector, lists corrected in place, arguments)":
            sum((3 if op[0] == "sepvec" else 1) for g in groups for op in g["ops"] if op[0] in ("sepvec", "pos", "sep")),
    })
    C.write_evidence(ctx, {
        "evaluations": nall + sum(len(g2["ops"]) for g2 in groups2),
        "distinct_nontrivial": len(distinct),
        "rule": "operations of the periodic boundaries (entry and vector forms) on settings drawn from box-length pools "
                "(1, 0.1, 3.7, 2^k, tiny, subnormal-adjacent, random), dimensions 1..3, cubic and cuboid, with entries "
                "from edge classes relative to L (negative, tiny negative, +-0, L and neighbours, multiples of L, many "
                "boxes away, 2^+-k, +-L/2 and neighbours) mixed with random values; distinct = distinct (setting, op, "
                "bit-pattern) tuples; every case performs a float modulo / addition, none is trivial",
        "samples": [{"setting": s, "op": op, "impl": r} for (s, op, r) in allcases[::max(1, nall // 6)][:6]],
        "input_distribution": dist,
        "model_vs_impl_mismatches": len(mism),
        "oracle_failures": len(fails),
        "traces_validated_against_impl": neval,
        "case_files": nfiles, "case_files_ok": nok,
        "explanation": "Props/C15.v re-checked (%d theorems); bit-exact correspondence of Model/Periodic.v with "
                       "jellyfysh.setting.{hypercubic,hypercuboid}_setting periodic boundaries (reached through "
                       "setting.periodic_boundaries, and the cuboid class also under hypercubic settings) evaluated in "
                       "Coq on every op incl. the idempotence round; every driver process re-initialises the setting "
                       "package many times (cuboid/cubic, other lengths, other dimension) and results must obey the "
                       "CURRENT box; "
                       "exact-rational oracle on the implementation: range [0,L), congruence, idempotence, |sep| <= L/2, "
                       "vector == entry-wise, next_image, cubic == cuboid" % nthm,
        "trusted_base": TRUSTED,
    }, ASSUME)


TRUSTED = [
    "Flocq 4.1 IEEE754.BinarySingleNaN (executable binary64) and its *_correct theorems",
    "hand-written model coq/Model/Periodic.v, coq/Base/PyFloat.v (CPython float_rem transcribed, C fmod exact on integers)",
    "correspondence harness harness/c15.py + drivers/c15_periodic.py (bit-level (de)serialisation of floats)",
]
ASSUME = [
    "the model is tied to the code by bit-exact differential evaluation on generated inputs, not by a semantics of Python",
    "system lengths are finite and > 0 (the setting classes refuse lengths <= 0; inf/NaN lengths are outside the property)",
    "position and separation entries are finite floats; separation congruence is claimed for |s| + L <= 2^1023",
    "vectors have the setting's dimension (longer vectors raise IndexError in the cuboid class)",
    "aliasing between results (a kept result changed by a later call, separation_vector returning a shared list) is "
    "checked on the implementation only, by keeping every list object of a group alive and re-reading it after every "
    "later call: the Coq model is functional and cannot express aliasing",
    "the history of setting (re-)initialisations within one process is an input: ~100 initialisations per driver "
    "process in generated order (transition counts in input_distribution.settings); the application itself "
    "initialises one setting per process",
]


def load_corpus():
    p = os.path.join(C.VERIF, "corpus", "C15", "groups.json")
    return json.load(open(p)) if os.path.exists(p) else []


def replay(ctx, path):
    data = json.load(open(path))
    run(ctx, groups_override=data.get("groups", []))
