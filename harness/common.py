"""Common machinery of the /verif checks (see DESIGN.md sections 2, 4, 8b).

Everything a check needs that is not specific to one property:
scratch build of /repo's current working tree, running implementation drivers in a
subprocess, generating / compiling / evaluating Coq case files, re-checking the property
theorems (Props/Cxx.v) and capturing Print Assumptions, forbidden-word grep, evidence and
replay writing, known-findings handling.
"""
import fcntl
import json
import os
import random
import re
import shutil
import struct
import subprocess
import sys
import time
from concurrent.futures import ThreadPoolExecutor

VERIF = os.path.dirname(os.path.dirname(os.path.abspath(__file__)))
REPO = os.environ.get("VERIF_REPO", "/repo")
COQ = os.path.join(VERIF, "coq")
PY = "/venv/bin/python"
NCPU = int(os.environ.get("VERIF_JOBS", "16"))
GUARD = "JELLYFYSH_VERIF"

EXT_BUILDERS = {
    "heap": "jellyfysh/scheduler/heap_scheduler/heap_build.py",
    "mic": "jellyfysh/potential/merged_image_coulomb_potential/merged_image_coulomb_potential_build.py",
    "ipc": "jellyfysh/potential/inverse_power_coulomb_bounding_potential/"
           "inverse_power_coulomb_bounding_potential_build.py",
}

FORBIDDEN = re.compile(
    r"\b(Admitted|admit|Axiom|Axioms|Parameter|Parameters|Conjecture|Abort All|"
    r"Unset Guard Checking|bypass_check|Admit Obligations|Unset Positivity Checking|"
    r"Unset Universe Checking|native_compute)\b|type-in-type|impredicative-set")


# ----------------------------------------------------------------------------------------------
# float <-> bits
def f2b(x):
    return struct.unpack("<Q", struct.pack("<d", float(x)))[0]


def b2f(b):
    return struct.unpack("<d", struct.pack("<Q", int(b)))[0]


def coq_f(x):
    """Coq term for a Python float (via bits)."""
    return "(of_bits %d)" % f2b(x)


def coq_fb(b):
    return "(of_bits %d)" % int(b)


def coq_list(items):
    return "[" + "; ".join(items) + "]"


def coq_bool(b):
    return "true" if b else "false"


def coq_z(n):
    n = int(n)
    return "(%d)" % n if n < 0 else "%d" % n


def coq_q(fr):
    """Coq Q term for a fractions.Fraction."""
    return "(%s # %d)" % (coq_z(fr.numerator), fr.denominator)


# ----------------------------------------------------------------------------------------------
class Ctx:
    def __init__(self, prop, tier, seed):
        self.prop = prop
        self.tier = tier
        self.seed = seed
        self.rng = random.Random((seed * 1000003) ^ hash_str(prop))
        self.t0 = time.time()
        self.root = os.path.join(os.environ.get("VERIF_SCRATCH", "/var/tmp"),
                                 "jfverif.%s.%d" % (prop, os.getpid()))
        self.scratch = os.path.join(self.root, "src")      # parent of the copied jellyfysh package
        self.gen = os.path.join(self.root, "Gen")          # generated .v files
        self.violations = []      # list of dict(replay=..., what=..., nofail=bool)
        self.known_lines = []     # KNOWN-FINDING lines
        self.obligations = 0
        self.discharged = 0
        self.checker_cmds = []
        self.assumptions_text = ""
        self.notes = []
        self.exts = ()

    def quick(self):
        return self.tier == "quick"

    def n(self, quick, thorough):
        return quick if self.tier == "quick" else thorough

    def cleanup(self):
        shutil.rmtree(self.root, ignore_errors=True)


def hash_str(s):
    h = 0
    for c in s:
        h = (h * 131 + ord(c)) & 0xFFFFFFFF
    return h


def log(*a):
    print(*a, file=sys.stderr, flush=True)


# ----------------------------------------------------------------------------------------------
# scratch build of the implementation
def build_scratch(ctx, exts=()):
    """Copy /repo/jellyfysh (current working tree) and rebuild the requested cffi extensions
    from the current C sources.  The in-tree .so files are never used."""
    ctx.exts = tuple(exts)
    os.makedirs(ctx.scratch, exist_ok=True)
    os.makedirs(ctx.gen, exist_ok=True)
    dst = os.path.join(ctx.scratch, "jellyfysh")
    if os.path.exists(dst):
        shutil.rmtree(dst)
    subprocess.run(
        ["rsync", "-a", "--exclude=*.so", "--exclude=*.o", "--exclude=__pycache__",
         "--exclude=_heap.c", "--exclude=_merged_image_coulomb_potential.c",
         "--exclude=_inverse_power_coulomb_bounding_potential.c",
         os.path.join(REPO, "jellyfysh"), ctx.scratch + "/"], check=True)
    procs = []
    for e in exts:
        procs.append((e, subprocess.Popen([PY, EXT_BUILDERS[e]], cwd=ctx.scratch,
                                          stdout=subprocess.PIPE, stderr=subprocess.STDOUT,
                                          env=impl_env(ctx))))
    for e, p in procs:
        out, _ = p.communicate()
        if p.returncode != 0:
            raise BuildError("cffi build of %s failed:\n%s" % (e, out.decode(errors="replace")[-3000:]))


class BuildError(Exception):
    pass


def impl_env(ctx, extra=None):
    env = dict(os.environ)
    env["PYTHONPATH"] = ctx.scratch + os.pathsep + os.path.join(VERIF, "harness")
    env["PYTHONHASHSEED"] = "0"
    env[GUARD] = "1"
    env["PYTHONDONTWRITEBYTECODE"] = "1"
    if extra:
        env.update(extra)
    return env


def run_driver(ctx, driver, payload, timeout=1800, extra_env=None):
    """Run harness/drivers/<driver>.py on the implementation in a subprocess.
    payload (JSON-serialisable) -> stdin; returns parsed JSON from stdout."""
    path = os.path.join(VERIF, "harness", "drivers", driver + ".py")
    p = subprocess.run([PY, path], input=json.dumps(payload).encode(), cwd=os.path.join(ctx.scratch, "jellyfysh"),
                       env=impl_env(ctx, extra_env), stdout=subprocess.PIPE, stderr=subprocess.PIPE,
                       timeout=timeout)
    if p.returncode != 0:
        raise DriverError("driver %s failed (rc=%d):\n%s" % (driver, p.returncode,
                                                           p.stderr.decode(errors="replace")[-4000:]))
    out = p.stdout.decode()
    # the driver prints exactly one line starting with the marker
    for line in out.splitlines():
        if line.startswith("@@JSON@@"):
            return json.loads(line[len("@@JSON@@"):])
    raise DriverError("driver %s printed no result:\n%s\n%s" % (driver, out[-2000:], p.stderr.decode()[-2000:]))


def run_driver_parallel(ctx, driver, payloads, timeout=1800, extra_env=None):
    with ThreadPoolExecutor(max_workers=NCPU) as ex:
        return list(ex.map(lambda pl: run_driver(ctx, driver, pl, timeout, extra_env), payloads))


class DriverError(Exception):
    pass


# ----------------------------------------------------------------------------------------------
# Coq side
def ensure_coq_built(ctx=None):
    if os.environ.get("VERIF_SKIP_MAKE"):
        return True, ""
    """(Re)build the static Coq development if out of date (no-op when setup_cmd was run)."""
    lock = open(os.path.join(COQ, ".build.lock"), "w")
    fcntl.flock(lock, fcntl.LOCK_EX)
    try:
        if not os.path.exists(os.path.join(COQ, "Makefile")) or \
                os.path.getmtime(os.path.join(COQ, "_CoqProject")) < newest_v_listing_mtime():
            subprocess.run([os.path.join(VERIF, "setup.sh"), "--no-coqchk", "--makefile-only"], check=True,
                           stdout=subprocess.DEVNULL)
        p = subprocess.run(["timeout", "3000", "make", "-k", "-C", COQ, "-j%d" % NCPU], stdout=subprocess.PIPE,
                           stderr=subprocess.STDOUT)
        if p.returncode != 0:
            return False, p.stdout.decode(errors="replace")[-4000:]
        return True, ""
    finally:
        fcntl.flock(lock, fcntl.LOCK_UN)
        lock.close()


def newest_v_listing_mtime():
    m = 0
    for d in ("Base", "Model", "Proofs", "Props"):
        p = os.path.join(COQ, d)
        if os.path.isdir(p):
            m = max(m, os.path.getmtime(p))
    return m


def grep_forbidden():
    bad = []
    for d, _, files in os.walk(COQ):
        for f in files:
            if f.endswith(".v"):
                p = os.path.join(d, f)
                txt = strip_coq_comments(open(p).read())
                for i, line in enumerate(txt.splitlines(), 1):
                    if FORBIDDEN.search(line):
                        bad.append("%s:%d: %s" % (os.path.relpath(p, VERIF), i, line.strip()[:100]))
    return bad


def strip_coq_comments(s):
    out = []
    depth = 0
    i = 0
    n = len(s)
    instr = False
    while i < n:
        if depth == 0 and s[i] == '"':
            instr = not instr
            out.append(s[i])
            i += 1
        elif not instr and s.startswith("(*", i):
            depth += 1
            i += 2
        elif not instr and depth > 0 and s.startswith("*)", i):
            depth -= 1
            i += 2
        else:
            if depth == 0:
                out.append(s[i])
            elif s[i] == "\n":
                out.append("\n")
            i += 1
    return "".join(out)


def coqc(path, outdir, extra_q=(), timeout=900):
    """Compile one .v file; returns (ok, stdout+stderr)."""
    cmd = ["timeout", str(timeout), "coqc", "-Q", COQ, "JF"]
    for d, name in extra_q:
        cmd += ["-Q", d, name]
    cmd += [path]
    p = subprocess.run(cmd, stdout=subprocess.PIPE, stderr=subprocess.STDOUT, cwd=outdir)
    return p.returncode == 0, p.stdout.decode(errors="replace")


def check_props(ctx, prop=None):
    """Re-check Props/<prop>*.v (property theorems + Print Assumptions) against the compiled
    development.  Each Theorem is one obligation."""
    import glob as _glob
    prop = prop or ctx.prop
    srcs = sorted(_glob.glob(os.path.join(COQ, "Props", prop + "*.v")))
    all_ok, outs, total = True, "", 0
    os.makedirs(ctx.gen, exist_ok=True)
    for src in srcs:
        txt = strip_coq_comments(open(src).read())
        n_thm = len(re.findall(r"^\s*(Theorem|Corollary)\s", txt, re.M))
        total += n_thm
        ctx.obligations += n_thm
        base = os.path.basename(src)
        dst = os.path.join(ctx.gen, "Props_" + base)
        shutil.copy(src, dst)
        ok, out = coqc(dst, ctx.gen)
        ctx.checker_cmds.append("coqc -Q coq JF coq/Props/%s" % base)
        if ok:
            ctx.discharged += n_thm
            ctx.assumptions_text += out
        else:
            all_ok = False
        outs += out
    if not srcs:
        return False, "no Props file for %s" % prop, 0
    return all_ok, outs, total


def summarize_assumptions(text):
    """Distinct axiom names reported by Print Assumptions, and the number of closed theorems."""
    closed = len(re.findall(r"Closed under the global context", text))
    axioms = set()
    for m in re.finditer(r"^([A-Za-z_][\w.']*)\s*\n?\s*:", text, re.M):
        if m.group(1) != "Axioms":
            axioms.add(m.group(1))
    return sorted(axioms), closed


RESULT_RE = re.compile(r'\(\s*"RESULT"%string\s*,\s*(\d+)%N\s*,\s*\[(.*?)\]\s*\)', re.S)


def eval_cases(ctx, name, header, case_terms, checker, case_type, per_file=400, timeout=1500):
    """Write case files  Definition cases : list <case_type> := [...]  and evaluate
    <checker> : <case_type> -> bool on each case with vm_compute inside Coq.
    Returns (n_evaluated, sorted list of failing global indices, n_files, n_files_ok, error_text)."""
    os.makedirs(ctx.gen, exist_ok=True)
    files = []
    for k in range(0, len(case_terms), per_file):
        chunk = case_terms[k:k + per_file]
        fn = os.path.join(ctx.gen, "cases_%s_%04d.v" % (name, k // per_file))
        with open(fn, "w") as f:
            f.write(header + "\n")
            f.write("From Coq Require Import List ZArith NArith String.\nImport ListNotations.\n")
            f.write("Definition cases : list (%s) := [\n" % case_type)
            f.write(";\n".join(chunk))
            f.write("\n].\n")
            f.write("Fixpoint bad_idx (i : N) (l : list (%s)) : list N :=\n"
                    "  match l with nil => nil | c :: r => if %s c then bad_idx (N.succ i) r "
                    "else i :: bad_idx (N.succ i) r end.\n" % (case_type, checker))
            f.write('Definition result := ("RESULT"%string, N.of_nat (List.length cases), bad_idx 0%N cases).\n')
            f.write("Eval vm_compute in result.\n")
        files.append((k, fn))
    ctx.obligations += len(files)
    ctx.checker_cmds.append("coqc -Q coq JF <gen>/cases_%s_*.v   (%d files, vm_compute)" % (name, len(files)))

    def one(item):
        k, fn = item
        ok, out = coqc(fn, ctx.gen, timeout=timeout)
        return k, fn, ok, out

    bad = []
    n_eval = 0
    n_ok = 0
    err = ""
    with ThreadPoolExecutor(max_workers=NCPU) as ex:
        for k, fn, ok, out in ex.map(one, files):
            m = RESULT_RE.search(out) if ok else None
            if not m:
                err += "case file %s did not evaluate:\n%s\n" % (os.path.basename(fn), out[-1500:])
                continue
            n_ok += 1
            n_eval += int(m.group(1))
            idx = [int(x) for x in re.findall(r"(\d+)%N", m.group(2))]
            if not idx:
                idx = [int(x) for x in re.findall(r"\d+", m.group(2))]
            bad += [k + i for i in idx]
    ctx.discharged += n_ok
    return n_eval, sorted(bad), len(files), n_ok, err


# ----------------------------------------------------------------------------------------------
# known findings
def load_known():
    p = os.path.join(VERIF, "known_findings.json")
    if not os.path.exists(p):
        return []
    return json.load(open(p))["findings"]


def known_open(prop):
    return [k for k in load_known() if k["property"] == prop and k.get("status") == "open"]


# ----------------------------------------------------------------------------------------------
# output
def write_replay(ctx, name, data):
    d = os.path.join(VERIF, "replays")
    os.makedirs(d, exist_ok=True)
    p = os.path.join(d, "%s_%s_seed%d.json" % (ctx.prop, name, ctx.seed))
    data = dict(data)
    data.setdefault("property", ctx.prop)
    data.setdefault("seed", ctx.seed)
    data.setdefault("tier", ctx.tier)
    with open(p, "w") as f:
        json.dump(data, f, indent=1, default=str)
    return p


def violation(ctx, name, data, what, nofail=False):
    p = write_replay(ctx, name, data)
    ctx.violations.append({"replay": p, "what": what, "nofail": nofail})


def known(ctx, finding_id, what):
    ctx.known_lines.append("KNOWN-FINDING: property=%s %s %s" % (ctx.prop, finding_id, what))


def write_evidence(ctx, coverage, assumptions, level="proof"):
    os.makedirs(os.path.join(VERIF, "evidence"), exist_ok=True)
    axioms, closed = summarize_assumptions(ctx.assumptions_text)
    cov = dict(coverage)
    if level not in ("exploration", "fault_enumeration", "model_checking", "proof", "translation_validation", "other"):
        cov["level_detail"] = level          # free text does not belong into the enum field
        level = "proof"
    cov.setdefault("obligations", ctx.obligations)
    cov.setdefault("discharged", ctx.discharged)
    cov.setdefault("checker_cmd", " ; ".join(ctx.checker_cmds) or "coqc")
    tb = list(cov.get("trusted_base", []))
    tb += ["Coq 8.16.1 kernel (coqc) incl. vm_compute; no native_compute",
           "Print Assumptions on this run: %d theorem(s) closed under the global context; axioms named: %s"
           % (closed, ", ".join(axioms) if axioms else "none")]
    cov["trusted_base"] = tb
    ev = {
        "property_id": ctx.prop,
        "tier": ctx.tier,
        "seed": ctx.seed,
        "level": level,
        "coverage": cov,
        "assumptions": assumptions,
        "wall_s": round(time.time() - ctx.t0, 2),
        "violations": len(ctx.violations),
        "known_findings_reported": ctx.known_lines,
        "notes": ctx.notes,
    }
    # evidence/<id>.json is written only by checks run against /repo itself; a run against another tree
    # (VERIF_REPO: seeded changes in a scratch worktree) leaves it alone
    if os.path.realpath(REPO) == "/repo":
        out = os.path.join(VERIF, "evidence", ctx.prop + ".json")
    else:
        d = os.path.join(os.environ.get("VERIF_SCRATCH", "/var/tmp"), "jfverif.evidence.other-tree")
        os.makedirs(d, exist_ok=True)
        out = os.path.join(d, ctx.prop + ".json")
    with open(out, "w") as f:
        json.dump(ev, f, indent=1, default=str)
