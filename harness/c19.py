"""C19 — a dumped run resumes to exactly the run that was never interrupted (DESIGN.md section 5, C19)."""
import json
import os

import common as C
import hist
import tracecheck as TC

HEADER = "Require Import JF.Base.F64 JF.Model.Kinematics JF.Model.Dump.\nFrom Coq Require Import ZArith."
TRUSTED = [
    "model coq/Model/Dump.v (mediator loop over an abstract scheduler interface; bit-level comparison of recorded legs)",
    "tracer harness/drivers/tracer.py + drivers/c19_dump.py (adds a dumping tagger to a shipped configuration, keeps a "
    "copy of every dump written, resumes each dump in a FRESH process through jellyfysh.resume.main)",
]
ASSUME = [
    "what dill does to module globals, closures and cffi objects is runtime behaviour outside the model: covered only by "
    "the differential runs of real processes (original run vs resumed run, run with dumping vs without)",
    "the resumed and the original run are compared on handler index, event time, candidates, out-state, trash list, "
    "changed units, write calls and the number of random draws per leg",
]
FIELDS = ("pick", "time", "cands", "out", "delta", "trash", "write", "wstate", "to_run")


def leg_diff(a, b):
    return [k for k in FIELDS if a.get(k) != b.get(k)]


def draws_inc(legs):
    out, prev = [], None
    for l in legs:
        d = l.get("draws")
        out.append(None if (d is None or prev is None) else d - prev)
        prev = d
    return out


def kleg_term(meta, leg):
    return ("{| k_kind := %s; k_cands := %s; k_pick := %d; k_time := %s; k_out := %s; k_trash := %s; k_after := %s |}"
            % (hist.KIND_COQ[TC.handler_kind(meta, leg["pick"])],
               C.coq_list(["(%d, %s)" % (h, hist.coq_ftime(t)) for h, t in leg["cands"]]),
               leg["pick"], hist.coq_ftime(leg["time"]),
               C.coq_list([hist.coq_unit(u) for u in leg["out"]]), hist.coq_nat_list(leg["trash"]),
               C.coq_list([hist.coq_unit(u) for u in leg["delta"]])))


def complete(leg):
    return leg.get("pick") is not None and leg.get("out") is not None and leg.get("delta") is not None \
        and leg.get("time") is not None


def jobs(ctx):
    base = "config_files/2018_JCP_149_064113/"
    cfgs = [(base + "coulomb_atoms/power_bounded.ini", {}),
            (base + "coulomb_atoms/power_bounded.ini", {"SingleProcessMediator": {"scheduler": "list_scheduler"}}),
            (base + "dipoles/cell_veto.ini", {}),
            (base + "coulomb_atoms/cell_bounded.ini", {}),
            (base + "dipoles/dipole_motion.ini", {}),
            (base + "water/coulomb_power_bounded_lj_inverted.ini", {}),
            (base + "dipoles/cell_bounded.ini", {"SingleProcessMediator": {"scheduler": "list_scheduler"}}),
            (base + "water/coulomb_cell_veto_lj_cell_veto.ini", {})]
    n = ctx.n(4, 8)
    rng = ctx.rng
    rng.shuffle(cfgs)
    sel = cfgs[:n]
    if not any("cell_veto" in c for c, _ in sel):
        sel[-1] = (base + "dipoles/cell_veto.ini", {})
    # crowded cell systems: several units in nearby cells, so that the ORDER in which the cell-based taggers generate
    # their in-states matters (finding F9: it depended on memory addresses)
    crowd = {"RandomInputHandler": {"number_of_root_nodes": 12}, "CuboidPeriodicCells": {"cells_per_side": "5, 5, 5"},
             "CoulombNearby": {"number_event_handlers": 14}, "CoulombSurplus": {"number_event_handlers": 14}}
    sel.append((base + "coulomb_atoms/cell_veto.ini", crowd))
    # the configuration that ships with a dumping tagger, with ITS OWN create / trash lists (the other jobs get a
    # dumping tagger added by the driver): the run with dumps against the same configuration without that tagger
    sel.append((base + "coulomb_atoms/power_bounded_dump.ini",
                {"RandomInputHandler": {"number_of_root_nodes": 4}, "Coulomb": {"number_event_handlers": 3}}))
    # eight atoms with the all-pairs factor set (state that taggers carry across a dump, e.g. cached factor sets,
    # must survive pickling with its iteration order) and a lattice-sum potential with NON-default Ewald parameters
    # (a restored potential has to be rebuilt with the configured ones)
    sel.append((base + "coulomb_atoms/power_bounded.ini",
                {"RandomInputHandler": {"number_of_root_nodes": 8}, "Coulomb": {"number_event_handlers": 8},
                 "MergedImageCoulombPotential": {"alpha": 3.45, "fourier_cutoff": 2, "position_cutoff": 1}}))
    if ctx.tier == "thorough":
        sel.append((base + "coulomb_atoms/cell_bounded.ini", dict(crowd, CoulombCellBounding={"number_event_handlers": 30})))
    return sel


def tie_jobs(ctx):
    """exactly coinciding event times (sampling 0.5, chain time 0.75, end time 6.0, dumps every 0.7)"""
    base = "config_files/2018_JCP_149_064113/"
    ov = {"FixedIntervalSamplingEventHandler": {"sampling_interval": 0.5},
          "SingleIndependentActivePeriodicDirectionEndOfChainEventHandler": {"chain_time": 0.75},
          "FinalTimeEndOfRunEventHandler": {"end_of_run_time": 6.0}}
    out = []
    for c, sched in ((base + "coulomb_atoms/power_bounded.ini", "heap_scheduler"),
                     (base + "coulomb_atoms/power_bounded.ini", "list_scheduler"),
                     (base + "coulomb_atoms/cell_bounded.ini", "heap_scheduler")):
        o = json.loads(json.dumps(ov))
        o["SingleProcessMediator"] = {"scheduler": sched}
        out.append({"config": c, "overrides": o, "seed": ctx.seed, "dump_interval": 0.7, "max_legs": 2500,
                    "leftover": False, "ties": True})
    return out


def tie_swap(a, b, k):
    """legs k, k+1 of a and b are the same two events at exactly the same time in opposite order"""
    if k + 1 >= len(a) or k + 1 >= len(b):
        return False
    ts = {json.dumps(x["time"]) for x in (a[k], a[k + 1], b[k], b[k + 1])}
    return len(ts) == 1 and a[k]["pick"] == b[k + 1]["pick"] and a[k + 1]["pick"] == b[k]["pick"] \
        and a[k]["pick"] != a[k + 1]["pick"]


def run(ctx, replay_jobs=None):
    C.build_scratch(ctx, exts=("heap", "mic", "ipc"))
    broken = []
    ok, out, nthm = C.check_props(ctx)
    if not ok:
        broken.append("Props/C19.v does not check: " + out[-600:])
    js = replay_jobs or ([{"config": c, "overrides": ov, "seed": ctx.seed + i,
                           "dump_interval": ctx.rng.choice([0.02, 0.05, 0.11]), "max_legs": ctx.n(260, 900),
                           "leftover": i % 2 == 0}
                          for i, (c, ov) in enumerate(jobs(ctx))] + tie_jobs(ctx))
    pay = []
    for i, j in enumerate(js):
        pay.append(dict(j, mode="run", dump_name="dumps_j%d_dump.dat" % i))
        pay.append(dict(j, mode="run", dump_interval=None, dump_name=None))
    res = C.run_driver_parallel(ctx, "c19_dump", pay, timeout=1500)
    fails, dterms, iterms, samples, f8 = [], [], [], [], []
    n_dumps = n_legs_cmp = n_probe_cmp = 0
    resume_pay, resume_ref = [], []
    for i, j in enumerate(js):
        w, wo = res[2 * i], res[2 * i + 1]
        if w.get("error") or wo.get("error"):
            fails.append({"job": j, "msg": "run raised: %r" % ((w.get("error") or wo.get("error"))["msg"],)})
            continue
        dumps = w["dumps"]
        if not dumps:
            ctx.notes.append("no dump written within %d legs for %s" % (j["max_legs"], j["config"]))
        # (quick: at most 3 dumps spread over the run; thorough: at most 24, evenly spread, first and last included)
        nsel = ctx.n(3, 24)
        sel = [dumps[k] for k in sorted({(len(dumps) - 1) * q // max(1, nsel - 1) for q in range(nsel)})] if dumps else []
        for d in sel:
            resume_pay.append({"mode": "resume", "dump_file": d["file"], "max_legs": ctx.n(60, 200)})
            resume_ref.append((i, d))
        # dumping is invisible
        meta = w["meta"]
        dh = [hi for hi in range(len(meta["handlers"])) if TC.handler_kind(meta, hi) == "dumping"]
        a, carry_c, carry_t = [], [], []
        for l in w["legs"]:
            if not complete(l):
                break
            cs = carry_c + [c for c in l["cands"] if c[0] not in dh]
            ts = carry_t + [t for t in l["to_run"] if t[0] not in dh]
            if l["pick"] in dh:
                carry_c, carry_t = cs, ts      # created by the previous event: belongs to the next kept leg
                continue
            x = dict(l)
            x["cands"], x["to_run"] = cs, ts
            x["trash"] = [h for h in l["trash"] if h not in dh]
            a.append(x)
            carry_c, carry_t = [], []
        b = [l for l in wo["legs"] if complete(l)]
        m = min(len(a), len(b))
        k = 0
        relax = False
        while k < m:
            df = leg_diff(a[k], b[k])
            if relax:
                # the leg after a swapped pair pushes the candidates created by the other event of the pair
                df = [f for f in df if f not in ("cands", "to_run")]
                relax = False
            if df and w["meta"]["scheduler"] == "HeapScheduler" and a[k]["time"] == b[k]["time"]:
                # a group of exactly simultaneous events: known finding F8 if the two runs commit the same events
                # of the group in a different order (or the group contains the end of the run, which cuts it short)
                t = a[k]["time"]
                ga = [x["pick"] for x in a[k:] if x["time"] == t][:len([1 for x in a[k:k + 8] if x["time"] == t])]
                gb = [x["pick"] for x in b[k:] if x["time"] == t][:len([1 for x in b[k:k + 8] if x["time"] == t])]
                kinds = {TC.handler_kind(meta, h) for h in ga + gb}
                if len(ga) > 1 or len(gb) > 1:
                    if sorted(ga) == sorted(gb):
                        f8.append({"config": j["config"], "commit": k, "time": t, "handlers": [ga, gb]})
                        k += len(ga)
                        relax = True
                        continue
                    if "end_of_run" in kinds:
                        f8.append({"config": j["config"], "commit": k, "time": t, "handlers": [ga, gb]})
                        break
            if df:
                fails.append({"job": j, "msg": "run with dumping differs from the run without at commit %d in %r"
                              % (k, df), "detail": [[a[k].get(f), b[k].get(f)] for f in df][:2]})
                break
            k += 1
        n_legs_cmp += m
        if dh and m and not any(x["config"] == j["config"] and j.get("ties") for x in f8):
            mm = min(m, ctx.n(80, 250))
            wl = [l for l in w["legs"] if complete(l)]
            # take a prefix of the dumping run that contains mm non-dumping legs
            pref, cnt = [], 0
            for l in wl:
                pref.append(l)
                cnt += l["pick"] not in dh
                if cnt >= mm:
                    break
            iterms.append("{| i_dump_handler := %d; i_with := %s; i_without := %s |}" % (
                dh[0], C.coq_list([kleg_term(meta, l) for l in pref]),
                C.coq_list([kleg_term(wo["meta"], l) for l in b[:cnt]])))
    rres = C.run_driver_parallel(ctx, "c19_dump", resume_pay, timeout=1500) if resume_pay else []
    for (i, d), r in zip(resume_ref, rres):
        j, w = js[i], res[2 * i]
        n_dumps += 1
        if r.get("error"):
            fails.append({"job": j, "dump_leg": d["leg"], "msg": "resume raised %s: %s" % (r["error"]["exc"],
                                                                                            r["error"]["msg"])})
            continue
        # "same settings": the restored handlers compute with the same numbers (their potentials give bit-identical
        # derivatives at fixed probe points) and have the same parameters as those of the original run
        hw, hr = (w.get("meta") or {}).get("handlers") or [], (r.get("meta") or {}).get("handlers") or []
        if len(hw) != len(hr):
            fails.append({"job": j, "dump_leg": d["leg"], "msg": "resumed run has %d event handlers, the original %d"
                          % (len(hr), len(hw))})
            continue
        def norm(h, ref):
            # probe points at which the ORIGINAL handler's helper object could not be evaluated with the generic
            # signature (cell bounding potentials, not yet initialised objects) are not compared
            h = dict(h)
            pr, rf = h.get("potential_probes") or {}, ref.get("potential_probes") or {}
            h["potential_probes"] = {k: [v for v, o in zip(pr.get(k) or [], rf[k]) if not isinstance(o, str)]
                                     for k in rf}
            return h
        bad_h = [(x["class"], k) for x, y in ((norm(x0, x0), norm(y0, x0)) for x0, y0 in zip(hw, hr))
                 for k in sorted(set(x) | set(y)) if k != "initial_event_time" and x.get(k) != y.get(k)]
        if bad_h:
            fails.append({"job": j, "dump_leg": d["leg"], "msg": "restored event handler differs from the original one: "
                          "%s.%s (a potential evaluated at fixed probe points / a parameter)" % bad_h[0]})
            continue
        n_probe_cmp += sum(1 for x in hw for v in (x.get("potential_probes") or {}).values() for o in v
                           if not isinstance(o, str))
        a = [l for l in w["legs"][d["leg"] + 1:] if complete(l)]
        b = [l for l in r["legs"] if complete(l)]
        m = min(len(a), len(b))
        if m < 5 and w["ended"] != "end_of_run":
            ctx.notes.append("only %d legs to compare after dump at leg %d of %s" % (m, d["leg"], j["config"]))
        da, db = draws_inc(w["legs"][d["leg"]:]), draws_inc([{"draws": 0}] + r["legs"])
        for k in range(m):
            df = leg_diff(a[k], b[k])
            if df:
                fails.append({"job": j, "dump_leg": d["leg"], "msg": "resumed run differs from the original at leg %d "
                              "after the dump in %r" % (k, df)})
                break
        n_legs_cmp += m
        if m:
            dterms.append("{| d_orig_suffix := %s; d_resumed := %s |}" % (
                C.coq_list([kleg_term(w["meta"], l) for l in a[:m]]),
                C.coq_list([kleg_term(r["meta"], l) for l in b[:m]])))
            samples.append({"config": j["config"], "overrides": j["overrides"], "dump_at_leg": d["leg"],
                            "legs_compared": m})
        # remove the copy of the dump
        try:
            os.remove(d["file"])
        except OSError:
            pass
    ctx.notes.append("restored handlers: %d potential derivatives at fixed probe points compared bit for bit with the "
                     "original run's handlers (plus all recorded handler parameters)" % n_probe_cmp)
    mism = 0
    for name, terms, checker, ty in (("c19_resume", dterms, "check_dcase", "dcase"),
                                     ("c19_invisible", iterms, "check_icase", "icase")):
        if terms:
            neval, bad, nf, nok, err = C.eval_cases(ctx, name, HEADER, terms, checker, ty, per_file=1)
            if err:
                broken.append(name + " case files did not evaluate: " + err[-600:])
            mism += len(bad)
    if f8:
        C.known(ctx, "F8", "%d pair(s) of exactly simultaneous events committed in the opposite order by the run that "
                "writes dumps (heap scheduler), e.g. %s commit %d handlers %r" % (
                    len(f8), f8[0]["config"], f8[0]["commit"], f8[0]["handlers"]))
    if fails:
        f = fails[0]
        C.violation(ctx, "oracle", {"kind": "c19", "jobs": [f["job"]], "message": f["msg"], "dump_leg": f.get("dump_leg"), "detail": f.get("detail"),
                                    "n_failing": len(fails)}, "C19 fails on real runs: " + f["msg"])
    elif mism:
        C.violation(ctx, "correspondence", {"kind": "c19", "jobs": js, "message": "traces differ inside Coq but not in "
                                            "the Python comparison; correspondence check_dcase / check_icase no longer "
                                            "checks"}, "trace comparison in Coq failed", nofail=True)
    elif broken:
        C.violation(ctx, "obligation", {"kind": "obligation", "broken": broken}, broken[0][:300], nofail=True)
    C.write_evidence(ctx, {
        "evaluations": n_legs_cmp, "distinct_nontrivial": n_dumps + len(iterms),
        "rule": "legs compared bit for bit between (a) the original run after each dump and the run resumed from that "
                "dump in a fresh process, (b) the run with dumping (dumping events removed) and the same seed without; "
                "distinct_nontrivial = dump points resumed + invisible-dumping comparisons",
        "samples": samples[:10] or [{"note": "no dump compared"}],
        "input_distribution": {"jobs": [{"config": j["config"], "overrides": j["overrides"],
                                         "dump_interval": j["dump_interval"]} for j in js],
                               "dump_points_resumed": n_dumps},
        "traces_validated_against_impl": n_dumps + len(iterms),
        "oracle_failures": len(fails), "conformance_mismatches": mism,
        "explanation": "Props/C19.v re-checked (resume_same_trace for any scheduler bisimulation); differential real "
                       "runs: every selected dump resumed in a fresh process via jellyfysh.resume.main, suffix traces "
                       "compared bit for bit (Python and again inside Coq); dumping shown invisible against the "
                       "same-seed run without dumping; both schedulers, C-backed potentials, cell systems",
        "trusted_base": TRUSTED,
    }, ASSUME)


def replay(ctx, path):
    data = json.load(open(path))
    run(ctx, replay_jobs=data.get("jobs"))
